//! Shared helpers for the correspondence harness binaries.
use std::io::{BufRead, Write};

pub use serde_json::{json, Value};

/// Read JSON-lines cases from the file named by argv[idx].
pub fn read_cases(path: &str) -> Vec<Value> {
	let f = std::fs::File::open(path).unwrap_or_else(|e| panic!("open {path}: {e}"));
	std::io::BufReader::new(f)
		.lines()
		.map(|l| l.expect("read line"))
		.filter(|l| !l.trim().is_empty())
		.map(|l| serde_json::from_str(&l).unwrap_or_else(|e| panic!("bad case json: {e}: {l}")))
		.collect()
}

pub fn emit(v: &Value) {
	let out = std::io::stdout();
	let mut lock = out.lock();
	serde_json::to_writer(&mut lock, v).expect("write");
	lock.write_all(b"\n").expect("write");
}

pub fn hex(bytes: &[u8]) -> String {
	let mut s = String::with_capacity(bytes.len() * 2);
	for b in bytes {
		s.push_str(&format!("{b:02x}"));
	}
	s
}

pub fn unhex(s: &str) -> Vec<u8> {
	(0..s.len() / 2)
		.map(|i| u8::from_str_radix(&s[2 * i..2 * i + 2], 16).expect("hex"))
		.collect()
}

pub fn strs(v: &Value) -> Vec<String> {
	v.as_array()
		.map(|a| a.iter().map(|x| x.as_str().expect("string").to_owned()).collect())
		.unwrap_or_default()
}

pub mod evgen;
pub mod sim;
