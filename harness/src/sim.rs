//! Simulated child processes for the supervisor, installed through the public spawn hook, and a
//! shared event log with virtual (tokio paused-clock) timestamps.
use std::{
	future::Future,
	io::Result,
	os::unix::process::ExitStatusExt,
	process::ExitStatus,
	sync::{Arc, Mutex},
};

use process_wrap::tokio::{TokioChildWrapper, TokioCommandWrap, TokioCommandWrapper};
use tokio::{process::Child, time::Instant};

#[derive(Clone, Debug, Default)]
pub struct Beh {
	/// exits by itself this many ms after spawn
	pub self_exit: Option<u64>,
	/// reaction to a signal number: None = ignore, Some(d) = exit d ms after the signal
	pub react: Vec<(i32, Option<u64>)>,
	pub default_react: Option<u64>,
	pub ignore_all: bool,
	/// the process needs this many ms to die after SIGKILL (a process stuck in the kernel)
	pub kill_delay: u64,
}

#[derive(Debug, Default)]
pub struct Script {
	pub children: Vec<Beh>,      // behaviour of the i-th successfully spawned child (last repeats)
	pub spawn_fail: Vec<usize>,  // spawn attempt indices (0-based) that fail
	pub signal_fail: Vec<usize>, // global signal call indices that fail
	pub kill_fail: Vec<usize>,   // global start_kill call indices that fail
	pub wait_fail: Vec<usize>,   // global indices of wait() completions that fail instead (the child stays un-reaped)
	pub signal_errno: Option<i32>, // the OS error a failing signal call reports (default: a generic error)
}

#[derive(Debug)]
pub struct World {
	pub t0: Instant,
	pub log: Vec<String>,
	pub script: Script,
	pub attempts: usize,
	pub spawned: usize,
	pub waits: usize,
	pub force_exit: Option<Instant>,   // set by a history's hook: every live child ends (status 0) at that instant
	pub signals: usize,
	pub kills: usize,
}

pub type Shared = Arc<Mutex<World>>;

pub fn now_ms(w: &World) -> u64 {
	Instant::now().duration_since(w.t0).as_millis() as u64
}

pub fn log(sh: &Shared, what: &str) {
	let mut w = sh.lock().unwrap();
	let t = now_ms(&w);
	w.log.push(format!("{t}:{what}"));
}

#[derive(Debug)]
struct ChildState {
	exit_at: Option<Instant>,
	status: i32, // raw wait status once exited
	reaped: bool,
}

#[derive(Debug)]
pub struct SimChild {
	inner: Box<dyn TokioChildWrapper>,
	sh: Shared,
	beh: Beh,
	st: Mutex<ChildState>,
	idx: usize,
}

impl SimChild {
	fn absorb_forced(&self) {
		let f = self.sh.lock().unwrap().force_exit;
		if let Some(t) = f {
			let mut st = self.st.lock().unwrap();
			if st.exit_at.map_or(true, |e| t < e) {
				st.exit_at = Some(t);
				st.status = 0;
			}
		}
	}
	fn exited(&self) -> bool {
		self.absorb_forced();
		self.st.lock().unwrap().exit_at.map_or(false, |t| t <= Instant::now())
	}
}

impl TokioChildWrapper for SimChild {
	fn inner(&self) -> &Child {
		self.inner.inner()
	}
	fn inner_mut(&mut self) -> &mut Child {
		self.inner.inner_mut()
	}
	fn into_inner(self: Box<Self>) -> Child {
		// not used by the supervisor
		unimplemented!("SimChild::into_inner")
	}
	fn id(&self) -> Option<u32> {
		Some(1_000_000 + self.idx as u32)
	}
	fn start_kill(&mut self) -> Result<()> {
		let fail = {
			let mut w = self.sh.lock().unwrap();
			let k = w.kills;
			w.kills += 1;
			w.script.kill_fail.contains(&k)
		};
		if fail {
			log(&self.sh, &format!("killfail({})", self.idx));
			return Err(std::io::Error::other("injected kill failure"));
		}
		log(&self.sh, &format!("kill({})", self.idx));
		if !self.exited() {
			let mut st = self.st.lock().unwrap();
			let at = Instant::now() + std::time::Duration::from_millis(self.beh.kill_delay);
			if st.exit_at.map_or(true, |t| at < t) {
				st.exit_at = Some(at);
				st.status = 9;
			}
		}
		Ok(())
	}
	fn try_wait(&mut self) -> Result<Option<ExitStatus>> {
		Ok(if self.exited() { Some(ExitStatus::from_raw(self.st.lock().unwrap().status)) } else { None })
	}
	fn wait(&mut self) -> Box<dyn Future<Output = Result<ExitStatus>> + Send + '_> {
		Box::new(async move {
			self.absorb_forced();
			let at = self.st.lock().unwrap().exit_at;
			match at {
				Some(t) => tokio::time::sleep_until(t).await,
				None => std::future::pending::<()>().await,
			}
			let fail = {
				let mut w = self.sh.lock().unwrap();
				let k = w.waits;
				w.waits += 1;
				w.script.wait_fail.contains(&k)
			};
			if fail {
				log(&self.sh, &format!("waitfail({})", self.idx));
				return Err(std::io::Error::other("injected wait failure"));
			}
			let (first, status) = {
				let mut st = self.st.lock().unwrap();
				let first = !st.reaped;
				st.reaped = true;
				(first, st.status)
			};
			if first {
				log(&self.sh, &format!("reap({},{status})", self.idx));
			}
			Ok(ExitStatus::from_raw(status))
		})
	}
	fn signal(&self, sig: i32) -> Result<()> {
		let fail = {
			let mut w = self.sh.lock().unwrap();
			let k = w.signals;
			w.signals += 1;
			w.script.signal_fail.contains(&k)
		};
		if fail {
			log(&self.sh, &format!("sigfail({},{sig})", self.idx));
			let en = self.sh.lock().unwrap().script.signal_errno;
			return Err(match en { Some(n) => std::io::Error::from_raw_os_error(n), None => std::io::Error::other("injected signal failure") });
		}
		log(&self.sh, &format!("signal({},{sig})", self.idx));
		let react = if sig == 9 {
			Some(self.beh.kill_delay)          // SIGKILL cannot be caught or ignored
		} else if self.beh.ignore_all {
			None
		} else {
			self.beh.react.iter().find(|(s, _)| *s == sig).map(|(_, r)| *r).unwrap_or(self.beh.default_react)
		};
		if let Some(d) = react {
			let at = Instant::now() + std::time::Duration::from_millis(d);
			let mut st = self.st.lock().unwrap();
			let exited = st.exit_at.map_or(false, |t| t <= Instant::now());
			if !exited && st.exit_at.map_or(true, |t| at < t) {
				st.exit_at = Some(at);
				st.status = sig;
			}
		}
		Ok(())
	}
}

impl Drop for SimChild {
	fn drop(&mut self) {
		if !self.st.lock().unwrap().reaped {
			log(&self.sh, &format!("drop({})", self.idx));
		}
	}
}

#[derive(Debug)]
pub struct SimWrapper {
	pub sh: Shared,
}

impl TokioCommandWrapper for SimWrapper {
	fn pre_spawn(&mut self, _command: &mut tokio::process::Command, _core: &TokioCommandWrap) -> Result<()> {
		let mut w = self.sh.lock().unwrap();
		let a = w.attempts;
		w.attempts += 1;
		if w.script.spawn_fail.contains(&a) {
			let t = now_ms(&w);
			w.log.push(format!("{t}:spawnfail({a})"));
			return Err(std::io::Error::other("injected spawn failure"));
		}
		Ok(())
	}

	fn wrap_child(&mut self, child: Box<dyn TokioChildWrapper>, _core: &TokioCommandWrap) -> Result<Box<dyn TokioChildWrapper>> {
		let (idx, beh) = {
			let mut w = self.sh.lock().unwrap();
			let i = w.spawned;
			w.spawned += 1;
			let beh = w.script.children.get(i).or(w.script.children.last()).cloned().unwrap_or_default();
			let t = now_ms(&w);
			w.log.push(format!("{t}:spawn({i})"));
			(i, beh)
		};
		let exit_at = beh.self_exit.map(|d| Instant::now() + std::time::Duration::from_millis(d));
		Ok(Box::new(SimChild {
			inner: child,
			sh: self.sh.clone(),
			beh,
			st: Mutex::new(ChildState { exit_at, status: 0, reaped: false }),
			idx,
		}))
	}
}
