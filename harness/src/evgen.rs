//! Construction of events from the abstract JSON case format.
use crate::*;

pub fn all_fs_kinds() -> Vec<watchexec_events::filekind::FileEventKind> {
	use watchexec_events::filekind::*;
	let am = [AccessMode::Any, AccessMode::Execute, AccessMode::Read, AccessMode::Write, AccessMode::Other];
	let mut v = vec![FileEventKind::Any];
	v.push(FileEventKind::Access(AccessKind::Any));
	v.push(FileEventKind::Access(AccessKind::Read));
	for m in am {
		v.push(FileEventKind::Access(AccessKind::Open(m)));
	}
	for m in am {
		v.push(FileEventKind::Access(AccessKind::Close(m)));
	}
	v.push(FileEventKind::Access(AccessKind::Other));
	for k in [CreateKind::Any, CreateKind::File, CreateKind::Folder, CreateKind::Other] {
		v.push(FileEventKind::Create(k));
	}
	v.push(FileEventKind::Modify(ModifyKind::Any));
	for d in [DataChange::Any, DataChange::Size, DataChange::Content, DataChange::Other] {
		v.push(FileEventKind::Modify(ModifyKind::Data(d)));
	}
	for m in [
		MetadataKind::Any, MetadataKind::AccessTime, MetadataKind::WriteTime, MetadataKind::Permissions,
		MetadataKind::Ownership, MetadataKind::Extended, MetadataKind::Other,
	] {
		v.push(FileEventKind::Modify(ModifyKind::Metadata(m)));
	}
	for r in [RenameMode::Any, RenameMode::To, RenameMode::From, RenameMode::Both, RenameMode::Other] {
		v.push(FileEventKind::Modify(ModifyKind::Name(r)));
	}
	v.push(FileEventKind::Modify(ModifyKind::Other));
	for k in [RemoveKind::Any, RemoveKind::File, RemoveKind::Folder, RemoveKind::Other] {
		v.push(FileEventKind::Remove(k));
	}
	v.push(FileEventKind::Other);
	v
}

pub fn mk_signal(v: &Value) -> watchexec_signals::Signal {
	use watchexec_signals::Signal::*;
	if let Some(n) = v.as_i64() {
		return Custom(n as i32);
	}
	match v.as_str().unwrap() {
		"Hangup" => Hangup,
		"ForceStop" => ForceStop,
		"Interrupt" => Interrupt,
		"Quit" => Quit,
		"Terminate" => Terminate,
		"User1" => User1,
		"User2" => User2,
		o => panic!("signal {o}"),
	}
}

pub fn mk_tag(t: &Value) -> watchexec_events::Tag {
	use std::num::{NonZeroI32, NonZeroI64};
	use watchexec_events::{FileType, Keyboard, ProcessEnd, Source, Tag};
	match t["t"].as_str().unwrap() {
		"path" => Tag::Path {
			path: t["p"].as_str().unwrap().into(),
			file_type: t["ft"].as_str().map(|f| match f {
				"file" => FileType::File,
				"dir" => FileType::Dir,
				"symlink" => FileType::Symlink,
				_ => FileType::Other,
			}),
		},
		"fek" => {
			let want = t["k"].as_str().unwrap();
			Tag::FileEventKind(
				all_fs_kinds().into_iter().find(|k| format!("{k:?}") == want).expect("kind"),
			)
		}
		"source" => Tag::Source(match t["s"].as_str().unwrap() {
			"Filesystem" => Source::Filesystem,
			"Keyboard" => Source::Keyboard,
			"Mouse" => Source::Mouse,
			"Os" => Source::Os,
			"Time" => Source::Time,
			_ => Source::Internal,
		}),
		"keyboard" => Tag::Keyboard(Keyboard::Eof),
		"process" => Tag::Process(t["pid"].as_u64().unwrap() as u32),
		"signal" => Tag::Signal(mk_signal(&t["s"])),
		"completion" => {
			let e = &t["e"];
			Tag::ProcessCompletion(if e.is_null() {
				None
			} else {
				Some(match e["d"].as_str().unwrap() {
					"Success" => ProcessEnd::Success,
					"Continued" => ProcessEnd::Continued,
					"ExitError" => ProcessEnd::ExitError(NonZeroI64::new(e["c"].as_i64().unwrap()).unwrap()),
					"ExitStop" => ProcessEnd::ExitStop(NonZeroI32::new(e["c"].as_i64().unwrap() as i32).unwrap()),
					"Exception" => ProcessEnd::Exception(NonZeroI32::new(e["c"].as_i64().unwrap() as i32).unwrap()),
					"ExitSignal" => ProcessEnd::ExitSignal(mk_signal(&e["s"])),
					o => panic!("disposition {o}"),
				})
			})
		}
		"unknown" => Tag::Unknown,
		o => panic!("tag {o}"),
	}
}

pub fn mk_event(case: &Value) -> watchexec_events::Event {
	let mut e = watchexec_events::Event::default();
	for t in case["tags"].as_array().unwrap() {
		e.tags.push(mk_tag(t));
	}
	if let Some(m) = case["meta"].as_object() {
		for (k, v) in m {
			e.metadata.insert(k.clone(), strs(v));
		}
	}
	e
}

