//! Correspondence harness for the CLI-level properties (C05 C12 C17-simple-format C18-cli).
use wxharness::*;

fn main() {
	let args: Vec<String> = std::env::args().collect();
	let rt = tokio::runtime::Builder::new_multi_thread().worker_threads(2).enable_all().build().unwrap();
	match args[1].as_str() {
		"noop" => {
			let a = rt.block_on(watchexec_cli::verif::args_from(vec!["watchexec".into(), "true".into()]));
			emit(&json!({"ok": a.is_ok()}));
		}
		"simple-format" => {
			for case in read_cases(&args[2]) {
				let events: Vec<watchexec_events::Event> =
					case["events"].as_array().unwrap().iter().map(wxharness::evgen::mk_event).collect();
				let out = watchexec_cli::verif::events_to_simple_format(&events).unwrap();
				emit(&json!({"lines": out}));
			}
		}
		"interpret" => {
			for case in read_cases(&args[2]) {
				let argv = strs(&case["argv"]);
				match case["shell_env"].as_str() {
					Some(s) => std::env::set_var("SHELL", s),
					None => std::env::remove_var("SHELL"),
				}
				let r = std::panic::catch_unwind(|| {
					let rt = tokio::runtime::Builder::new_current_thread().enable_all().build().unwrap();
					rt.block_on(async {
						let a = match watchexec_cli::verif::args_from(argv).await {
							Ok(a) => a,
							Err(e) => return format!("ARGS-ERR:{e}"),
						};
						match watchexec_cli::verif::interpret_command_args(&a) {
							Err(e) => format!("ERR:{e}"),
							Ok(cmd) => {
								use watchexec_supervisor::command::Program;
								let (argv, kind): (Vec<String>, &str) = match &cmd.program {
									Program::Exec { prog, args } => (
										std::iter::once(prog.to_string_lossy().into_owned()).chain(args.iter().cloned()).collect(),
										"exec",
									),
									Program::Shell { shell, command, args } => (
										std::iter::once(shell.prog.to_string_lossy().into_owned())
											.chain(shell.options.iter().cloned())
											.chain(shell.program_option.iter().map(|o| o.to_string_lossy().into_owned()))
											.chain(std::iter::once(command.clone()))
											.chain(args.iter().cloned())
											.collect(),
										"shell",
									),
								};
								format!(
									"[{}] {kind} g={} s={}",
									argv.iter().map(|a| hex(a.as_bytes())).collect::<Vec<_>>().join(","),
									if cmd.options.grouped { "T" } else { "F" },
									if cmd.options.session { "T" } else { "F" }
								)
							}
						}
					})
				});
				emit(&json!({"obs": r.unwrap_or_else(|_| "PANIC".into())}));
			}
		}
		other => panic!("unknown subcommand {other}"),
	}
}
