//! Correspondence harness for the CLI-level properties (C05 C12 C17-simple-format C18-cli).
use wxharness::*;

fn main() {
	let args: Vec<String> = std::env::args().collect();
	let rt = tokio::runtime::Builder::new_multi_thread().worker_threads(2).enable_all().build().unwrap();
	match args[1].as_str() {
		"noop" => {
			let a = rt.block_on(watchexec_cli::verif::args_from(vec!["watchexec".into(), "true".into()]));
			emit(&json!({"ok": a.is_ok()}));
		}
		"simple-format" => {
			for case in read_cases(&args[2]) {
				let events: Vec<watchexec_events::Event> =
					case["events"].as_array().unwrap().iter().map(wxharness::evgen::mk_event).collect();
				let out = watchexec_cli::verif::events_to_simple_format(&events).unwrap();
				emit(&json!({"lines": out}));
			}
		}
		other => panic!("unknown subcommand {other}"),
	}
}
