//! Correspondence harness for the CLI-level properties (C05 C12 C17-simple-format C18-cli).
use wxharness::*;

fn main() {
	let args: Vec<String> = std::env::args().collect();
	if std::env::var("WXH_TRACE").is_ok() {
		tracing_subscriber::fmt().with_env_filter(std::env::var("WXH_TRACE").unwrap()).with_writer(std::io::stderr).init();
	}
	let rt = tokio::runtime::Builder::new_multi_thread().worker_threads(2).enable_all().build().unwrap();
	match args[1].as_str() {
		"noop" => {
			let a = rt.block_on(watchexec_cli::verif::args_from(vec!["watchexec".into(), "true".into()]));
			emit(&json!({"ok": a.is_ok()}));
		}
		"env-summary" => {
			// the CLI's glue between the path summary and the command's environment
			for case in read_cases(&args[2]) {
				let events: Vec<watchexec_events::Event> =
					case["events"].as_array().unwrap().iter().map(wxharness::evgen::mk_event).collect();
				let mut v: Vec<(String, String)> = watchexec_cli::verif::emits_to_environment(&events)
					.map(|e| (e.key, e.value.to_string_lossy().into_owned())).collect();
				v.sort();
				emit(&json!({"env": v}));
			}
		}
		"simple-format" => {
			for case in read_cases(&args[2]) {
				let events: Vec<watchexec_events::Event> =
					case["events"].as_array().unwrap().iter().map(wxharness::evgen::mk_event).collect();
				let out = watchexec_cli::verif::events_to_simple_format(&events).unwrap();
				emit(&json!({"lines": out}));
			}
		}
		"interpret" => {
			for case in read_cases(&args[2]) {
				let argv = strs(&case["argv"]);
				match case["shell_env"].as_str() {
					Some(s) => std::env::set_var("SHELL", s),
					None => std::env::remove_var("SHELL"),
				}
				let r = std::panic::catch_unwind(|| {
					let rt = tokio::runtime::Builder::new_current_thread().enable_all().build().unwrap();
					rt.block_on(async {
						let a = match watchexec_cli::verif::args_from(argv).await {
							Ok(a) => a,
							Err(e) => return format!("ARGS-ERR:{e}"),
						};
						match watchexec_cli::verif::interpret_command_args(&a) {
							Err(e) => format!("ERR:{e}"),
							Ok(cmd) => {
								use watchexec_supervisor::command::Program;
								let (argv, kind): (Vec<String>, &str) = match &cmd.program {
									Program::Exec { prog, args } => (
										std::iter::once(prog.to_string_lossy().into_owned()).chain(args.iter().cloned()).collect(),
										"exec",
									),
									Program::Shell { shell, command, args } => (
										std::iter::once(shell.prog.to_string_lossy().into_owned())
											.chain(shell.options.iter().cloned())
											.chain(shell.program_option.iter().map(|o| o.to_string_lossy().into_owned()))
											.chain(std::iter::once(command.clone()))
											.chain(args.iter().cloned())
											.collect(),
										"shell",
									),
								};
								format!(
									"[{}] {kind} g={} s={}",
									argv.iter().map(|a| hex(a.as_bytes())).collect::<Vec<_>>().join(","),
									if cmd.options.grouped { "T" } else { "F" },
									if cmd.options.session { "T" } else { "F" }
								)
							}
						}
					})
				});
				emit(&json!({"obs": r.unwrap_or_else(|_| "PANIC".into())}));
			}
		}
		"ignores" => rt.block_on(ignores(&args[2], &args[3])),
		"onbusy" => {
			std::fs::create_dir_all(&args[3]).unwrap();
			let base = std::fs::canonicalize(&args[3]).unwrap().to_string_lossy().into_owned();
			// watchdog: an instance whose job task spins can stall the runtime's timers; such a case is reported as hung and the process ends
			// (the caller resumes with the next case)
			let skip: usize = args.get(4).and_then(|s| s.parse().ok()).unwrap_or(0);
			let current: std::sync::Arc<std::sync::Mutex<Option<(Value, std::time::Instant, u64)>>> = Default::default();
			let cur2 = current.clone();
			std::thread::spawn(move || loop {
				std::thread::sleep(std::time::Duration::from_millis(500));
				let hung = cur2.lock().unwrap().as_ref().filter(|(_, t, lim)| t.elapsed() > std::time::Duration::from_millis(*lim)).map(|(id, _, _)| id.clone());
				if let Some(id) = hung {
					emit(&json!({"id": id, "hung": true, "sent": [], "child_log": [], "main": "hung", "t0": 0, "t_end": 0, "alive_after": []}));
					use std::io::Write;
					let _ = std::io::stdout().flush();
					std::process::exit(0);
				}
			});
			for case in read_cases(&args[2]).into_iter().skip(skip) {
				let lim = case["wait_ms"].as_u64().unwrap_or(3000) + case["events"].as_array().and_then(|a| a.last()).and_then(|e| e["at_ms"].as_u64()).unwrap_or(0) + 10_000;
				*current.lock().unwrap() = Some((case["id"].clone(), std::time::Instant::now(), lim));
				let rt = tokio::runtime::Builder::new_multi_thread().worker_threads(3).enable_all().build().unwrap();
				let v = rt.block_on(onbusy(case, &base));
				emit(&v);
				rt.shutdown_timeout(std::time::Duration::from_millis(200));
			}
		}
		other => panic!("unknown subcommand {other}"),
	}
}

// ---------------------------------------------------------------- C12

async fn ignores(cases: &str, base: &str) {
	use watchexec::filter::Filterer;
	use watchexec_events::{filekind::*, Event, FileType, Priority, Tag};
	std::fs::create_dir_all(base).unwrap();
	let base = std::fs::canonicalize(base).unwrap();
	let proj = base.join("proj");
	let home = base.join("home");
	let _ = std::fs::remove_dir_all(&proj);
	let _ = std::fs::remove_dir_all(&home);
	for d in ["proj/.git/info", "proj/sub", "home/.config/git", "home/.config/watchexec"] {
		std::fs::create_dir_all(base.join(d)).unwrap();
	}
	let w = |rel: &str, txt: &str| std::fs::write(base.join(rel), txt).unwrap();
	w("proj/.git/HEAD", "ref: refs/heads/main\n");
	w("proj/.git/info/exclude", "from_git_exclude\n");
	w("proj/.gitignore", "from_gitignore\n");
	w("proj/.ignore", "from_dotignore\n");
	w("proj/.hgignore", "from_hgignore\n");
	w("proj/sub/.gitignore", "from_sub_gitignore\n");
	w("home/.config/git/ignore", "from_global_git\n");
	w("home/.config/watchexec/ignore", "from_global_app\n");
	w("proj/extra.ign", "from_explicit_file\n");
	w("proj/filters.txt", "*.keep\n");
	let _ = std::fs::remove_dir_all(base.join("proj2"));
	std::fs::create_dir_all(base.join("proj2/sub")).unwrap();
	std::fs::create_dir_all(base.join("outside")).unwrap();
	w("proj2/.gitignore", "from_gitignore\n");
	w("proj2/.ignore", "from_dotignore\n");
	w("proj2/sub/.hgignore", "from_hgignore\n");
	w("proj2/sub/.gitignore", "from_sub_gitignore\n");
	w("proj2/extra.ign", "from_explicit_file\n");
	w("proj2/filters.txt", "*.keep\n");
	// "gitexcl": the git project again, with a .git/config that names its own excludes file (core.excludesFile)
	let _ = std::fs::remove_dir_all(base.join("proj3"));
	std::fs::create_dir_all(base.join("proj3/.git/info")).unwrap();
	std::fs::create_dir_all(base.join("proj3/sub")).unwrap();
	for f in [".git/HEAD", ".git/info/exclude", ".gitignore", ".ignore", ".hgignore", "sub/.gitignore", "extra.ign", "filters.txt"] {
		std::fs::copy(proj.join(f), base.join("proj3").join(f)).unwrap();
	}
	w("home/custom_excl", "from_custom_excl\n");
	w("proj3/.git/config", &format!("[core]\n\texcludesFile = {}\n", base.join("home/custom_excl").display()));
	std::env::set_var("HOME", &home);
	std::env::set_var("XDG_CONFIG_HOME", home.join(".config"));
	for v in ["APPDATA", "USERPROFILE", "GIT_CONFIG_GLOBAL", "GIT_CONFIG_SYSTEM", "WATCHEXEC_IGNORE_FILES"] {
		std::env::remove_var(v);
	}
	std::env::set_var("GIT_CONFIG_NOSYSTEM", "1");
	std::env::set_current_dir(&proj).unwrap();
	let ids = [
		(".gitignore", 1), (".ignore", 2), (".hgignore", 3), ("sub/.gitignore", 4), (".git/info/exclude", 5),
		("git/ignore", 6), ("watchexec/ignore", 7), ("custom_excl", 8), ("extra.ign", 9),
	];
	for case in read_cases(cases) {
		// layouts: the default project is a git repository; "novcs" is the same tree without any VCS metadata directory
		let proj = if case["layout"] == "novcs" { base.join("proj2") } else if case["layout"] == "gitexcl" { base.join("proj3") } else { proj.clone() };
		std::env::set_current_dir(&proj).unwrap();
		let mut argv = vec!["watchexec".to_owned(), "--project-origin".into(), proj.to_string_lossy().into_owned()];
		argv.extend(strs(&case["args"]).into_iter().map(|a| a.replace("@PROJ@", &proj.to_string_lossy())));
		argv.extend(["--".to_owned(), "true".to_owned()]);
		let a = match watchexec_cli::verif::args_from(argv.clone()).await {
			Ok(a) => a,
			Err(e) => {
				emit(&json!({"error": format!("{e}")}));
				continue;
			}
		};
		let vcs = watchexec_cli::verif::vcs_types(&proj).await;
		let listed: Vec<String> = if a.filtering.no_discover_ignore {
			vec!["<no-discover>".into()]
		} else {
			watchexec_cli::verif::ignores(&a, &vcs).await.unwrap().iter().map(|ig| {
				let p = ig.path.to_string_lossy().into_owned();
				let id = ids.iter().filter(|(n, _)| p.ends_with(n)).map(|(_, i)| *i).max().unwrap_or(0);
				let ain = match &ig.applies_in { None => "g", Some(d) if d.starts_with(&proj) => "o", Some(_) => "e" };
				format!("{id}{ain}{}", ig.applies_to.map_or("-".to_owned(), |t| format!("{t:?}")))
			}).collect()
		};
		let filterer = match watchexec_cli::verif::WatchexecFilterer::new(&a).await {
			Ok(f) => f,
			Err(e) => {
				emit(&json!({"error": format!("{e}")}));
				continue;
			}
		};
		let mut verdicts = serde_json::Map::new();
		for probe in strs(&case["probes"]) {
			let (name, kind) = probe.split_once('@').map_or((probe.as_str(), "modify"), |(a, b)| (a, b));
			let fek = match kind {
				"create" => FileEventKind::Create(CreateKind::File),
				"access" => FileEventKind::Access(AccessKind::Read),
				"meta" => FileEventKind::Modify(ModifyKind::Metadata(MetadataKind::Permissions)),
				_ => FileEventKind::Modify(ModifyKind::Data(DataChange::Content)),
			};
			let ev = Event {
				// "OUT/<name>": a path outside the project origin (another watched directory)
				tags: vec![Tag::Path { path: match name.strip_prefix("OUT/") { Some(n) => base.join("outside").join(n), None => proj.join(name) }, file_type: Some(FileType::File) }, Tag::FileEventKind(fek)],
				metadata: Default::default(),
			};
			verdicts.insert(probe.clone(), json!(filterer.check_event(&ev, Priority::Normal).unwrap()));
		}
		emit(&json!({"vcs": vcs.iter().map(|t| format!("{t:?}")).collect::<Vec<_>>(), "listed": listed, "verdicts": verdicts}));
	}
}

// ---------------------------------------------------------------- C05 / C08 (CLI action handler in-process)

fn mono_ms() -> u128 {
	let mut ts = libc::timespec { tv_sec: 0, tv_nsec: 0 };
	unsafe { libc::clock_gettime(libc::CLOCK_MONOTONIC, &mut ts) };
	(ts.tv_sec as u128) * 1000 + (ts.tv_nsec as u128) / 1_000_000
}

/// live (non-zombie) process?
fn proc_alive(pid: i64) -> bool {
	match std::fs::read_to_string(format!("/proc/{pid}/stat")) {
		Ok(s) => match s.rfind(')') {
			Some(i) => !matches!(s[i + 1..].trim_start().chars().next(), Some('Z') | Some('X') | None),
			None => false,
		},
		Err(_) => false,
	}
}

async fn onbusy(case: Value, base: &str) -> Value {
	use std::time::Duration;
	use watchexec_events::{Event, FileType, Priority, Tag};
	let id = case["id"].as_u64().unwrap();
	let dir = std::path::Path::new(base).join(format!("o{id}"));
	let _ = std::fs::remove_dir_all(&dir);
	std::fs::create_dir_all(&dir).unwrap();
	let dir = std::fs::canonicalize(&dir).unwrap();
	let out = dir.join("child.log");
	std::env::set_var("WXH_OUT", &out);
	std::env::set_var("WXH_MODE", "run");
	std::env::set_var("WXH_SCRIPT", case["child_script"].as_str().unwrap_or(""));
	std::env::set_var("SHELL", "sh");
	std::env::set_current_dir(&dir).unwrap();
	let helper = std::env::current_exe().unwrap().with_file_name("simchild");
	let mut argv = vec!["watchexec".to_owned(), "--project-origin".into(), dir.to_string_lossy().into_owned(), "-n".into(), "--ignore-nothing".into()];
	argv.extend(strs(&case["args"]));
	if !case["no_command"].as_bool().unwrap_or(false) {
		argv.push("--".into());
		argv.push(helper.to_string_lossy().into_owned());
	}
	let args = match watchexec_cli::verif::args_from(argv).await {
		Ok(a) => a,
		Err(e) => return json!({"id": id, "error": format!("{e}")}),
	};
	let state = watchexec_cli::verif::new_state(&args).await.unwrap();
	let config = watchexec_cli::verif::make_config(&args, &state).unwrap();
	// no file watching, no signal handling of this process: events are injected
	config.pathset(Vec::<watchexec::WatchedPath>::new());
	// the CLI's own filterer, as bin/watchexec installs it after make_config
	match watchexec_cli::verif::WatchexecFilterer::new(&args).await {
		Ok(f) => { config.filterer(f); }
		Err(e) => return json!({"id": id, "error": format!("filterer: {e}")}),
	}
	// until the instance's signal source has registered its handlers a stray signal must not kill the harness
	for sgn in [libc::SIGTERM, libc::SIGINT, libc::SIGHUP, libc::SIGUSR1] {
		unsafe { libc::signal(sgn, libc::SIG_IGN) };
	}
	let wx = watchexec::Watchexec::with_config(config).unwrap();
	let t0 = mono_ms();
	let main = wx.main();
	let mut sent = Vec::new();
	if !args.events.postpone {
		// the start-up event of cli/src/lib.rs run_watchexec, with the priority it is translated to use there
		let sp = match case["startup_prio"].as_str().unwrap_or("Urgent") { "Urgent" => Priority::Urgent, "High" => Priority::High, "Low" => Priority::Low, _ => Priority::Normal };
		wx.send_event(Event::default(), sp).await.unwrap();
		sent.push(json!({"k": "startup", "t": mono_ms()}));
	}
	for ev in case["events"].as_array().unwrap() {
		let at = ev["at_ms"].as_u64().unwrap() as u128;
		let now = mono_ms() - t0;
		if at > now {
			tokio::time::sleep(Duration::from_millis((at - now) as u64)).await;
		}
		if ev["k"] == "os_signal" {
			// a real OS signal to this process: it goes through the signal source of the instance under test
			let n = match ev["sig"].as_str().unwrap() { "Interrupt" => libc::SIGINT, "Hangup" => libc::SIGHUP, "User1" => libc::SIGUSR1, _ => libc::SIGTERM };
			unsafe { libc::kill(libc::getpid(), n) };
			sent.push(json!({"k": "os_signal", "t": mono_ms(), "ok": true, "sig": ev["sig"]}));
			continue;
		}
		let e = match ev["k"].as_str().unwrap() {
			"change" => Event { tags: vec![Tag::Path { path: dir.join("f.txt"), file_type: Some(FileType::File) }], metadata: Default::default() },
			"signal" => Event { tags: vec![Tag::Signal(wxharness::evgen::mk_signal(&ev["sig"]))], metadata: Default::default() },
			"eof" => Event { tags: vec![Tag::Keyboard(watchexec_events::Keyboard::Eof)], metadata: Default::default() },
			o => panic!("event {o}"),
		};
		if std::env::var("WXH_DBG").is_ok() { eprintln!("DBG sending event"); }
		let ok = wx.send_event(e, Priority::Normal).await.is_ok();
		if std::env::var("WXH_DBG").is_ok() { eprintln!("DBG sent"); }
		sent.push(json!({"k": ev["k"], "t": mono_ms(), "ok": ok, "sig": ev["sig"]}));
	}
	let wait = case["wait_ms"].as_u64().unwrap_or(3000);
	if std::env::var("WXH_DBG").is_ok() { eprintln!("DBG events sent, waiting"); }
	let res = tokio::time::timeout(Duration::from_millis(wait), main).await;
	if std::env::var("WXH_DBG").is_ok() { eprintln!("DBG wait over"); }
	let t_end = mono_ms();
	let main_res = match res {
		Ok(r) => format!("{:?}", r.map(|x| x.map_err(|e| e.to_string()))),
		Err(_) => "timeout".into(),
	};
	tokio::time::sleep(Duration::from_millis(80)).await;
	let log: Vec<Value> = std::fs::read_to_string(&out).unwrap_or_default().lines().filter_map(|l| serde_json::from_str(l).ok()).collect();
	// which logged pids are still alive?
	let mut alive = Vec::new();
	for l in &log {
		if let Some(pid) = l["pid"].as_i64() {
			if proc_alive(pid) && !alive.contains(&pid) {
				alive.push(pid);
			}
		}
	}
	for pid in &alive {
		unsafe { libc::kill(*pid as i32, libc::SIGKILL) };
	}
	json!({"id": id, "t0": t0 as u64, "sent": sent, "child_log": log, "main": main_res, "t_end": t_end as u64, "alive_after": alive})
}
