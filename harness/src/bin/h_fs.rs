//! Harness for the fs source worker (C13): a recording notify::Watcher is installed through the
//! cfg(watchexec_verif) factory hook; configuration changes are issued while the worker is idle or from
//! inside a chosen watch()/unwatch() call of the previous apply phase.
use std::{
	path::{Path, PathBuf},
	sync::{Arc, Mutex},
	time::Duration,
};

use watchexec::{sources::fs::Watcher as WxWatcher, Config, WatchedPath};
use wxharness::*;

#[derive(Default, Debug)]
struct Rec {
	instances: Vec<(String, Vec<(PathBuf, bool)>, bool)>, // kind, registered (path, recursive), alive
	calls: Vec<String>,
	ncalls: usize,
	fail_watch: Vec<String>,
	fail_unwatch: Vec<String>,
	fail_with_path: bool,
	fail_kind: String,
	fail_kind_other: bool,
	unwatch_notfound: bool,
	// (call index, change, position of the change in the case) performed from inside that watch/unwatch call
	inject: Vec<(usize, Value, usize)>,
	config: Option<Arc<Config>>,
}

type Shared = Arc<Mutex<Rec>>;

struct RecWatcher {
	sh: Shared,
	idx: usize,
}

fn apply_change(cfg: &Config, ch: &Value, root: &Path) {
	if let Some(ps) = ch["pathset"].as_array() {
		let v: Vec<WatchedPath> = ps
			.iter()
			.map(|p| {
				let path = root.join(p["p"].as_str().unwrap());
				if p["rec"].as_bool().unwrap_or(true) { WatchedPath::recursive(path) } else { WatchedPath::non_recursive(path) }
			})
			.collect();
		cfg.pathset(v);
	}
	if let Some(k) = ch["watcher"].as_str() {
		cfg.file_watcher(match k { "poll" => WxWatcher::Poll(Duration::from_millis(50)), "poll2" => WxWatcher::Poll(Duration::from_millis(80)), _ => WxWatcher::Native });
	}
	if let Some(t) = ch["throttle"].as_u64() {
		cfg.throttle(Duration::from_millis(t));
	}
	// replacements that do not concern the fs worker (it is woken and must leave the registrations alone)
	if let Some(b) = ch["keyboard"].as_bool() {
		cfg.keyboard_events(b);
	}
	if ch["handler"].as_bool().unwrap_or(false) {
		cfg.on_action(|a| a);
	}
	if ch["error_handler"].as_bool().unwrap_or(false) {
		cfg.on_error(|_: watchexec::ErrorHook| {});
	}
}

static ROOT: Mutex<Option<PathBuf>> = Mutex::new(None);

impl RecWatcher {
	fn hook(&self) {
		// perform an injected configuration change from inside this call
		let (todo, cfg) = {
			let mut r = self.sh.lock().unwrap();
			let n = r.ncalls;
			r.ncalls += 1;
			let todo: Vec<(Value, usize)> = r.inject.iter().filter(|(i, _, _)| *i == n).map(|(_, c, k)| (c.clone(), *k)).collect();
			for (_, k) in &todo {
				r.calls.push(format!("change({k})"));
			}
			(todo, r.config.clone())
		};
		if let Some(cfg) = cfg {
			let root = ROOT.lock().unwrap().clone().unwrap();
			for (ch, _) in todo {
				apply_change(&cfg, &ch, &root);
			}
		}
	}
}

impl notify::Watcher for RecWatcher {
	fn new<F: notify::EventHandler>(_h: F, _c: notify::Config) -> notify::Result<Self> {
		unimplemented!()
	}
	fn watch(&mut self, path: &Path, mode: notify::RecursiveMode) -> notify::Result<()> {
		self.hook();
		let mut r = self.sh.lock().unwrap();
		let name = path.file_name().unwrap().to_string_lossy().into_owned();
		let rec = matches!(mode, notify::RecursiveMode::Recursive);
		r.calls.push(format!("watch({},{},{})", self.idx, name, if rec { "r" } else { "n" }));
		if r.fail_watch.contains(&name) {
			// some back-ends name the path in the error they return (inotify add_watch failures do), others do not
			// (and some fail for lack of resources: the inotify watch limit, as notify reports it or as the raw OS error)
			let e = match r.fail_kind.as_str() {
				"maxfiles" => notify::Error::new(notify::ErrorKind::MaxFilesWatch),
				"enospc" => notify::Error::io(std::io::Error::from_raw_os_error(28)),
				_ => notify::Error::generic("injected watch failure"),
			};
			// (the path an error names may be the requested one, or -- as inotify does for a recursive watch -- one below it)
			return Err(if r.fail_with_path { e.add_path(if r.fail_kind_other { path.join("sub/dir") } else { path.to_owned() }) } else { e });
		}
		let reg = &mut r.instances[self.idx].1;
		reg.retain(|(p, _)| p != path);
		reg.push((path.to_owned(), rec));
		Ok(())
	}
	fn unwatch(&mut self, path: &Path) -> notify::Result<()> {
		self.hook();
		let mut r = self.sh.lock().unwrap();
		let name = path.file_name().unwrap().to_string_lossy().into_owned();
		r.calls.push(format!("unwatch({},{})", self.idx, name));
		if r.fail_unwatch.contains(&name) {
			return Err(if r.unwatch_notfound { notify::Error::watch_not_found() } else { notify::Error::generic("injected unwatch failure") });
		}
		let reg = &mut r.instances[self.idx].1;
		if let Some(i) = reg.iter().position(|(p, _)| p == path) {
			reg.remove(i);
			Ok(())
		} else {
			Err(notify::Error::watch_not_found())
		}
	}
	fn kind() -> notify::WatcherKind {
		notify::WatcherKind::NullWatcher
	}
}

impl Drop for RecWatcher {
	fn drop(&mut self) {
		let mut r = self.sh.lock().unwrap();
		r.instances[self.idx].2 = false;
		let idx = self.idx;
		r.calls.push(format!("drop({idx})"));
	}
}

// ---------------------------------------------------------------- Changeable (lib/src/changeable.rs) against Fs/Changeable.v
type Body = Vec<Value>;
type Handle = Arc<watchexec::changeable::ChangeableFn<Body, ()>>;
struct ChCtx {
	handles: Mutex<std::collections::HashMap<u64, Handle>>,
	trace: Mutex<Vec<(u64, u64)>>,
	bad: std::sync::atomic::AtomicBool,
	current: Mutex<Vec<u64>>,       // handles of the calls in progress (innermost last)
}

fn ch_function(ctx: &Arc<ChCtx>, f: u64) -> impl Fn(Body) + Send + Sync + 'static {
	let ctx = ctx.clone();
	move |body: Body| {
		// the function named f: record the invocation (through which handle is known to the caller), then do what the script says
		let h = *ctx.current.lock().unwrap().last().unwrap();
		ctx.trace.lock().unwrap().push((h, f));
		ch_run(&ctx, &body);
	}
}

fn ch_run(ctx: &Arc<ChCtx>, ops: &[Value]) {
	for op in ops {
		if ctx.bad.load(std::sync::atomic::Ordering::SeqCst) {
			return;
		}
		let get = |h: u64| ctx.handles.lock().unwrap().get(&h).cloned();
		if let Some(a) = op["r"].as_array() {
			match get(a[0].as_u64().unwrap()) {
				Some(hd) => hd.replace(ch_function(ctx, a[1].as_u64().unwrap())),
				None => ctx.bad.store(true, std::sync::atomic::Ordering::SeqCst),
			}
		} else if let Some(a) = op["c"].as_array() {
			match get(a[0].as_u64().unwrap()) {
				Some(hd) => { ctx.handles.lock().unwrap().insert(a[1].as_u64().unwrap(), Arc::new(watchexec::changeable::ChangeableFn::clone(&hd))); }
				None => ctx.bad.store(true, std::sync::atomic::Ordering::SeqCst),
			}
		} else if let Some(a) = op["call"].as_array() {
			let h = a[0].as_u64().unwrap();
			match get(h) {
				Some(hd) => {
					ctx.current.lock().unwrap().push(h);
					hd.call(a[1].as_array().unwrap().clone());
					ctx.current.lock().unwrap().pop();
				}
				None => ctx.bad.store(true, std::sync::atomic::Ordering::SeqCst),
			}
		}
	}
}

fn changeable(cases: &str) {
	for case in read_cases(cases) {
		let ctx = Arc::new(ChCtx { handles: Default::default(), trace: Default::default(), bad: Default::default(), current: Default::default() });
		let h0: Handle = Arc::new(watchexec::changeable::ChangeableFn::default());
		h0.replace(ch_function(&ctx, 0));
		ctx.handles.lock().unwrap().insert(0, h0);
		let (tx, rx) = std::sync::mpsc::channel();
		let (c2, ops) = (ctx.clone(), case["ops"].as_array().unwrap().clone());
		std::thread::spawn(move || {
			ch_run(&c2, &ops);
			let _ = tx.send(());
		});
		let res = match rx.recv_timeout(Duration::from_millis(800)) {
			Ok(()) => if ctx.bad.load(std::sync::atomic::Ordering::SeqCst) { "badhandle" } else { "done" },
			Err(_) => "deadlock",
		};
		let tr: Vec<String> = ctx.trace.lock().unwrap().iter().map(|(h, f)| format!("{h}:{f}")).collect();
		emit(&json!({"id": case["id"], "res": res, "trace": tr}));
	}
	use std::io::Write;
	let _ = std::io::stdout().flush();
	std::process::exit(0);
}

fn main() {
	let args: Vec<String> = std::env::args().collect();
	if args[1] == "changeable" {
		return changeable(&args[2]);
	}
	let base = PathBuf::from(&args[3]);
	std::fs::create_dir_all(&base).unwrap();
	*ROOT.lock().unwrap() = Some(base.clone());
	for case in read_cases(&args[2]) {
		// one runtime per case: a handler that dead-locks its worker thread must not starve the following cases
		let rt = tokio::runtime::Builder::new_multi_thread().worker_threads(4).enable_all().build().unwrap();
		// watchdog: handlers that dead-lock may block every worker thread, and with them the timers this harness sleeps on
		let (tx, rx) = std::sync::mpsc::channel();
		let (c2, b2) = (case.clone(), base.clone());
		rt.spawn(async move {
			let _ = tx.send(run(c2, &b2).await);
		});
		match rx.recv_timeout(Duration::from_secs(10)) {
			Ok(v) => emit(&v),
			Err(_) => {
				*watchexec::sources::fs::verif::FACTORY.lock().unwrap() = None;
				emit(&json!({"id": case["id"], "hung": true, "alive": [], "calls": [], "errors": [], "actions": [], "events_sent": 0, "worker_finished": false}));
			}
		}
		rt.shutdown_timeout(Duration::from_millis(100));
	}
	use std::io::Write;
	let _ = std::io::stdout().flush();
	std::process::exit(0);
}

/// Context of the cases run through a whole `Watchexec` instance: the handlers are the instance's own (`ChangeableFn`s called by the
/// error hook loop and the action worker); scheduled changes are applied from within them, a handler replacement installs a fresh
/// recording handler of the next generation.
struct WxCtx {
	config: Arc<Config>,
	sh: Shared,
	root: PathBuf,
	errs: Arc<Mutex<Vec<String>>>,
	actions: Arc<Mutex<Vec<String>>>,
	nerr: std::sync::atomic::AtomicUsize,
	nact: std::sync::atomic::AtomicUsize,
	egen: std::sync::atomic::AtomicUsize,
	agen: std::sync::atomic::AtomicUsize,
	on_err: Vec<(usize, Value, usize)>,
	on_act: Vec<(usize, Value, usize)>,
}

fn apply_change_wx(ctx: &Arc<WxCtx>, ch: &Value, _gen: usize) {
	use std::sync::atomic::Ordering::SeqCst;
	// generations count the installations of each handler, whoever installs it
	if ch["error_handler"].as_bool().unwrap_or(false) {
		install_error_handler(ctx, ctx.egen.fetch_add(1, SeqCst) + 1);
	} else if ch["handler"].as_bool().unwrap_or(false) {
		install_action_handler(ctx, ctx.agen.fetch_add(1, SeqCst) + 1);
	} else {
		apply_change(&ctx.config, ch, &ctx.root);
	}
}

fn install_error_handler(ctx: &Arc<WxCtx>, gen: usize) {
	let c = ctx.clone();
	ctx.config.on_error(move |hook: watchexec::ErrorHook| {
		use std::sync::atomic::Ordering::SeqCst;
		c.errs.lock().unwrap().push(format!("g{gen}:{}", hook.error));
		let n = c.nerr.fetch_add(1, SeqCst);
		for (i, ch, k) in &c.on_err {
			if *i == n {
				c.sh.lock().unwrap().calls.push(format!("change({k})"));
				apply_change_wx(&c, ch, gen);
			}
		}
	});
}

fn install_action_handler(ctx: &Arc<WxCtx>, gen: usize) {
	let c = ctx.clone();
	ctx.config.on_action(move |action| {
		use std::sync::atomic::Ordering::SeqCst;
		c.actions.lock().unwrap().push(format!("g{gen}:{}", action.events.len()));
		let n = c.nact.fetch_add(1, SeqCst);
		for (i, ch, k) in &c.on_act {
			if *i == n {
				c.sh.lock().unwrap().calls.push(format!("change({k})"));
				apply_change_wx(&c, ch, gen);
			}
		}
		action
	});
}

async fn run_wx(case: Value, root: &Path, sh: Shared) -> Value {
	let wx = watchexec::Watchexec::default();
	let config = wx.config.clone();
	sh.lock().unwrap().config = Some(config.clone());
	let sched = |key: &str| -> Vec<(usize, Value, usize)> {
		case["changes"].as_array().unwrap().iter().enumerate().filter(|(_, c)| c[key].is_u64()).map(|(k, c)| (c[key].as_u64().unwrap() as usize, c.clone(), k)).collect()
	};
	let ctx = Arc::new(WxCtx {
		config: config.clone(), sh: sh.clone(), root: root.to_path_buf(),
		errs: Default::default(), actions: Default::default(), nerr: Default::default(), nact: Default::default(), egen: Default::default(), agen: Default::default(),
		on_err: sched("on_error"), on_act: sched("on_action"),
	});
	install_error_handler(&ctx, 0);
	install_action_handler(&ctx, 0);
	let main = wx.main();
	tokio::time::sleep(Duration::from_millis(20)).await;
	let mut sent = 0usize;
	for (k, ch) in case["changes"].as_array().unwrap().iter().enumerate() {
		if ch["inside_call"].is_u64() || ch["on_error"].is_u64() || ch["on_action"].is_u64() {
			continue;
		}
		if ch["event"].as_bool().unwrap_or(false) {
			// an urgent event: its own batch, one invocation of the action handler
			if wx.send_event(watchexec_events::Event::default(), watchexec_events::Priority::Urgent).await.is_ok() {
				sent += 1;
			}
		} else {
			sh.lock().unwrap().calls.push(format!("change({k})"));
			apply_change_wx(&ctx, ch, 100);
		}
		let gap = ch["gap_ms"].as_u64().unwrap_or(25);
		if gap > 0 {
			tokio::time::sleep(Duration::from_millis(gap)).await;
		}
	}
	tokio::time::sleep(Duration::from_millis(80)).await;
	let finished = main.is_finished();
	let (alive, calls) = {
		let r = sh.lock().unwrap();
		let alive: Vec<Value> = r.instances.iter().filter(|i| i.2).map(|i| {
			let mut reg: Vec<String> = i.1.iter().map(|(p, rec)| format!("{}{}", p.file_name().unwrap().to_string_lossy(), if *rec { ":r" } else { ":n" })).collect();
			reg.sort();
			json!({"kind": i.0, "registered": reg})
		}).collect();
		(alive, r.calls.clone())
	};
	let errors = ctx.errs.lock().unwrap().clone();
	let actions = ctx.actions.lock().unwrap().clone();
	main.abort();
	*watchexec::sources::fs::verif::FACTORY.lock().unwrap() = None;
	json!({"id": case["id"], "alive": alive, "calls": calls, "errors": errors, "actions": actions, "events_sent": sent, "worker_finished": finished})
}

async fn run(case: Value, root: &Path) -> Value {
	let sh: Shared = Arc::new(Mutex::new(Rec::default()));
	{
		let mut r = sh.lock().unwrap();
		r.fail_watch = strs(&case["fail_watch"]);
		r.fail_unwatch = strs(&case["fail_unwatch"]);
		r.fail_with_path = case["fail_with_path"].as_bool().unwrap_or(false);
		r.fail_kind = case["fail_kind"].as_str().unwrap_or("generic").to_owned();
		r.fail_kind_other = case["fail_path_other"].as_bool().unwrap_or(false);
		r.unwatch_notfound = case["unwatch_kind"] == "notfound";
		r.inject = case["changes"].as_array().unwrap().iter().enumerate().filter(|(_, c)| c["inside_call"].is_u64()).map(|(k, c)| (c["inside_call"].as_u64().unwrap() as usize, c.clone(), k)).collect();
	}
	let sh2 = sh.clone();
	*watchexec::sources::fs::verif::FACTORY.lock().unwrap() = Some(Box::new(move |kind, _h| {
		let mut r = sh2.lock().unwrap();
		let k = match kind { WxWatcher::Native => "native".to_owned(), WxWatcher::Poll(d) if d == Duration::from_millis(50) => "poll".to_owned(), _ => "poll2".to_owned() };
		r.instances.push((k.clone(), vec![], true));
		let idx = r.instances.len() - 1;
		r.calls.push(format!("create({idx},{k})"));
		Ok(Box::new(RecWatcher { sh: sh2.clone(), idx }) as Box<dyn notify::Watcher + Send>)
	}));
	if case["via"] == "wx" {
		return run_wx(case, root, sh).await;
	}
	let config = Arc::new(Config::default());
	sh.lock().unwrap().config = Some(config.clone());
	let (er_s, mut er_r) = tokio::sync::mpsc::channel(case["errors_cap"].as_u64().unwrap_or(64) as usize);
	let (ev_s, _ev_r) = async_priority_channel::bounded(1024);
	let errs = Arc::new(Mutex::new(Vec::<String>::new()));
	let e2 = errs.clone();
	// changes issued from within the error handler: applied when the n-th runtime error is received
	let on_err: Vec<(usize, Value, usize)> = case["changes"].as_array().unwrap().iter().enumerate()
		.filter(|(_, c)| c["on_error"].is_u64()).map(|(k, c)| (c["on_error"].as_u64().unwrap() as usize, c.clone(), k)).collect();
	let (cfg_e, sh_e, root_e) = (config.clone(), sh.clone(), root.to_path_buf());
	let et = tokio::spawn(async move {
		let mut n = 0usize;
		while let Some(e) = er_r.recv().await {
			let e: watchexec::error::RuntimeError = e;
			e2.lock().unwrap().push(e.to_string());
			for (i, ch, k) in &on_err {
				if *i == n {
					sh_e.lock().unwrap().calls.push(format!("change({k})"));
					apply_change(&cfg_e, ch, &root_e);
				}
			}
			n += 1;
		}
	});
	let worker = tokio::spawn(watchexec::sources::fs::worker(config.clone(), er_s, ev_s));
	tokio::time::sleep(Duration::from_millis(20)).await;
	for (k, ch) in case["changes"].as_array().unwrap().iter().enumerate() {
		if ch["inside_call"].is_u64() || ch["on_error"].is_u64() {
			continue;
		}
		sh.lock().unwrap().calls.push(format!("change({k})"));
		apply_change(&config, ch, root);
		let gap = ch["gap_ms"].as_u64().unwrap_or(25);
		if gap > 0 {
			tokio::time::sleep(Duration::from_millis(gap)).await;
		}
	}
	tokio::time::sleep(Duration::from_millis(60)).await;
	let finished = worker.is_finished();
	let (alive, calls) = {
		let r = sh.lock().unwrap();
		let alive: Vec<Value> = r.instances.iter().filter(|i| i.2).map(|i| {
			let mut reg: Vec<String> = i.1.iter().map(|(p, rec)| format!("{}{}", p.file_name().unwrap().to_string_lossy(), if *rec { ":r" } else { ":n" })).collect();
			reg.sort();
			json!({"kind": i.0, "registered": reg})
		}).collect();
		(alive, r.calls.clone())
	};
	let errors = errs.lock().unwrap().clone();
	worker.abort();
	et.abort();
	let _ = worker.await;
	*watchexec::sources::fs::verif::FACTORY.lock().unwrap() = None;
	json!({"id": case["id"], "alive": alive, "calls": calls, "errors": errors, "worker_finished": finished})
}
