//! Correspondence harness for the globset filterer (C11).
use std::path::PathBuf;

use ignore_files::IgnoreFile;
use watchexec::filter::Filterer;
use watchexec_events::{Event, FileType, Priority, Tag};
use watchexec_filterer_globset::GlobsetFilterer;
use wxharness::*;

fn main() {
	let args: Vec<String> = std::env::args().collect();
	let rt = tokio::runtime::Builder::new_multi_thread().worker_threads(4).enable_all().build().unwrap();
	match args[1].as_str() {
		"check" => rt.block_on(check(&args[2], &args[3])),
		other => panic!("unknown subcommand {other}"),
	}
}

async fn check(cases: &str, base: &str) {
	std::fs::create_dir_all(base).unwrap();
	let base = std::fs::canonicalize(base).unwrap();
	for case in read_cases(cases) {
		let id = case["id"].as_u64().unwrap();
		let root = base.join(format!("c{id}"));
		let _ = std::fs::remove_dir_all(&root);
		std::fs::create_dir_all(&root).unwrap();
		let abs = |rel: &str| -> PathBuf { if rel.is_empty() { root.clone() } else { root.join(rel) } };
		let origin = abs(case["origin"].as_str().unwrap());
		std::fs::create_dir_all(&origin).unwrap();
		let pats = |v: &Value| -> Vec<(String, Option<PathBuf>)> {
			v.as_array().unwrap().iter().map(|p| (p["pat"].as_str().unwrap().to_owned(), p["in"].as_str().map(|d| abs(d)))).collect()
		};
		let mut files = Vec::new();
		for (i, f) in case["files"].as_array().unwrap().iter().enumerate() {
			let p = root.join(format!("ignf{i}"));
			std::fs::write(&p, strs(&f["lines"]).join("\n") + "\n").unwrap();
			files.push(IgnoreFile { path: p, applies_in: f["applies_in"].as_str().map(|d| abs(d)), applies_to: None });
		}
		let whitelist: Vec<PathBuf> = strs(&case["whitelist"]).iter().map(|w| abs(w)).collect();
		let exts: Vec<std::ffi::OsString> = strs(&case["exts"]).into_iter().map(Into::into).collect();
		let f = match GlobsetFilterer::new(&origin, pats(&case["filters"]), pats(&case["ignores"]), whitelist, files, exts).await {
			Ok(f) => f,
			Err(e) => {
				emit(&json!({"id": id, "error": e.to_string()}));
				continue;
			}
		};
		let mut verdicts = Vec::new();
		for ev in case["events"].as_array().unwrap() {
			let e = Event {
				tags: ev.as_array().unwrap().iter().map(|p| Tag::Path {
					path: abs(p["path"].as_str().unwrap()),
					file_type: match p["ft"].as_str() { Some("dir") => Some(FileType::Dir), Some("file") => Some(FileType::File), _ => None },
				}).collect(),
				metadata: Default::default(),
			};
			verdicts.push(f.check_event(&e, Priority::Normal).unwrap());
		}
		emit(&json!({"id": id, "root": root.to_string_lossy(), "origin": origin.to_string_lossy(), "verdicts": verdicts}));
		let _ = std::fs::remove_dir_all(&root);
	}
}
