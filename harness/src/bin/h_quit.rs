//! C08 harness: a real Watchexec instance whose action handler follows a script of job operations and
//! finally requests a quit; real child processes (simchild).  Reports when the quit was requested, when
//! the main task finished, and which processes started by the jobs are still alive afterwards.
use std::{
	collections::HashMap,
	sync::{Arc, Mutex},
	time::Duration,
};

use watchexec::{Config, Id, Watchexec};
use watchexec_events::{Event, Priority};
use watchexec_supervisor::{
	command::{Command, Program, SpawnOptions},
	job::Job,
};
use wxharness::*;

fn mono_ms() -> u64 {
	let mut ts = libc::timespec { tv_sec: 0, tv_nsec: 0 };
	unsafe { libc::clock_gettime(libc::CLOCK_MONOTONIC, &mut ts) };
	(ts.tv_sec as u64) * 1000 + (ts.tv_nsec as u64) / 1_000_000
}

/// live (non-zombie) process?
fn proc_alive(pid: i64) -> bool {
	match std::fs::read_to_string(format!("/proc/{pid}/stat")) {
		Ok(s) => match s.rfind(')') {
			Some(i) => !matches!(s[i + 1..].trim_start().chars().next(), Some('Z') | Some('X') | None),
			None => false,
		},
		Err(_) => false,
	}
}

struct St {
	ids: HashMap<u64, Id>,
	kept: Vec<Job>,
	step: usize,
	log: Vec<Value>,
}

fn main() {
	let args: Vec<String> = std::env::args().collect();
	std::fs::create_dir_all(&args[3]).unwrap();
	let base = std::fs::canonicalize(&args[3]).unwrap();
	for case in read_cases(&args[2]) {
		let rt = tokio::runtime::Builder::new_multi_thread().worker_threads(3).enable_all().build().unwrap();
		let v = rt.block_on(run(case, &base));
		emit(&v);
		rt.shutdown_timeout(Duration::from_millis(300));
	}
}

fn pids_in(log: &[Value]) -> Vec<i64> {
	let mut v = Vec::new();
	for l in log {
		if let Some(p) = l["pid"].as_i64() {
			if !v.contains(&p) {
				v.push(p);
			}
		}
	}
	v
}

async fn run(case: Value, base: &std::path::Path) -> Value {
	let id = case["id"].as_u64().unwrap();
	let dir = base.join(format!("q{id}"));
	let _ = std::fs::remove_dir_all(&dir);
	std::fs::create_dir_all(&dir).unwrap();
	let out = dir.join("child.log");
	let helper = std::env::current_exe().unwrap().with_file_name("simchild");
	let steps: Arc<Vec<Value>> = Arc::new(case["steps"].as_array().unwrap().clone());
	let st = Arc::new(Mutex::new(St { ids: HashMap::new(), kept: vec![], step: 0, log: vec![] }));
	let config = Config::default();
	config.throttle(Duration::ZERO);
	let (st2, steps2, out2) = (st.clone(), steps.clone(), out.clone());
	config.on_action(move |mut action| {
		let mut s = st2.lock().unwrap();
		let k = s.step;
		s.step += 1;
		let Some(step) = steps2.get(k) else { return action };
		let mut fresh: HashMap<u64, Job> = HashMap::new();
		for act in step["acts"].as_array().map(|a| a.as_slice()).unwrap_or(&[]) {
			let j = act["job"].as_u64().unwrap_or(0);
			let op = act["op"].as_str().unwrap();
			if op == "create" {
				let cmd = Arc::new(Command {
					program: Program::Exec { prog: helper.clone(), args: vec![] },
					options: SpawnOptions {
						grouped: act["grouped"].as_bool().unwrap_or(false),
						session: act["session"].as_bool().unwrap_or(false),
						..Default::default()
					},
				});
				// (optionally from another OS thread: ids must be unique whichever thread creates the job)
				let (jid, job) = if act["thread"].as_bool().unwrap_or(false) {
					let h = tokio::runtime::Handle::current();
					std::thread::scope(|sc| sc.spawn(|| { let _g = h.enter(); action.create_job(cmd) }).join().unwrap())
				} else {
					action.create_job(cmd)
				};
				let (script, out3) = (act["script"].as_str().unwrap_or("").to_owned(), out2.clone());
				job.set_spawn_hook(move |c, _| {
					c.command_mut().env("WXH_MODE", "run").env("WXH_SCRIPT", &script).env("WXH_OUT", &out3);
				});
				s.ids.insert(j, jid);
				fresh.insert(j, job);
				continue;
			}
			let Some(job) = fresh.get(&j).cloned().or_else(|| s.ids.get(&j).and_then(|i| action.get_job(*i))) else {
				s.log.push(json!({"k": "nojob", "job": j, "step": k}));
				continue;
			};
			let sig = || evgen::mk_signal(&act["sig"]);
			let grace = Duration::from_millis(act["grace_ms"].as_u64().unwrap_or(0));
			match op {
				"start" => drop(job.start()),
				"stop" => drop(job.stop()),
				"stop_with_signal" => drop(job.stop_with_signal(sig(), grace)),
				"restart" => drop(job.restart()),
				"restart_with_signal" => drop(job.restart_with_signal(sig(), grace)),
				"try_restart_with_signal" => drop(job.try_restart_with_signal(sig(), grace)),
				"signal" => drop(job.signal(sig())),
				"delete" => drop(job.delete()),
				"delete_now" => drop(job.delete_now()),
				"to_wait" => drop(job.to_wait()),
				"clone_keep" => s.kept.push(job.clone()),
				o => panic!("op {o}"),
			}
		}
		if let Some(q) = step.get("quit").filter(|q| !q.is_null()) {
			match q["manner"].as_str().unwrap() {
				"abort" => action.quit(),
				// a handler that first asks for a graceful quit and then, in the same action, escalates to an abort: the last request counts
				"graceful-then-abort" => {
					action.quit_gracefully(evgen::mk_signal(&q["sig"]), Duration::from_millis(q["grace_ms"].as_u64().unwrap()));
					action.quit();
				}
				_ => action.quit_gracefully(evgen::mk_signal(&q["sig"]), Duration::from_millis(q["grace_ms"].as_u64().unwrap())),
			}
			s.log.push(json!({"k": "quit", "t": mono_ms(), "step": k}));
		}
		action
	});
	let wx = Watchexec::with_config(config).unwrap();
	let t0 = mono_ms();
	let main = wx.main();
	for step in steps.iter() {
		let at = step["at_ms"].as_u64().unwrap();
		let now = mono_ms() - t0;
		if at > now {
			tokio::time::sleep(Duration::from_millis(at - now)).await;
		}
		let _ = wx.send_event(Event::default(), Priority::Urgent).await;
	}
	let wait = case["wait_ms"].as_u64().unwrap_or(3000);
	let res = tokio::time::timeout(Duration::from_millis(wait), main).await;
	let t_main = mono_ms();
	let main_res = match res {
		Ok(r) => format!("{:?}", r.map(|x| x.map_err(|e| e.to_string()))),
		Err(_) => "timeout".into(),
	};
	let read_log = || -> Vec<Value> { std::fs::read_to_string(&out).unwrap_or_default().lines().filter_map(|l| serde_json::from_str(l).ok()).collect() };
	let alive_at_return: Vec<i64> = pids_in(&read_log()).into_iter().filter(|p| proc_alive(*p)).collect();
	tokio::time::sleep(Duration::from_millis(case["settle_ms"].as_u64().unwrap_or(150))).await;
	let log = read_log();
	let alive: Vec<i64> = pids_in(&log).into_iter().filter(|p| proc_alive(*p)).collect();
	for pid in &alive {
		unsafe { libc::kill(*pid as i32, libc::SIGKILL) };
	}
	let s = st.lock().unwrap();
	json!({"id": id, "t0": t0, "hlog": s.log, "child_log": log, "main": main_res, "t_main": t_main,
		"alive_at_return": alive_at_return, "alive_after": alive, "kept": s.kept.len()})
}
