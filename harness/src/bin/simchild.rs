//! Helper child process for the harness.  Behaviour is scripted through environment variables so
//! that its argv can be arbitrary:
//!   WXH_OUT   file to append one JSON line per event to
//!   WXH_MODE  report (default): log start (argv, pid, pgid, sid, cwd, WXH_MARK) and exit 0
//!             run: log start, then follow WXH_SCRIPT
//!   WXH_SCRIPT  comma list: exit_after=<ms>, on_term=<ignore|exit:<ms>>, on_int=..., fork_ignorer=<1>
use std::io::Write;
use std::os::unix::ffi::OsStringExt;

fn log(line: &str) {
	if let Ok(p) = std::env::var("WXH_OUT") {
		if let Ok(mut f) = std::fs::OpenOptions::new().create(true).append(true).open(p) {
			let _ = f.write_all(format!("{line}\n").as_bytes());
		}
	}
}

fn hex(b: &[u8]) -> String {
	b.iter().map(|x| format!("{x:02x}")).collect()
}

fn now_ms() -> u128 {
	let mut ts = libc::timespec { tv_sec: 0, tv_nsec: 0 };
	unsafe { libc::clock_gettime(libc::CLOCK_MONOTONIC, &mut ts) };
	(ts.tv_sec as u128) * 1000 + (ts.tv_nsec as u128) / 1_000_000
}

// one pending counter per signal number: two signals arriving together must both be seen
static GOT: [std::sync::atomic::AtomicU32; 65] = [const { std::sync::atomic::AtomicU32::new(0) }; 65];
extern "C" fn on_sig(s: libc::c_int) {
	if (0..65).contains(&s) {
		GOT[s as usize].fetch_add(1, std::sync::atomic::Ordering::SeqCst);
	}
}

fn proc_alive(pid: i64) -> bool {
	match std::fs::read_to_string(format!("/proc/{pid}/stat")) {
		Ok(s) => match s.rfind(')') {
			Some(i) => !matches!(s[i + 1..].trim_start().chars().next(), Some('Z') | Some('X') | None),
			None => false,
		},
		Err(_) => false,
	}
}

fn main() {
	let argv: Vec<String> = std::env::args_os().map(|a| hex(&a.into_vec())).collect();
	let pid = std::process::id();
	let (pgid, sid) = unsafe { (libc::getpgid(0), libc::getsid(0)) };
	let cwd = std::env::current_dir().map(|p| p.to_string_lossy().into_owned()).unwrap_or_default();
	let mark = std::env::var("WXH_MARK").unwrap_or_default();
	// earlier children of the same scenario (same log file) that are still alive when this one starts
	let mut alive_prev: Vec<i64> = Vec::new();
	if let Ok(p) = std::env::var("WXH_OUT") {
		for l in std::fs::read_to_string(p).unwrap_or_default().lines() {
			if let Some(i) = l.find("\"ev\":\"start\"") {
				if let Some(j) = l[i..].find("\"pid\":") {
					let num: String = l[i + j + 6..].chars().take_while(|c| c.is_ascii_digit()).collect();
					if let Ok(n) = num.parse::<i64>() {
						if n != pid as i64 && proc_alive(n) && !alive_prev.contains(&n) {
							alive_prev.push(n);
						}
					}
				}
			}
		}
	}
	log(&format!(
		"{{\"ev\":\"start\",\"t\":{},\"pid\":{pid},\"pgid\":{pgid},\"sid\":{sid},\"alive_prev\":{:?},\"cwd\":{:?},\"mark\":{:?},\"argv\":[{}]}}",
		now_ms(),
		alive_prev,
		cwd,
		mark,
		argv.iter().map(|a| format!("\"{a}\"")).collect::<Vec<_>>().join(",")
	));
	if std::env::var("WXH_MODE").as_deref() != Ok("run") {
		return;
	}
	let script = std::env::var("WXH_SCRIPT").unwrap_or_default();
	let mut exit_after: Option<u128> = None;
	let mut on: std::collections::HashMap<i32, String> = Default::default();
	let mut fork_ignorer = false;
	for item in script.split(',') {
		let (k, v) = item.split_once('=').unwrap_or((item, ""));
		match k {
			"exit_after" => exit_after = v.parse().ok(),
			"on_term" => { on.insert(libc::SIGTERM, v.into()); }
			"on_int" => { on.insert(libc::SIGINT, v.into()); }
			"on_hup" => { on.insert(libc::SIGHUP, v.into()); }
			"on_usr1" => { on.insert(libc::SIGUSR1, v.into()); }
			"on_quit" => { on.insert(libc::SIGQUIT, v.into()); }
			"fork_ignorer" => fork_ignorer = true,
			_ => {}
		}
	}
	for s in on.keys() {
		unsafe { libc::signal(*s, on_sig as usize) };
	}
	if fork_ignorer {
		// a grand-child in the same process group that ignores every catchable signal for 3 s
		let r = unsafe { libc::fork() };
		if r == 0 {
			for s in [libc::SIGTERM, libc::SIGINT, libc::SIGHUP, libc::SIGQUIT, libc::SIGUSR1] {
				unsafe { libc::signal(s, libc::SIG_IGN) };
			}
			log(&format!("{{\"ev\":\"grandchild\",\"t\":{},\"pid\":{},\"pgid\":{}}}", now_ms(), std::process::id(), unsafe { libc::getpgid(0) }));
			std::thread::sleep(std::time::Duration::from_millis(3000));
			return;
		}
	}
	let start = now_ms();
	let mut deadline = exit_after.map(|d| start + d);
	loop {
		let mut pending: Vec<i32> = Vec::new();
		for (n, c) in GOT.iter().enumerate() {
			for _ in 0..c.swap(0, std::sync::atomic::Ordering::SeqCst) {
				pending.push(n as i32);
			}
		}
		for s in pending {
			log(&format!("{{\"ev\":\"signal\",\"t\":{},\"pid\":{pid},\"sig\":{s}}}", now_ms()));
			match on.get(&s).map(String::as_str) {
				Some("ignore") | None => {}
				Some(x) if x.starts_with("exit:") => {
					let d: u128 = x[5..].parse().unwrap_or(0);
					let nd = now_ms() + d;
					deadline = Some(deadline.map_or(nd, |o| o.min(nd)));
				}
				_ => {}
			}
		}
		if let Some(d) = deadline {
			if now_ms() >= d {
				log(&format!("{{\"ev\":\"end\",\"t\":{},\"pid\":{pid}}}", now_ms()));
				return;
			}
		}
		std::thread::sleep(std::time::Duration::from_millis(1));
	}
}
