//! Correspondence harness for the ignore-file properties (C03, C14).
use std::path::{Path, PathBuf};

use ignore::Match;
use ignore_files::{IgnoreFile, IgnoreFilter};
use watchexec::filter::Filterer;
use watchexec_events::{Event, FileType, Priority, Tag};
use watchexec_filterer_ignore::IgnoreFilterer;
use wxharness::*;

fn main() {
	let args: Vec<String> = std::env::args().collect();
	let rt = tokio::runtime::Builder::new_multi_thread().worker_threads(4).enable_all().build().unwrap();
	match args[1].as_str() {
		"filter" => rt.block_on(filter(&args[2], &args[3])),
		"discover" => rt.block_on(discover(&args[2], &args[3])),
		other => panic!("unknown subcommand {other}"),
	}
}

fn show(m: Match<&ignore::gitignore::Glob>) -> String {
	match m {
		Match::None => "none".into(),
		Match::Ignore(g) => format!("ignore:{}", g.original()),
		Match::Whitelist(g) => format!("white:{}", g.original()),
	}
}

async fn build(mode: &str, origin: &Path, files: &[IgnoreFile], globs: &[(Vec<String>, Option<PathBuf>)]) -> Result<IgnoreFilter, String> {
	let mut f = match mode {
		"new" => IgnoreFilter::new(origin, files).await.map_err(|e| e.to_string())?,
		"add" => {
			let mut f = IgnoreFilter::new(origin, &[]).await.map_err(|e| e.to_string())?;
			for file in files {
				f.add_file(file).await.map_err(|e| e.to_string())?;
			}
			f
		}
		"empty_add" => {
			let mut f = IgnoreFilter::empty(origin);
			for file in files {
				f.add_file(file).await.map_err(|e| e.to_string())?;
			}
			f
		}
		o => panic!("mode {o}"),
	};
	for (lines, applies_in) in globs {
		let refs: Vec<&str> = lines.iter().map(String::as_str).collect();
		f.add_globs(&refs, applies_in.as_ref()).map_err(|e| e.to_string())?;
	}
	Ok(f)
}

async fn filter(cases: &str, base: &str) {
	let base = std::fs::canonicalize({
		std::fs::create_dir_all(base).unwrap();
		base
	})
	.unwrap();
	for case in read_cases(cases) {
		let id = case["id"].as_u64().unwrap();
		let root = base.join(format!("c{id}"));
		let _ = std::fs::remove_dir_all(&root);
		std::fs::create_dir_all(&root).unwrap();
		let abs = |rel: &str| -> PathBuf {
			if rel.is_empty() { root.clone() } else if let Some(r) = rel.strip_prefix("//") { PathBuf::from(format!("/{r}")) } else { root.join(rel) }
		};
		let origin = abs(case["origin"].as_str().unwrap());
		std::fs::create_dir_all(&origin).unwrap();
		let mut files = Vec::new();
		for (i, f) in case["files"].as_array().unwrap().iter().enumerate() {
			// file names whose alphabetical order differs from the listed order (the listed order is the precedence)
			const NAMES: [&str; 10] = ["m", "c", "x", "a", "k", "e", "z", "b", "y", "d"];
			let p = root.join(format!("{}{}_ign", NAMES[i % 10], i / 10));
			std::fs::write(&p, strs(&f["lines"]).join("\n") + "\n").unwrap();
			files.push(IgnoreFile {
				path: p,
				applies_in: f["applies_in"].as_str().map(|d| abs(d)),
				applies_to: None,
			});
		}
		let globs: Vec<(Vec<String>, Option<PathBuf>)> = case["globs"]
			.as_array()
			.map(|a| a.iter().map(|g| (strs(&g["lines"]), g["applies_in"].as_str().map(|d| abs(d)))).collect())
			.unwrap_or_default();
		let mode = case["mode"].as_str().unwrap();
		let reps = case["reps"].as_u64().unwrap_or(1);
		let mut variants: Vec<Value> = Vec::new();
		for _ in 0..reps {
			let f = match build(mode, &origin, &files, &globs).await {
				Ok(f) => f,
				Err(e) => {
					variants.push(json!({"error": e}));
					continue;
				}
			};
			let filterer = IgnoreFilterer(f.clone());
			let mut probes = Vec::new();
			for p in case["probes"].as_array().unwrap() {
				let path = abs(p["path"].as_str().unwrap());
				let is_dir = p["dir"].as_bool().unwrap();
				let m = show(f.match_path(&path, is_dir));
				let cd = f.check_dir(&path);
				let ev = Event {
					tags: vec![Tag::Path { path: path.clone(), file_type: Some(if is_dir { FileType::Dir } else { FileType::File }) }],
					metadata: Default::default(),
				};
				let ce = filterer.check_event(&ev, Priority::Normal).unwrap();
				probes.push(format!("{m}|{}|{}", if cd { "T" } else { "F" }, if ce { "T" } else { "F" }));
			}
			// one multi-path event made of all probes
			let ev = Event {
				tags: case["probes"].as_array().unwrap().iter().map(|p| Tag::Path {
					path: abs(p["path"].as_str().unwrap()),
					file_type: Some(if p["dir"].as_bool().unwrap() { FileType::Dir } else { FileType::File }),
				}).collect(),
				metadata: Default::default(),
			};
			let multi = filterer.check_event(&ev, Priority::Normal).unwrap();
			let v = json!({"probes": probes, "multi": multi});
			if !variants.contains(&v) {
				variants.push(v);
			}
		}
		emit(&json!({"id": id, "root": root.to_string_lossy(), "origin": origin.to_string_lossy(), "variants": variants}));
		let _ = std::fs::remove_dir_all(&root);
	}
}

// ---------------------------------------------------------------- C14

async fn discover(cases: &str, base: &str) {
	use ignore_files::{from_origin, IgnoreFilesFromOriginArgs};
	std::fs::create_dir_all(base).unwrap();
	let base = std::fs::canonicalize(base).unwrap();
	for case in read_cases(cases) {
		let id = case["id"].as_u64().unwrap();
		let root = base.join(format!("d{id}"));
		let _ = std::fs::remove_dir_all(&root);
		std::fs::create_dir_all(&root).unwrap();
		for e in case["entries"].as_array().unwrap() {
			let p = root.join(e["path"].as_str().unwrap());
			match e["kind"].as_str().unwrap() {
				"dir" => std::fs::create_dir_all(&p).unwrap(),
				"file" => {
					std::fs::create_dir_all(p.parent().unwrap()).unwrap();
					let body = e["lines"].as_array().map(|_| strs(&e["lines"]).join("\n") + "\n").unwrap_or_else(|| "x\n".into());
					std::fs::write(&p, body.replace("@ROOT@", &root.to_string_lossy())).unwrap();
				}
				"empty" => {
					std::fs::create_dir_all(p.parent().unwrap()).unwrap();
					std::fs::write(&p, b"").unwrap();
				}
				_ => {
					std::fs::create_dir_all(p.parent().unwrap()).unwrap();
					let _ = std::os::unix::fs::symlink(e["target"].as_str().unwrap_or("/nonexistent"), &p);
				}
			}
		}
		let origin = root.join(case["origin"].as_str().unwrap());
		let watches: Vec<PathBuf> = strs(&case["watches"]).iter().map(|w| root.join(w)).collect();
		let explicit: Vec<PathBuf> = strs(&case["explicit"]).iter().map(|w| root.join(w)).collect();
		std::env::set_var("HOME", &root);
		let args = IgnoreFilesFromOriginArgs::new(&origin, watches, explicit).unwrap();
		let (files, errors) = from_origin(args).await;
		let rel = |p: &Path| p.strip_prefix(&root).map(|r| r.to_string_lossy().into_owned()).unwrap_or_else(|_| p.to_string_lossy().into_owned());
		let mut out: Vec<String> = files
			.iter()
			.map(|f| format!("{}|{}|{}", rel(&f.path), f.applies_in.as_deref().map_or("-".into(), rel), f.applies_to.map_or("-".into(), |t| format!("{t:?}"))))
			.collect();
		let ordered = out.clone();
		out.sort();
		out.dedup();
		emit(&json!({"id": id, "root": root.to_string_lossy(), "files": out, "ordered": ordered, "errors": errors.iter().map(|e| e.to_string()).collect::<Vec<_>>()}));
		let _ = std::fs::remove_dir_all(&root);
	}
}
