//! Real-time harness for the action worker (C01 C02) and for the error hook / main task (C15, C08).
//! Events carry their id in metadata["id"]; a scripted filterer stamps the instant each filtered event is
//! received; the action handler stamps the instant each batch is entered and left.
use std::{
	collections::HashMap,
	sync::{Arc, Mutex},
	time::{Duration, Instant},
};

use watchexec::{
	action::ActionHandler,
	error::{CriticalError, RuntimeError},
	filter::Filterer,
	Config, Watchexec,
};
use watchexec_events::{Event, Priority, Source, Tag};
use wxharness::*;

#[derive(Debug)]
struct Script {
	t0: Instant,
	verdicts: HashMap<u64, String>,
	log: Mutex<Vec<Value>>,
}

fn ms(t0: Instant) -> f64 {
	t0.elapsed().as_secs_f64() * 1000.0
}

fn ev_id(e: &Event) -> u64 {
	e.metadata.get("id").and_then(|v| v.first()).and_then(|s| s.parse().ok()).unwrap_or(0)
}

#[derive(Debug)]
struct ScriptFilter(Arc<Script>);
impl Filterer for ScriptFilter {
	fn check_event(&self, event: &Event, _p: Priority) -> Result<bool, RuntimeError> {
		let id = ev_id(event);
		let t = ms(self.0.t0);
		let v = self.0.verdicts.get(&id).cloned().unwrap_or_else(|| "pass".into());
		self.0.log.lock().unwrap().push(json!({"k": "filter", "id": id, "t": t, "v": v}));
		match v.as_str() {
			"pass" => Ok(true),
			"reject" => Ok(false),
			_ => Err(RuntimeError::InternalSupervisor(format!("id{id}"))),
		}
	}
}

fn mk_event(e: &Value) -> (Event, Priority) {
	let mut ev = Event::default();
	if !e["empty"].as_bool().unwrap_or(false) {
		ev.tags.push(Tag::Source(Source::Internal));
	}
	ev.metadata.insert("id".into(), vec![e["id"].as_u64().unwrap().to_string()]);
	let p = match e["prio"].as_str().unwrap_or("normal") {
		"urgent" => Priority::Urgent,
		"high" => Priority::High,
		"low" => Priority::Low,
		_ => Priority::Normal,
	};
	(ev, p)
}

fn main() {
	let args: Vec<String> = std::env::args().collect();
	for case in read_cases(&args[2]) {
		// a runtime per case: code under test that blocks a worker thread for good (a dead-locked handler) must not starve
		// the following cases, and must not keep the process from exiting
		// (either flavour: an application may run Watchexec on a current-thread runtime)
		let rt = if case["rt"] == "current" {
			tokio::runtime::Builder::new_current_thread().enable_all().build().unwrap()
		} else {
			tokio::runtime::Builder::new_multi_thread().worker_threads(4).enable_all().build().unwrap()
		};
		let v = match args[1].as_str() {
			"worker" => rt.block_on(run_worker(case.clone())),
			"wx" => rt.block_on(run_wx(case.clone())),
			"fsreal" => rt.block_on(run_fsreal(case.clone(), &args[3])),
			o => panic!("subcommand {o}"),
		};
		emit(&v);
		rt.shutdown_timeout(Duration::from_millis(100));
	}
	use std::io::Write;
	let _ = std::io::stdout().flush();
	std::process::exit(0);
}

fn handler_fn(sc: Arc<Script>, durations: Vec<u64>, quit_after: Option<usize>, counter: Arc<Mutex<usize>>) -> impl Fn(&ActionHandler) -> (u64, bool) {
	move |action: &ActionHandler| {
		let ids: Vec<u64> = action.events.iter().map(ev_id).collect();
		let mut n = counter.lock().unwrap();
		let k = *n;
		*n += 1;
		sc.log.lock().unwrap().push(json!({"k": "batch", "n": k, "t": ms(sc.t0), "ids": ids}));
		(durations.get(k).copied().unwrap_or(0), quit_after.map_or(false, |q| k + 1 >= q))
	}
}

async fn run_worker(case: Value) -> Value {
	let t0 = Instant::now();
	let verdicts = case["events"].as_array().unwrap().iter().map(|e| (e["id"].as_u64().unwrap(), e["verdict"].as_str().unwrap_or("pass").to_owned())).collect();
	let sc = Arc::new(Script { t0, verdicts, log: Mutex::new(vec![]) });
	let config = Arc::new(Config::default());
	config.throttle(Duration::from_millis(case["throttle_ms"].as_u64().unwrap()));
	config.filterer(ScriptFilter(sc.clone()));
	let durations: Vec<u64> = case["handler"]["durations_ms"].as_array().map(|a| a.iter().map(|x| x.as_u64().unwrap()).collect()).unwrap_or_default();
	let quit_after = case["handler"]["quit_after"].as_u64().map(|x| x as usize);
	let counter = Arc::new(Mutex::new(0usize));
	let hf = Arc::new(handler_fn(sc.clone(), durations, quit_after, counter));
	let sc2 = sc.clone();
	if case["handler"]["async"].as_bool().unwrap_or(false) {
		let hf = hf.clone();
		config.on_action_async(move |mut action| {
			let (d, q) = hf(&action);
			let sc3 = sc2.clone();
			Box::new(async move {
				tokio::time::sleep(Duration::from_millis(d)).await;
				sc3.log.lock().unwrap().push(json!({"k": "batch_end", "t": ms(sc3.t0)}));
				if q {
					action.quit();
				}
				action
			})
		});
	} else {
		let hf = hf.clone();
		config.on_action(move |mut action| {
			let (d, q) = hf(&action);
			std::thread::sleep(Duration::from_millis(d));
			sc2.log.lock().unwrap().push(json!({"k": "batch_end", "t": ms(sc2.t0)}));
			if q {
				action.quit();
			}
			action
		});
	}
	let cap = case["cap"].as_u64().unwrap_or(4096);
	let (ev_s, ev_r) = async_priority_channel::bounded::<Event, Priority>(cap);
	let (er_s, mut er_r) = tokio::sync::mpsc::channel::<RuntimeError>(case["errors_cap"].as_u64().unwrap_or(64) as usize);
	let sc4 = sc.clone();
	let err_task = tokio::spawn(async move {
		while let Some(e) = er_r.recv().await {
			sc4.log.lock().unwrap().push(json!({"k": "error", "t": ms(sc4.t0), "e": e.to_string()}));
		}
	});
	let worker = tokio::spawn(watchexec::action::worker(config.clone(), er_s, ev_r));
	// producers
	let mut by_prod: HashMap<u64, Vec<Value>> = HashMap::new();
	for e in case["events"].as_array().unwrap() {
		by_prod.entry(e["producer"].as_u64().unwrap_or(0)).or_default().push(e.clone());
	}
	let mut prods = Vec::new();
	for (_, evs) in by_prod {
		let (tx, sc5) = (ev_s.clone(), sc.clone());
		prods.push(tokio::spawn(async move {
			for e in evs {
				let at = Duration::from_millis(e["at_ms"].as_u64().unwrap());
				let el = sc5.t0.elapsed();
				if at > el {
					tokio::time::sleep(at - el).await;
				}
				let (ev, p) = mk_event(&e);
				let id = e["id"].as_u64().unwrap();
				let r = if e["try"].as_bool().unwrap_or(false) { tx.try_send(ev, p).is_ok() } else { tx.send(ev, p).await.is_ok() };
				sc5.log.lock().unwrap().push(json!({"k": "sent", "id": id, "t": ms(sc5.t0), "ok": r}));
			}
		}));
	}
	for ch in case["throttle_changes"].as_array().cloned().unwrap_or_default() {
		let (cfg, sc6) = (config.clone(), sc.clone());
		prods.push(tokio::spawn(async move {
			let at = Duration::from_millis(ch["at_ms"].as_u64().unwrap());
			let el = sc6.t0.elapsed();
			if at > el {
				tokio::time::sleep(at - el).await;
			}
			cfg.throttle(Duration::from_millis(ch["ms"].as_u64().unwrap()));
			sc6.log.lock().unwrap().push(json!({"k": "throttle", "t": ms(sc6.t0), "ms": ch["ms"]}));
		}));
	}
	for p in prods {
		let _ = p.await;
	}
	tokio::time::sleep(Duration::from_millis(case["tail_ms"].as_u64().unwrap_or(300))).await;
	let finished = worker.is_finished();
	ev_s.close();
	let res = tokio::time::timeout(Duration::from_millis(2000), worker).await;
	err_task.abort();
	let log = sc.log.lock().unwrap().clone();
	json!({"id": case["id"], "log": log, "worker_finished_before_close": finished, "worker_result": format!("{:?}", res.map(|r| r.map(|x| x.map_err(|e| e.to_string()))))})
}

async fn run_wx(case: Value) -> Value {
	let t0 = Instant::now();
	let verdicts = case["events"].as_array().unwrap().iter().map(|e| (e["id"].as_u64().unwrap(), e["verdict"].as_str().unwrap_or("pass").to_owned())).collect();
	let sc = Arc::new(Script { t0, verdicts, log: Mutex::new(vec![]) });
	let mut config = Config::default();
	config.error_channel_size = case["errors_cap"].as_u64().unwrap_or(64) as usize;
	config.event_channel_size = case["cap"].as_u64().unwrap_or(4096) as usize;
	config.throttle(Duration::from_millis(case["throttle_ms"].as_u64().unwrap()));
	config.filterer(ScriptFilter(sc.clone()));
	let counter = Arc::new(Mutex::new(0usize));
	let quit_after = case["handler"]["quit_after"].as_u64().map(|x| x as usize);
	let hf = Arc::new(handler_fn(sc.clone(), vec![], quit_after, counter));
	let sc2 = sc.clone();
	config.on_action(move |mut action| {
		let (_, q) = hf(&action);
		sc2.log.lock().unwrap().push(json!({"k": "batch_end", "t": ms(sc2.t0)}));
		if q {
			action.quit();
		}
		action
	});
	// error handler behaviours keyed by error id ("id<n>" in the message)
	let behs: HashMap<u64, String> = case["error_behaviours"].as_object().map(|m| m.iter().map(|(k, v)| (k.parse().unwrap(), v.as_str().unwrap().to_owned())).collect()).unwrap_or_default();
	let (sc3, kept) = (sc.clone(), Arc::new(Mutex::new(Vec::new())));
	let slow = case["error_slow_ms"].as_u64().unwrap_or(0);
	// the handler can replace itself (Config::on_error from inside its own invocation): the slot is filled once the
	// instance exists; the replacement behaves like the original and counts its generation
	let cfg_slot: Arc<Mutex<Option<Arc<Config>>>> = Arc::new(Mutex::new(None));
	fn make_handler(sc3: Arc<Script>, kept: Arc<Mutex<Vec<watchexec::ErrorHook>>>, behs: Arc<HashMap<u64, String>>, slow: u64,
		cfg_slot: Arc<Mutex<Option<Arc<Config>>>>, generation: u64) -> impl Fn(watchexec::ErrorHook) + Send + Sync + 'static {
		move |hook: watchexec::ErrorHook| {
			let msg = hook.error.to_string();
			let id: u64 = msg.rsplit("id").next().and_then(|s| s.parse().ok()).unwrap_or(0);
			sc3.log.lock().unwrap().push(json!({"k": "onerror", "t": ms(sc3.t0), "id": id, "msg": msg, "gen": generation}));
			if slow > 0 {
				std::thread::sleep(Duration::from_millis(slow));
			}
			match behs.get(&id).map(String::as_str) {
				Some("elevate") => hook.elevate(),
				Some("critical") => hook.critical(CriticalError::External(format!("crit{id}").into())),
				Some("keepref") => kept.lock().unwrap().push(hook),
				Some("replace") => {
					let cfg = cfg_slot.lock().unwrap().clone();
					if let Some(cfg) = cfg {
						cfg.on_error(make_handler(sc3.clone(), kept.clone(), behs.clone(), slow, cfg_slot.clone(), generation + 1));
						sc3.log.lock().unwrap().push(json!({"k": "replaced", "t": ms(sc3.t0), "id": id}));
					}
				}
				_ => {}
			}
		}
	}
	config.on_error(make_handler(sc3, kept, Arc::new(behs), slow, cfg_slot.clone(), 0));
	let wx = Watchexec::with_config(config).unwrap();
	*cfg_slot.lock().unwrap() = Some(wx.config.clone());
	let main = wx.main();
	tokio::time::sleep(Duration::from_millis(30)).await;
	for e in case["events"].as_array().unwrap() {
		let at = Duration::from_millis(e["at_ms"].as_u64().unwrap());
		let el = t0.elapsed();
		if at > el {
			tokio::time::sleep(at - el).await;
		}
		let (ev, p) = mk_event(e);
		let r = wx.send_event(ev, p).await.is_ok();
		sc.log.lock().unwrap().push(json!({"k": "sent", "id": e["id"], "t": ms(t0), "ok": r}));
	}
	tokio::time::sleep(Duration::from_millis(case["tail_ms"].as_u64().unwrap_or(300))).await;
	let finished = main.is_finished();
	let res = if finished { format!("{:?}", main.await.map(|r| r.map_err(|e| e.to_string()))) } else { main.abort(); "running".into() };
	let log = sc.log.lock().unwrap().clone();
	json!({"id": case["id"], "log": log, "main_finished": finished, "main_result": res})
}


// ---------------------------------------------------------------- C01: real filesystem operations under a real watcher

#[derive(Debug)]
struct TapFilter(Arc<Mutex<Vec<Value>>>, Instant);
impl Filterer for TapFilter {
	fn check_event(&self, event: &Event, _p: Priority) -> Result<bool, RuntimeError> {
		let key = format!("{:?}", event.tags);
		let pass = !event.paths().any(|(p, _)| p.to_string_lossy().contains("rejected"));
		self.0.lock().unwrap().push(json!({"k": "filter", "t": ms(self.1), "key": key, "pass": pass}));
		Ok(pass)
	}
}

async fn run_fsreal(case: Value, base: &str) -> Value {
	let t0 = Instant::now();
	let id = case["id"].as_u64().unwrap();
	let dir = std::path::Path::new(base).join(format!("f{id}"));
	let _ = std::fs::remove_dir_all(&dir);
	std::fs::create_dir_all(&dir).unwrap();
	let dir = std::fs::canonicalize(&dir).unwrap();
	let log: Arc<Mutex<Vec<Value>>> = Arc::new(Mutex::new(vec![]));
	let mut config = Config::default();
	if let Some(n) = case["event_channel_size"].as_u64() {
		config.event_channel_size = n as usize;
	}
	config.throttle(Duration::from_millis(case["throttle_ms"].as_u64().unwrap_or(50)));
	config.pathset([dir.clone()]);
	config.file_watcher(if case["watcher"] == "poll" { watchexec::sources::fs::Watcher::Poll(Duration::from_millis(40)) } else { watchexec::sources::fs::Watcher::Native });
	config.filterer(TapFilter(log.clone(), t0));
	let log2 = log.clone();
	let slow = case["handler_slow_ms"].as_u64().unwrap_or(0);
	config.on_action(move |action| {
		let keys: Vec<String> = action.events.iter().map(|e| format!("{:?}", e.tags)).collect();
		log2.lock().unwrap().push(json!({"k": "batch", "t": ms(t0), "keys": keys}));
		if slow > 0 {
			std::thread::sleep(Duration::from_millis(slow));
		}
		action
	});
	let log3 = log.clone();
	config.on_error(move |hook: watchexec::ErrorHook| {
		log3.lock().unwrap().push(json!({"k": "error", "t": ms(t0), "e": hook.error.to_string()}));
	});
	let wx = Watchexec::with_config(config).unwrap();
	let main = wx.main();
	tokio::time::sleep(Duration::from_millis(250)).await;       // let the watcher register
	for op in case["ops"].as_array().unwrap() {
		let at = Duration::from_millis(op["at_ms"].as_u64().unwrap());
		let el = t0.elapsed();
		if at > el {
			tokio::time::sleep(at - el).await;
		}
		if op["op"] == "repath" {
			// the watched set changes at run time
			let set: Vec<watchexec::WatchedPath> = op["entries"].as_array().unwrap().iter().map(|e| {
				let p = dir.join(e["path"].as_str().unwrap());
				if e["recursive"].as_bool().unwrap_or(true) { watchexec::WatchedPath::recursive(p) } else { watchexec::WatchedPath::non_recursive(p) }
			}).collect();
			wx.config.pathset(set);
			log.lock().unwrap().push(json!({"k": "op", "t": ms(t0), "op": "repath", "ok": true}));
			continue;
		}
		let p = dir.join(op["path"].as_str().unwrap());
		let r = match op["op"].as_str().unwrap() {
			"mkdir" => std::fs::create_dir_all(&p).map(|_| ()),
			"create" | "write" => std::fs::write(&p, format!("{}", ms(t0))).map(|_| ()),
			"burst" => {
				// many files at once: more events than the event queue holds while the handler is busy
				for k in 0..op["n"].as_u64().unwrap_or(100) {
					let _ = std::fs::write(p.with_file_name(format!("burst{k}.txt")), b"x");
				}
				Ok(())
			}
			"remove" => std::fs::remove_file(&p),
			"rmdir" => std::fs::remove_dir_all(&p),
			"rename" => std::fs::rename(&p, dir.join(op["to"].as_str().unwrap())),
			o => panic!("fs op {o}"),
		};
		log.lock().unwrap().push(json!({"k": "op", "t": ms(t0), "op": op["op"], "path": p.to_string_lossy(), "ok": r.is_ok()}));
	}
	tokio::time::sleep(Duration::from_millis(case["tail_ms"].as_u64().unwrap_or(500))).await;
	let main_finished = main.is_finished();
	main.abort();
	let logv = log.lock().unwrap().clone();
	json!({"id": id, "log": logv, "dir": dir.to_string_lossy(), "main_finished": main_finished})
}
