//! Correspondence harness for the codec-style properties (C16 C17 C18 C19 C20).
use std::path::{Path, PathBuf};

use wxharness::*;

fn main() {
	let args: Vec<String> = std::env::args().collect();
	let rt = tokio::runtime::Builder::new_current_thread().enable_all().build().unwrap();
	match args[1].as_str() {
		"origins" => rt.block_on(origins(&args[2], &args[3])),
		"origins-class" => origins_class(),
		other => panic!("unknown subcommand {other}"),
	}
}

// ---------------------------------------------------------------- C20

fn listing(dir: &Path) -> Value {
	let mut v = Vec::new();
	if let Ok(rd) = std::fs::read_dir(dir) {
		for e in rd.flatten() {
			let t = match e.file_type() {
				Ok(t) if t.is_file() => 0,
				Ok(t) if t.is_dir() => 1,
				_ => 2,
			};
			v.push(json!([e.file_name().to_string_lossy(), t]));
		}
	}
	Value::Array(v)
}

fn comps(p: &Path) -> Vec<String> {
	p.components()
		.filter_map(|c| match c {
			std::path::Component::Normal(s) => Some(s.to_string_lossy().into_owned()),
			_ => None,
		})
		.collect()
}

async fn origins(cases: &str, base: &str) {
	use project_origins::{origins, types};
	let base = PathBuf::from(base);
	std::fs::create_dir_all(&base).unwrap();
	for case in read_cases(cases) {
		let id = case["id"].as_u64().unwrap();
		let root = base.join(format!("c{id}"));
		let _ = std::fs::remove_dir_all(&root);
		std::fs::create_dir_all(&root).unwrap();
		let levels = case["levels"].as_array().unwrap();
		let mut dirs = vec![root.clone()];
		for i in 1..levels.len() {
			let d = dirs[i - 1].join(format!("l{i}"));
			std::fs::create_dir_all(&d).unwrap();
			dirs.push(d);
		}
		for (i, lvl) in levels.iter().enumerate() {
			for ent in lvl.as_array().unwrap() {
				let name = ent[0].as_str().unwrap();
				let p = dirs[i].join(name);
				match ent[1].as_u64().unwrap() {
					0 => std::fs::write(&p, b"x").unwrap(),
					1 => std::fs::create_dir_all(&p).unwrap(),
					_ => std::os::unix::fs::symlink("/nonexistent-target", &p).unwrap(),
				}
			}
		}
		let start = &dirs[case["start"].as_u64().unwrap() as usize];
		let found = origins(start).await;
		let mut found: Vec<Vec<String>> = found.iter().map(|p| comps(p)).collect();
		found.sort();
		// the whole chain as the file system presents it (independent std::fs listing)
		let mut chain = Vec::new();
		let mut cur: Option<&Path> = Some(start);
		while let Some(c) = cur {
			chain.push(json!({"comps": comps(c), "listing": listing(c)}));
			cur = c.parent();
		}
		let mut tys = Vec::new();
		for d in &dirs {
			let mut t: Vec<String> = types(d).await.iter().map(|t| format!("{t:?}")).collect();
			t.sort();
			tys.push(json!({"comps": comps(d), "listing": listing(d), "types": t}));
		}
		emit(&json!({"id": id, "start": comps(start), "origins": found, "chain": chain, "dirs": tys}));
		let _ = std::fs::remove_dir_all(&root);
	}
}

fn origins_class() {
	use project_origins::ProjectType::*;
	let all = [
		Bazaar, Darcs, Fossil, Git, Mercurial, Pijul, Subversion, Bundler, C, Cargo, Docker, Elixir, Go,
		Gradle, JavaScript, Leiningen, Maven, Perl, PHP, Pip, V, Zig,
	];
	let v: Vec<Value> = all
		.iter()
		.map(|t| json!([format!("{t:?}"), t.is_vcs(), t.is_soft()]))
		.collect();
	emit(&json!({"class": v}));
}
