//! Correspondence harness for the codec-style properties (C16 C17 C18 C19 C20).
use std::path::{Path, PathBuf};

use wxharness::evgen::*;
use wxharness::*;

fn main() {
	let args: Vec<String> = std::env::args().collect();
	let rt = tokio::runtime::Builder::new_current_thread().enable_all().build().unwrap();
	match args[1].as_str() {
		"origins" => rt.block_on(origins(&args[2], &args[3])),
		"origins-chroot" => origins_chroot(&args[2], &args[3]),
		"origins-class" => origins_class(),
		"signals" => signals(&args[2]),
		"signals-table" => signals_table(),
		"exitstatus" => exitstatus(&args[2]),
		"paths-summary" => paths_summary(&args[2]),
		"spawn-argv" => rt.block_on(spawn_argv(&args[2], &args[3])),
		"events-kinds" => events_kinds(),
		"events-encode" => events_encode(&args[2]),
		"events-decode" => events_decode(&args[2]),
		other => panic!("unknown subcommand {other}"),
	}
}

// ---------------------------------------------------------------- C20

fn listing(dir: &Path) -> Value {
	let mut v = Vec::new();
	if let Ok(rd) = std::fs::read_dir(dir) {
		for e in rd.flatten() {
			let t = match e.file_type() {
				Ok(t) if t.is_file() => 0,
				Ok(t) if t.is_dir() => 1,
				_ => 2,
			};
			v.push(json!([e.file_name().to_string_lossy(), t]));
		}
	}
	Value::Array(v)
}

fn comps(p: &Path) -> Vec<String> {
	p.components()
		.filter_map(|c| match c {
			std::path::Component::Normal(s) => Some(s.to_string_lossy().into_owned()),
			_ => None,
		})
		.collect()
}

async fn origins(cases: &str, base: &str) {
	let base = PathBuf::from(base);
	std::fs::create_dir_all(&base).unwrap();
	for case in read_cases(cases) {
		let id = case["id"].as_u64().unwrap();
		let root = base.join(format!("c{id}"));
		let _ = std::fs::remove_dir_all(&root);
		std::fs::create_dir_all(&root).unwrap();
		if case["chroot"].as_bool().unwrap_or(false) {
			// the chain starts at the file system root: run the case in a child process that chroots into the scratch directory
			let f = base.join(format!("c{id}.json"));
			std::fs::write(&f, serde_json::to_string(&case).unwrap()).unwrap();
			let out = std::process::Command::new(std::env::current_exe().unwrap())
				.args(["origins-chroot", &f.to_string_lossy(), &root.to_string_lossy()]).output().unwrap();
			let line = String::from_utf8_lossy(&out.stdout);
			match serde_json::from_str::<Value>(line.trim()) {
				Ok(v) if out.status.success() => emit(&v),
				_ => emit(&json!({"id": id, "skipped": format!("chroot unavailable ({})", out.status)})),
			}
			let _ = std::fs::remove_file(&f);
		} else {
			emit(&origins_case(&case, root.clone(), &base).await);
		}
		let _ = std::fs::remove_dir_all(&root);
		let _ = std::fs::remove_dir_all(base.join(format!("t{id}")));
	}
}

fn origins_chroot(casefile: &str, root: &str) {
	let case: Value = serde_json::from_str(&std::fs::read_to_string(casefile).unwrap()).unwrap();
	let c = std::ffi::CString::new(root).unwrap();
	if unsafe { libc::chroot(c.as_ptr()) } != 0 || std::env::set_current_dir("/").is_err() {
		std::process::exit(3);
	}
	let rt = tokio::runtime::Builder::new_current_thread().enable_all().build().unwrap();
	let v = rt.block_on(origins_case(&case, PathBuf::from("/"), Path::new("/")));
	emit(&v);
}

/// one chain: level 0 is `root`, level i is root/l1/../l{i}; with "link": k the directory of level k is a symbolic link to a
/// directory elsewhere (whose own parent carries a marker that is NOT on the chain of the given path)
async fn origins_case(case: &Value, root: PathBuf, base: &Path) -> Value {
	use project_origins::{origins, types};
	let id = case["id"].as_u64().unwrap();
	{
		let levels = case["levels"].as_array().unwrap();
		let link = case["link"].as_u64().map(|k| k as usize);
		let mut dirs = vec![root.clone()];
		for i in 1..levels.len() {
			let d = dirs[i - 1].join(format!("l{i}"));
			if link == Some(i) {
				let outside = base.join(format!("t{id}"));
				let target = outside.join("elsewhere");
				std::fs::create_dir_all(&target).unwrap();
				std::fs::write(outside.join("Cargo.toml"), b"x").unwrap();
				std::os::unix::fs::symlink(&target, &d).unwrap();
			} else {
				std::fs::create_dir_all(&d).unwrap();
			}
			dirs.push(d);
		}
		// a very large directory on the chain: `filler` plain files in the start directory besides its entries
		if let Some(n) = case["filler"].as_u64() {
			let d = &dirs[case["start"].as_u64().unwrap() as usize];
			for k in 0..n {
				std::fs::write(d.join(format!("filler{k:05}.dat")), b"").unwrap();
			}
		}
		for (i, lvl) in levels.iter().enumerate() {
			for ent in lvl.as_array().unwrap() {
				let name = ent[0].as_str().unwrap();
				let p = dirs[i].join(name);
				match ent[1].as_u64().unwrap() {
					0 => std::fs::write(&p, b"x").unwrap(),
					1 => std::fs::create_dir_all(&p).unwrap(),
					_ => std::os::unix::fs::symlink("/nonexistent-target", &p).unwrap(),
				}
			}
		}
		let start = &dirs[case["start"].as_u64().unwrap() as usize];
		let found = origins(start).await;
		let mut found: Vec<Vec<String>> = found.iter().map(|p| comps(p)).collect();
		found.sort();
		// the whole chain as the file system presents it (independent std::fs listing)
		let mut chain = Vec::new();
		let mut cur: Option<&Path> = Some(start);
		while let Some(c) = cur {
			chain.push(json!({"comps": comps(c), "listing": listing(c)}));
			cur = c.parent();
		}
		let mut tys = Vec::new();
		for d in &dirs {
			let mut t: Vec<String> = types(d).await.iter().map(|t| format!("{t:?}")).collect();
			t.sort();
			tys.push(json!({"comps": comps(d), "listing": listing(d), "types": t}));
		}
		json!({"id": id, "start": comps(start), "origins": found, "chain": chain, "dirs": tys})
	}
}

fn origins_class() {
	use project_origins::ProjectType::*;
	let all = [
		Bazaar, Darcs, Fossil, Git, Mercurial, Pijul, Subversion, Bundler, C, Cargo, Docker, Elixir, Go,
		Gradle, JavaScript, Leiningen, Maven, Perl, PHP, Pip, V, Zig,
	];
	let v: Vec<Value> = all
		.iter()
		.map(|t| json!([format!("{t:?}"), t.is_vcs(), t.is_soft()]))
		.collect();
	emit(&json!({"class": v}));
}

// ---------------------------------------------------------------- C19

fn sig_full(s: watchexec_signals::Signal) -> String {
	let n = s.to_nix().map(|x| x as i32);
	format!(
		"{s:?} d={s} n={}",
		match n {
			Some(n) => format!("+{n}"),
			None => "-".into(),
		}
	)
}

fn parse_full(s: &str) -> String {
	use std::str::FromStr;
	match watchexec_signals::Signal::from_str(s) {
		Ok(x) => format!("Ok:{}", sig_full(x)),
		Err(_) => "Err".into(),
	}
}

fn signals(cases: &str) {
	for case in read_cases(cases) {
		let s = case["s"].as_str().unwrap();
		emit(&json!({"s": s, "parse": parse_full(s)}));
	}
}

fn signals_table() {
	use watchexec_signals::Signal;
	let mut nums: Vec<i32> = (-3..=140).collect();
	nums.extend([i32::MIN, i32::MAX, 255, 256, 1000]);
	for n in nums {
		let try_from = nix::sys::signal::Signal::try_from(n).ok().map(|s| s.as_str().to_owned());
		let c = Signal::Custom(n);
		emit(&json!({
			"n": n,
			"obs": format!("try={} from={} custom={} reparse={}",
				match try_from { Some(s) => format!("+{s}"), None => "-".into() },
				sig_full(Signal::from(n)), sig_full(c), parse_full(&c.to_string())),
		}));
	}
	let firsts = [
		Signal::Hangup, Signal::ForceStop, Signal::Interrupt, Signal::Quit, Signal::Terminate,
		Signal::User1, Signal::User2,
	];
	let v: Vec<String> = firsts
		.iter()
		.map(|s| {
			format!(
				"{} serde={} reparse={}",
				sig_full(*s),
				serde_json::to_value(s).unwrap().as_str().unwrap(),
				parse_full(&s.to_string())
			)
		})
		.collect();
	emit(&json!({"first": format!("[{}]", v.join(","))}));
}

fn exitstatus(cases: &str) {
	use std::os::unix::process::ExitStatusExt;
	use std::process::ExitStatus;
	use watchexec_events::ProcessEnd;
	for case in read_cases(cases) {
		let w = case["w"].as_u64().unwrap() as i32;
		let r = std::panic::catch_unwind(|| {
			let p = ProcessEnd::from(ExitStatus::from_raw(w));
			let into = std::panic::catch_unwind(|| p.into_exitstatus());
			match into {
				Ok(es) => {
					let back = std::panic::catch_unwind(|| ProcessEnd::from(es));
					format!(
						"{p:?} into={} back={}",
						es.into_raw(),
						match back {
							Ok(b) => format!("{b:?}"),
							Err(_) => "unreachable".into(),
						}
					)
				}
				Err(_) => format!("{p:?} into=unimplemented"),
			}
		});
		emit(&json!({"w": w, "obs": r.unwrap_or_else(|_| "unreachable".into())}));
	}
}

// ---------------------------------------------------------------- C16

fn events_kinds() {
	use watchexec_events::Tag;
	for k in all_fs_kinds() {
		let t = Tag::FileEventKind(k);
		let js = serde_json::to_string(&t).unwrap();
		let back: Tag = serde_json::from_str(&js).unwrap();
		emit(&json!({"debug": format!("{k:?}"), "json": js, "roundtrip": back == t}));
	}
}

fn events_encode(cases: &str) {
	for case in read_cases(cases) {
		let e = mk_event(&case);
		let js = serde_json::to_string(&e).unwrap();
		let back: Result<watchexec_events::Event, _> = serde_json::from_str(&js);
		emit(&json!({"json": js, "roundtrip": back.map(|b| b == e).unwrap_or(false)}));
	}
}

fn events_decode(cases: &str) {
	for case in read_cases(cases) {
		let txt = case["json"].as_str().unwrap();
		let r: Result<watchexec_events::Event, _> = serde_json::from_str(txt);
		emit(&json!({"obs": match r {
			Ok(e) => serde_json::to_string(&e).unwrap(),
			Err(_) => "ERR".into(),
		}}));
	}
}

// ---------------------------------------------------------------- C17

fn paths_summary(cases: &str) {
	for case in read_cases(cases) {
		let events: Vec<watchexec_events::Event> =
			case["events"].as_array().unwrap().iter().map(mk_event).collect();
		let map = watchexec::paths::summarise_events_to_env(events.iter());
		let mut v: Vec<(String, String)> =
			map.into_iter().map(|(k, v)| (k.to_owned(), v.to_string_lossy().into_owned())).collect();
		v.sort();
		emit(&json!({"summary": v}));
	}
}

// ---------------------------------------------------------------- C18

async fn spawn_argv(cases: &str, dir: &str) {
	use std::{ffi::OsStr, sync::Arc};
	use watchexec_supervisor::{
		command::{Command, Program, Shell, SpawnOptions},
		job::start_job,
	};
	let helper = std::env::current_exe().unwrap().with_file_name("simchild");
	std::fs::create_dir_all(dir).unwrap();
	let me = unsafe { (libc::getpgid(0), libc::getsid(0)) };
	for case in read_cases(cases) {
		let id = case["id"].as_u64().unwrap();
		let out = std::path::Path::new(dir).join(format!("out{id}.jsonl"));
		let _ = std::fs::remove_file(&out);
		let cwd = std::path::Path::new(dir).join(format!("cwd{id}"));
		std::fs::create_dir_all(&cwd).unwrap();
		let args: Vec<String> = strs(&case["args"]);
		let program = if case["kind"] == "exec" {
			Program::Exec { prog: helper.clone(), args }
		} else {
			Program::Shell {
				shell: Shell {
					prog: helper.clone(),
					options: strs(&case["options"]),
					program_option: case["progopt"].as_str().map(|s| std::borrow::Cow::Owned(OsStr::new(s).to_owned())),
				},
				command: case["command"].as_str().unwrap().to_owned(),
				args,
			}
		};
		let options = SpawnOptions {
			grouped: case["grouped"].as_bool().unwrap(),
			session: case["session"].as_bool().unwrap(),
			reset_sigmask: case["sigmask"].as_bool().unwrap(),
		};
		let (job, task) = start_job(Arc::new(Command { program, options }));
		let (out2, cwd2, mark) = (out.clone(), cwd.clone(), case["mark"].as_str().unwrap().to_owned());
		let use_hook = case["hook"].as_bool().unwrap();
		let path = case["path"].as_str().unwrap_or("start").to_owned();
		let long_lived = path != "start";
		job.set_spawn_hook(move |cmd, _| {
			cmd.command_mut().env("WXH_OUT", &out2);
			if long_lived {
				cmd.command_mut().env("WXH_MODE", "run").env("WXH_SCRIPT", "exit_after=250,on_term=exit:0");
			}
			if use_hook {
				cmd.command_mut().env("WXH_MARK", &mark).current_dir(&cwd2);
			}
		});
		let errs = Arc::new(std::sync::Mutex::new(Vec::<String>::new()));
		let e2 = errs.clone();
		job.set_error_handler(move |e| e2.lock().unwrap().push(format!("{:?}", e.get())));
		job.start().await;
		if long_lived {
			// every way a process is (re)spawned must go through the hooked command
			tokio::time::sleep(std::time::Duration::from_millis(40)).await;
			let grace = std::time::Duration::from_millis(500);
			let term = watchexec_signals::Signal::Terminate;
			match path.as_str() {
				"restart" => job.restart().await,
				"try_restart" => job.try_restart().await,
				"restart_with_signal" => job.restart_with_signal(term, grace).await,
				"try_restart_with_signal" => job.try_restart_with_signal(term, grace).await,
				o => panic!("path {o}"),
			}
		}
		job.to_wait().await;
		job.delete_now().await;
		let _ = task.await;
		let line = std::fs::read_to_string(&out).unwrap_or_default();
		let starts: Vec<Value> = line.lines().filter_map(|l| serde_json::from_str::<Value>(l).ok()).filter(|v| v["ev"] == "start").collect();
		let rep: Value = if long_lived { if starts.len() >= 2 { starts.last().cloned().unwrap() } else { Value::Null } } else { starts.first().cloned().unwrap_or(Value::Null) };
		emit(&json!({"id": id, "report": rep, "errors": *errs.lock().unwrap(), "harness_pgid": me.0, "harness_sid": me.1,
			"helper": hex(helper.to_string_lossy().as_bytes()), "cwd": cwd.to_string_lossy()}));
	}
}
