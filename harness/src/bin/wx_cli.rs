//! The watchexec command-line program itself (same body as crates/cli/src/main.rs), built against /repo's crates: used for
//! end-to-end runs where the argument vector must pass through the process's real `std::env::args_os()` (argfile expansion).
fn main() -> miette::Result<std::process::ExitCode> {
	tokio::runtime::Builder::new_multi_thread().enable_all().build().unwrap().block_on(async { watchexec_cli::run().await })
}
