//! Correspondence harness for the job supervisor (C04 C06 C07 C09 C10): runs histories of public Job
//! API calls against the real `start_job` task on a paused-clock current-thread runtime with simulated
//! children installed through the public spawn hook.
use std::sync::{Arc, Mutex};
use std::time::Duration;

use watchexec_signals::Signal;
use watchexec_supervisor::{
	command::{Command, Program, SpawnOptions},
	job::{start_job, CommandState, Job, Ticket},
};
use wxharness::sim::*;
use wxharness::*;

fn main() {
	let args: Vec<String> = std::env::args().collect();
	match args[1].as_str() {
		"run" => {
			// watchdog: a job task that spins (paused clock, single-threaded runtime) would hang this process for ever; after 10 s of
			// real time on one history it is reported as hung and the process ends -- the caller resumes with the next history
			let skip: usize = args.get(3).and_then(|s| s.parse().ok()).unwrap_or(0);
			let current: Arc<Mutex<Option<(Value, std::time::Instant)>>> = Arc::new(Mutex::new(None));
			let cur2 = current.clone();
			std::thread::spawn(move || loop {
				std::thread::sleep(std::time::Duration::from_millis(500));
				let hung = cur2.lock().unwrap().as_ref().filter(|(_, t)| t.elapsed() > std::time::Duration::from_secs(10)).map(|(id, _)| id.clone());
				if let Some(id) = hung {
					emit(&json!({"id": id, "hung": true}));
					use std::io::Write;
					let _ = std::io::stdout().flush();
					std::process::exit(0);
				}
			});
			for case in read_cases(&args[2]).into_iter().skip(skip) {
				*current.lock().unwrap() = Some((case["id"].clone(), std::time::Instant::now()));
				let out = std::panic::catch_unwind(|| run_case(&case));
				match out {
					Ok(v) => emit(&v),
					Err(_) => emit(&json!({"id": case["id"], "harness_panic": true})),
				}
			}
		}
		"mt" => {
			for case in read_cases(&args[2]) {
				emit(&run_mt(&case));
			}
			std::process::exit(0);
		}
		other => panic!("unknown subcommand {other}"),
	}
}

/// Several sender tasks on a multi-threaded runtime (real time) drive one job concurrently.  Each sender issues its own
/// list of calls in order; senders are not synchronised with each other.  Judged by monitors on the log (no overlap of
/// children, every ticket resolves, per-sender order of run() marks).
fn run_mt(case: &Value) -> Value {
	let rt = tokio::runtime::Builder::new_multi_thread().worker_threads(4).enable_all().build().unwrap();
	let case = case.clone();
	let v = rt.block_on(async move {
		let script = Script {
			children: case["script"]["children"].as_array().map(|a| a.iter().map(beh_of).collect()).unwrap_or_default(),
			spawn_fail: vec![], signal_fail: vec![], kill_fail: vec![], wait_fail: vec![], signal_errno: None,
		};
		let sh: Shared = Arc::new(Mutex::new(World { t0: tokio::time::Instant::now(), log: vec![], script, attempts: 0, spawned: 0, waits: 0, force_exit: None, signals: 0, kills: 0 }));
		let command = Arc::new(Command { program: Program::Exec { prog: "true".into(), args: vec![] }, options: SpawnOptions::default() });
		let (job, task) = start_job(command);
		install_hook(&job, &sh, None).await;
		let senders = case["senders"].as_array().unwrap().clone();
		let resolved: Arc<Mutex<Vec<Vec<Option<u64>>>>> = Arc::new(Mutex::new(senders.iter().map(|s| vec![None; s.as_array().unwrap().len()]).collect()));
		let mut handles = Vec::new();
		for (si, ops) in senders.iter().enumerate() {
			let (job, sh, resolved, ops) = (job.clone(), sh.clone(), resolved.clone(), ops.as_array().unwrap().clone());
			handles.push(tokio::spawn(async move {
				let mut waiters = Vec::new();
				for (k, op) in ops.iter().enumerate() {
					if let Some(us) = op["gap_us"].as_u64() {
						tokio::time::sleep(Duration::from_micros(us)).await;
					}
					let grace = Duration::from_millis(op["grace"].as_u64().unwrap_or(0));
					let ticket = match op["op"].as_str().unwrap() {
						"start" => job.start(),
						"stop" => job.stop(),
						"restart" => job.restart(),
						"try_restart" => job.try_restart(),
						"stop_with_signal" => job.stop_with_signal(sig_of(&op["sig"]), grace),
						"restart_with_signal" => job.restart_with_signal(sig_of(&op["sig"]), grace),
						"signal" => job.signal(sig_of(&op["sig"])),
						"to_wait" => job.to_wait(),
						"run_exit_wait" => {
							// a run() whose function makes the command end at this very instant and queues a to_wait() (high lane)
							let (sh2, m, j2) = (sh.clone(), op["mark"].as_u64().unwrap(), job.clone());
							job.run(move |ctx| {
								log(&sh2, &format!("mark({m},{},{})", state_tag(ctx.current), ctx.previous.map_or("-".into(), state_tag)));
								sh2.lock().unwrap().force_exit = Some(tokio::time::Instant::now());
								let (t, sh3) = (j2.to_wait(), sh2.clone());
								tokio::spawn(async move {
									t.await;
									log(&sh3, &format!("waitdone({m})"));
								});
							})
						}
						"run" => {
							let (sh2, m) = (sh.clone(), op["mark"].as_u64().unwrap());
							job.run(move |ctx| log(&sh2, &format!("mark({m},{},{})", state_tag(ctx.current), ctx.previous.map_or("-".into(), state_tag))))
						}
						o => panic!("mt op {o}"),
					};
					let (res, sh2) = (resolved.clone(), sh.clone());
					waiters.push(tokio::spawn(async move {
						ticket.await;
						let now = { let w0 = sh2.lock().unwrap(); now_ms(&w0) };
						res.lock().unwrap()[si][k] = Some(now);
					}));
				}
				waiters
			}));
		}
		let mut waiters = Vec::new();
		for h in handles {
			waiters.extend(h.await.unwrap());
		}
		tokio::time::sleep(Duration::from_millis(case["tail_ms"].as_u64().unwrap_or(300))).await;
		// end the job: every outstanding ticket must then resolve
		let del = job.delete_now();
		let del_ok = tokio::time::timeout(Duration::from_millis(2000), del).await.is_ok();
		tokio::time::sleep(Duration::from_millis(50)).await;
		let finished = task.is_finished();
		let panicked = if finished { task.await.is_err() } else { task.abort(); false };
		for w in waiters {
			w.abort();
		}
		let logv = sh.lock().unwrap().log.clone();
		let res = resolved.lock().unwrap().clone();
		json!({"id": case["id"], "log": logv, "tickets": res, "task_finished": finished, "panicked": panicked, "delete_resolved": del_ok})
	});
	rt.shutdown_timeout(Duration::from_millis(100));
	v
}

fn sig_of(v: &Value) -> Signal {
	if let Some(n) = v.as_i64() {
		return Signal::Custom(n as i32);
	}
	wxharness::evgen::mk_signal(v)
}

fn state_tag(s: &CommandState) -> String {
	match s {
		CommandState::Pending => "P".into(),
		CommandState::Running { .. } => "R".into(),
		CommandState::Finished { status, .. } => format!("F:{status:?}"),
	}
}

fn beh_of(v: &Value) -> Beh {
	Beh {
		self_exit: v["self_exit"].as_u64(),
		react: v["react"].as_array().map(|a| a.iter().map(|p| (p[0].as_i64().unwrap() as i32, p[1].as_u64())).collect()).unwrap_or_default(),
		default_react: v["default"].as_u64(),
		ignore_all: v["ignore_all"].as_bool().unwrap_or(false),
		kill_delay: v["kill_delay"].as_u64().unwrap_or(0),
	}
}

fn install_hook(job: &Job, sh: &Shared, mark: Option<u64>) -> Ticket {
	let sh = sh.clone();
	job.set_spawn_hook(move |cmd, ctx| {
		if let Some(m) = mark {
			log(&sh, &format!("hook({m},{},{})", state_tag(ctx.current), ctx.previous.map_or("-".into(), state_tag)));
		}
		cmd.wrap(SimWrapper { sh: sh.clone() });
	})
}

fn run_case(case: &Value) -> Value {
	let rt = tokio::runtime::Builder::new_current_thread().enable_all().start_paused(true).build().unwrap();
	let case = case.clone();
	rt.block_on(async move {
		let script = Script {
			children: case["script"]["children"].as_array().map(|a| a.iter().map(beh_of).collect()).unwrap_or_default(),
			spawn_fail: case["script"]["spawn_fail"].as_array().map(|a| a.iter().map(|x| x.as_u64().unwrap() as usize).collect()).unwrap_or_default(),
			signal_fail: case["script"]["signal_fail"].as_array().map(|a| a.iter().map(|x| x.as_u64().unwrap() as usize).collect()).unwrap_or_default(),
			kill_fail: case["script"]["kill_fail"].as_array().map(|a| a.iter().map(|x| x.as_u64().unwrap() as usize).collect()).unwrap_or_default(),
			wait_fail: case["script"]["wait_fail"].as_array().map(|a| a.iter().map(|x| x.as_u64().unwrap() as usize).collect()).unwrap_or_default(),
			signal_errno: case["script"]["signal_errno"].as_i64().map(|n| n as i32),
		};
		let sh: Shared = Arc::new(Mutex::new(World {
			t0: tokio::time::Instant::now(), log: vec![], script, attempts: 0, spawned: 0, waits: 0, force_exit: None, signals: 0, kills: 0,
		}));
		let command = Arc::new(Command {
			program: Program::Exec { prog: "true".into(), args: vec![] },
			options: SpawnOptions::default(),
		});
		let (job, task) = start_job(command);
		let mut job = Some(job);
		// preamble (not part of the history): error handler + the hook that installs the simulated child
		{
			let job = job.as_ref().unwrap();
			let sh2 = sh.clone();
			job.set_error_handler(move |e| log(&sh2, &format!("err({})", e.get().map_or("?".into(), |e| e.kind().to_string().replace(' ', "_")))));
			if let Some(d) = case["hook_delay"].as_u64() {
				// an async spawn hook that takes time: the spawn it precedes (and the ticket of the control that asked for it) come after it
				let sh2 = sh.clone();
				job.set_spawn_async_hook(move |cmd, _ctx| {
					cmd.wrap(SimWrapper { sh: sh2.clone() });
					let sh3 = sh2.clone();
					Box::new(async move {
						tokio::time::sleep(std::time::Duration::from_millis(d)).await;
						log(&sh3, "hookdone()");
					})
				}).await;
			} else {
				install_hook(job, &sh, None).await;
			}
		}
		let nwait = case["waiters"].as_u64().unwrap_or(1) as usize;
		let ops = case["ops"].as_array().unwrap().clone();
		let resolved: Arc<Mutex<Vec<Vec<Option<u64>>>>> = Arc::new(Mutex::new(vec![vec![None; nwait]; ops.len()]));
		let mut waiters = Vec::new();
		let t0 = sh.lock().unwrap().t0;
		for (k, op) in ops.iter().enumerate() {
			let at = op["at"].as_u64().unwrap();
			let target = t0 + Duration::from_millis(at);
			if tokio::time::Instant::now() < target {
				tokio::time::sleep_until(target).await;
			}
			let grace = Duration::from_millis(op["grace"].as_u64().unwrap_or(0));
			if op["op"] == "drop_handle" {
				// the last Job handle goes away (tickets issued so far are still held by their waiters)
				job = None;
				for _ in 0..50 {
					tokio::task::yield_now().await;
				}
				continue;
			}
			let Some(job) = job.as_ref() else { continue };
			let ticket = match op["op"].as_str().unwrap() {
				"start" => job.start(),
				"stop" => job.stop(),
				"stop_with_signal" => job.stop_with_signal(sig_of(&op["sig"]), grace),
				"restart" => job.restart(),
				"restart_with_signal" => job.restart_with_signal(sig_of(&op["sig"]), grace),
				"try_restart" => job.try_restart(),
				"try_restart_with_signal" => job.try_restart_with_signal(sig_of(&op["sig"]), grace),
				"signal" => job.signal(sig_of(&op["sig"])),
				"delete" => job.delete(),
				"delete_now" => job.delete_now(),
				"to_wait" => job.to_wait(),
				"run" => {
					let (sh2, m) = (sh.clone(), op["mark"].as_u64().unwrap());
					job.run(move |ctx| log(&sh2, &format!("mark({m},{},{})", state_tag(ctx.current), ctx.previous.map_or("-".into(), state_tag))))
				}
				"run_async" => {
					let (sh2, m, d) = (sh.clone(), op["mark"].as_u64().unwrap(), op["dur"].as_u64().unwrap());
					job.run_async(move |ctx| {
						log(&sh2, &format!("mark({m},{},{})", state_tag(ctx.current), ctx.previous.map_or("-".into(), state_tag)));
						Box::new(async move { tokio::time::sleep(Duration::from_millis(d)).await })
					})
				}
				"raw" => {
					// one control at an explicit priority, through the verification hook
					use watchexec_supervisor::job::Control;
					let ctrl = match op["ctrl"].as_str().unwrap() {
						"Start" => Control::Start,
						"Stop" => Control::Stop,
						"GracefulStop" => Control::GracefulStop { signal: sig_of(&op["sig"]), grace },
						"TryRestart" => Control::TryRestart,
						"TryGracefulRestart" => Control::TryGracefulRestart { signal: sig_of(&op["sig"]), grace },
						"Signal" => Control::Signal(sig_of(&op["sig"])),
						"Delete" => Control::Delete,
						"ContinueTryGracefulRestart" => Control::ContinueTryGracefulRestart,
						"NextEnding" => Control::NextEnding,
						"SyncFunc" => {
							let (sh2, m) = (sh.clone(), op["mark"].as_u64().unwrap());
							Control::SyncFunc(Box::new(move |ctx| log(&sh2, &format!("mark({m},{},{})", state_tag(ctx.current), ctx.previous.map_or("-".into(), state_tag)))))
						}
						"AsyncFunc" => {
							let (sh2, m, d) = (sh.clone(), op["mark"].as_u64().unwrap(), op["dur"].as_u64().unwrap());
							Control::AsyncFunc(Box::new(move |ctx| {
								log(&sh2, &format!("mark({m},{},{})", state_tag(ctx.current), ctx.previous.map_or("-".into(), state_tag)));
								Box::new(async move { tokio::time::sleep(Duration::from_millis(d)).await })
							}))
						}
						o => panic!("raw ctrl {o}"),
					};
					job.verif_send(ctrl, op["prio"].as_u64().unwrap() as u8)
				}
				"set_hook" => install_hook(&job, &sh, Some(op["mark"].as_u64().unwrap())),
				"unset_hook" => install_hook(&job, &sh, None),
				"run_send" => {
					// a run() whose function itself sends a marked function at an explicit priority (from within the job task)
					let (sh2, m, j2, m2, p2) = (sh.clone(), op["mark"].as_u64().unwrap(), job.clone(), op["then_mark"].as_u64().unwrap(), op["then_prio"].as_u64().unwrap() as u8);
					job.run(move |ctx| {
						log(&sh2, &format!("mark({m},{},{})", state_tag(ctx.current), ctx.previous.map_or("-".into(), state_tag)));
						let sh3 = sh2.clone();
						drop(j2.verif_send(watchexec_supervisor::job::Control::SyncFunc(Box::new(move |ctx| log(&sh3, &format!("mark({m2},{},{})", state_tag(ctx.current), ctx.previous.map_or("-".into(), state_tag))))), p2));
					})
				}
				"run_exit_wait" => {
					// a run() whose function makes the command end at this very instant and queues a to_wait() (high lane)
					let (sh2, m, j2) = (sh.clone(), op["mark"].as_u64().unwrap(), job.clone());
					job.run(move |ctx| {
						log(&sh2, &format!("mark({m},{},{})", state_tag(ctx.current), ctx.previous.map_or("-".into(), state_tag)));
						sh2.lock().unwrap().force_exit = Some(tokio::time::Instant::now());
						let (t, sh3) = (j2.to_wait(), sh2.clone());
						tokio::spawn(async move {
							t.await;
							log(&sh3, &format!("waitdone({m})"));
						});
					})
				}
				o => panic!("op {o}"),
			};
			for w in 0..nwait {
				let (t, res, sh2) = (ticket.clone(), resolved.clone(), sh.clone());
				let late_clone = w > 0 && case["late_clone"].as_bool().unwrap_or(false);
				waiters.push(tokio::spawn(async move {
					if late_clone {
						// poll the ticket once; when it is not resolved yet, wait on a clone made of the polled ticket
						let mut t = t;
						let pending = std::future::poll_fn(|cx| std::task::Poll::Ready(std::future::Future::poll(std::pin::Pin::new(&mut t), cx).is_pending())).await;
						if pending {
							// ... from another task (another waker)
							let c = t.clone();
							let h = tokio::spawn(async move { c.await });
							let ab = h.abort_handle();
							struct Ab(tokio::task::AbortHandle);
							impl Drop for Ab { fn drop(&mut self) { self.0.abort(); } }
							let _g = Ab(ab);
							drop(h.await);
						}
					} else {
						t.await;
					}
					let now = { let w0 = sh2.lock().unwrap(); now_ms(&w0) };
					res.lock().unwrap()[k][w] = Some(now);
				}));
			}
			if op["yield"].as_bool().unwrap_or(true) {
				// let the job task (and the waiters) run until they are all idle, without advancing time
				for _ in 0..50 {
					tokio::task::yield_now().await;
				}
			}
		}
		tokio::time::sleep(Duration::from_millis(case["tail"].as_u64().unwrap_or(5000))).await;
		for _ in 0..50 {
			tokio::task::yield_now().await;
		}
		let finished = task.is_finished();
		let panicked = if finished { task.await.is_err() } else { task.abort(); false };
		let dead = job.as_ref().map_or(true, |j| j.is_dead());
		for w in waiters {
			w.abort();
		}
		let logv = sh.lock().unwrap().log.clone();
		let res = resolved.lock().unwrap().clone();
		json!({"id": case["id"], "log": logv, "tickets": res, "task_finished": finished, "panicked": panicked, "dead": dead})
	})
}
