#!/usr/bin/env python3
"""seedkeep.py <Cxx> <n> <caught_by> <note> : copy a confirmed seeded change from its scratch worktree into /verif/seeded/"""
import json, os, shutil, sys
pid, n, caught, note = sys.argv[1:5]
pre = os.environ.get("WTPREFIX", "/tmp/wt_")
off = int(os.environ.get("SEEDOFF", "0"))
src = f"{pre}{pid}/SEEDED/{n}"
dst = f"/verif/seeded/{pid}-{int(n) + off}"
shutil.rmtree(dst, ignore_errors=True)
os.makedirs(dst)
for f in os.listdir(src):
    p = os.path.join(src, f)
    if os.path.isfile(p) and os.path.getsize(p) < 200000 and not f.endswith(".log"):
        shutil.copy(p, dst)
m = {}
try:
    m = json.load(open(os.path.join(src, "meta.json")))
except Exception:
    pass
m.update({"property": pid, "confirmed_by_us": {"applies": True, "compiles": True, "existing_tests_pass": True}, "caught_by": caught, "note": note})
json.dump(m, open(os.path.join(dst, "meta.json"), "w"), indent=1)
print("kept", dst, sorted(os.listdir(dst)))
