"""Shared machinery of the /verif checks: Coq build + assumption audit, harness build/run,
model evaluation inside coqc, verdict protocol, evidence writer."""
import glob, hashlib, json, os, random, re, shutil, subprocess, sys, time
from concurrent.futures import ThreadPoolExecutor

VERIF = os.path.dirname(os.path.dirname(os.path.abspath(__file__)))
REPO = os.environ.get("VERIF_REPO", "/repo")
BUILD = os.path.join(VERIF, ".build")
COQ = os.path.join(VERIF, "coq")
HARNESS = os.path.join(VERIF, "harness")
TARGET = os.path.join(BUILD, "target")
GUARD = "watchexec_verif"
NCPU = 16

sys.path.insert(0, os.path.join(VERIF, "tools"))
import translate  # noqa: E402


def log(*a):
    print("[check]", *a, flush=True)


def sh(cmd, timeout=600, env=None, cwd=None, input=None):
    e = dict(os.environ)
    e.update({"CARGO_NET_OFFLINE": "true"})
    if env:
        e.update(env)
    try:
        p = subprocess.run(cmd, shell=isinstance(cmd, str), cwd=cwd, env=e, input=input,
                           stdout=subprocess.PIPE, stderr=subprocess.STDOUT, timeout=timeout, text=True,
                           errors="replace")
        return p.returncode, p.stdout
    except subprocess.TimeoutExpired as ex:
        out = ex.stdout or ""
        if isinstance(out, bytes):
            out = out.decode("utf-8", "replace")
        return 124, out + "\n[timeout]"


# --------------------------------------------------------------------------------------------
# Coq side

FORBIDDEN = re.compile(
    r"\b(Admitted|admit|Axiom|Axioms|Parameter|Parameters|Conjecture|Conjectures|Admit Obligations|"
    r"Unset Guard Checking|Unset Positivity Checking|Unset Universe Checking|bypass_check|type-in-type|"
    r"impredicative-set|native_compute)\b")
# allowed axioms (Print Assumptions); target: none.  Names listed here are stdlib axioms named in
# DESIGN.md section 7.
AXIOM_ALLOWLIST = set()


def strip_coq_comments(s):
    out, depth, i = [], 0, 0
    while i < len(s):
        if s.startswith("(*", i):
            depth += 1
            i += 2
        elif s.startswith("*)", i) and depth:
            depth -= 1
            i += 2
        else:
            if not depth:
                out.append(s[i])
            i += 1
    return "".join(out)


def scan_sources():
    """Reject Admitted/Axiom/... anywhere and Variable/Hypothesis outside a Section."""
    bad = []
    for f in sorted(glob.glob(os.path.join(COQ, "**", "*.v"), recursive=True)):
        src = strip_coq_comments(open(f, encoding="utf-8").read())
        src_nostr = re.sub(r'"(?:[^"]|"")*"', '""', src)
        for m in FORBIDDEN.finditer(src_nostr):
            bad.append(f"{os.path.relpath(f, VERIF)}: forbidden token {m.group(0)!r}")
        depth = 0
        for line in src_nostr.splitlines():
            if re.match(r"\s*Section\s+\w+", line):
                depth += 1
            elif re.match(r"\s*End\s+\w+", line) and depth:
                depth -= 1
            elif depth == 0 and re.match(r"\s*(Variable|Variables|Hypothesis|Hypotheses|Context)\b", line):
                bad.append(f"{os.path.relpath(f, VERIF)}: {line.strip()[:40]!r} outside a Section")
    return bad


def coq_makefile():
    mk = os.path.join(COQ, "Makefile")
    cp = os.path.join(COQ, "_CoqProject")
    if not os.path.exists(mk) or os.path.getmtime(mk) < os.path.getmtime(cp):
        rc, out = sh("coq_makefile -f _CoqProject -o Makefile", cwd=COQ, timeout=60)
        if rc:
            raise RuntimeError("coq_makefile failed: " + out)


def coq_make(targets, timeout=1500):
    """make the given .vo targets (full .vo build).  Returns (ok, output)."""
    coq_makefile()
    rc, out = sh(["make", "-j%d" % NCPU, "--no-print-directory"] + targets, cwd=COQ, timeout=timeout)
    return rc == 0, out


def coq_all_listed():
    with open(os.path.join(COQ, "_CoqProject")) as f:
        return [l.strip() for l in f if l.strip().endswith(".v")]


def audit_property_file(pid):
    """(Re)compile Properties/<pid>.v and audit Print Assumptions.
    Returns dict(ok, theorems=[names], closed=[names], axioms={name:[...]}, output)."""
    rel = f"Properties/{pid}.v"
    src = strip_coq_comments(open(os.path.join(COQ, rel), encoding="utf-8").read())
    theorems = re.findall(r"^\s*Theorem\s+([A-Za-z0-9_']+)", src, re.M)
    printed = re.findall(r"^\s*Print Assumptions\s+([A-Za-z0-9_']+)\s*\.", src, re.M)
    vo = os.path.join(COQ, rel + "o")
    if os.path.exists(vo):
        os.remove(vo)
    ok, out = coq_make([rel + "o"])
    res = {"ok": ok, "theorems": theorems, "closed": [], "axioms": {}, "output": out,
           "unprinted": [t for t in theorems if t not in printed]}
    if not ok:
        return res
    # Print Assumptions outputs appear in order
    chunks = re.split(r"(?m)^(?=Closed under the global context|Axioms:)", out)
    chunks = [c for c in chunks if c.startswith("Closed under") or c.startswith("Axioms:")]
    if len(chunks) != len(printed):
        res["ok"] = False
        res["output"] += f"\n[audit] expected {len(printed)} Print Assumptions outputs, saw {len(chunks)}"
        return res
    for name, c in zip(printed, chunks):
        if c.startswith("Closed under"):
            res["closed"].append(name)
        else:
            ax = re.findall(r"(?m)^([A-Za-z0-9_.']+)\s*:", c)
            res["axioms"][name] = ax
    return res


def coq_term_string(s):
    return translate.coq_string(s)


def coq_list(items):
    return "[" + "; ".join(items) + "]"


def parse_coq_strings(out):
    """All results of `Eval vm_compute in (e : string)` in order."""
    res = []
    for m in re.finditer(r'=\s*"((?:[^"]|"")*)"\s*:\s*string', out):
        res.append(m.group(1).replace('""', '"'))
    return res


def coq_eval(tag, requires, terms, shards=NCPU, timeout=900, prelude=""):
    """Evaluate each Gallina term (of type string) with vm_compute inside coqc.
    Returns list of result strings (None where evaluation failed) and an error text."""
    d = os.path.join(BUILD, "run", tag)
    shutil.rmtree(d, ignore_errors=True)
    os.makedirs(d)
    n = len(terms)
    if n == 0:
        return [], ""
    shards = max(1, min(shards, (n + 19) // 20))
    parts = [list(range(i, n, shards)) for i in range(shards)]
    head = "From Coq Require Import List NArith ZArith String Ascii.\n" \
           "From WX Require Import Base.Show %s.\nImport ListNotations.\nOpen Scope string_scope.\n" \
           "Set Printing Width 100000000.\nSet Printing Depth 100000000.\n%s\n" % (" ".join(requires), prelude)

    def run(k):
        f = os.path.join(d, f"cases_{k}.v")
        with open(f, "w", encoding="utf-8") as fh:
            fh.write(head)
            for i in parts[k]:
                fh.write(f"Eval vm_compute in ({terms[i]}).\n")
        rc, out = sh(["coqc", "-noglob", "-Q", COQ, "WX", f], timeout=min(timeout, 120 + 2 * len(parts[k])), cwd=d)
        return rc, out

    results = [None] * n
    errs = []
    slow = []
    with ThreadPoolExecutor(max_workers=NCPU) as ex:
        for k, (rc, out) in enumerate(ex.map(run, range(shards))):
            vals = parse_coq_strings(out)
            if rc == 124:
                slow += parts[k]          # the shard ran out of time: find the expensive term(s) below
                continue
            if rc != 0 or len(vals) != len(parts[k]):
                errs.append(f"shard {k}: rc={rc}, {len(vals)}/{len(parts[k])} results\n{out[-2000:]}")
                continue
            for i, v in zip(parts[k], vals):
                results[i] = v
    if slow:
        # evaluate the terms of the timed-out shards one by one; a term whose exploration is too expensive is reported as
        # MODEL-TIMEOUT (callers count it as skipped: it says nothing about the code)
        def one(i):
            f = os.path.join(d, f"single_{i}.v")
            with open(f, "w", encoding="utf-8") as fh:
                fh.write(head + f"Eval vm_compute in ({terms[i]}).\n")
            rc, out = sh(["coqc", "-noglob", "-Q", COQ, "WX", f], timeout=90, cwd=d)
            vals = parse_coq_strings(out)
            if rc == 0 and len(vals) == 1:
                return i, vals[0], None
            return i, MODEL_TIMEOUT if rc == 124 else None, (None if rc == 124 else f"term {i}: rc={rc}\n{out[-1500:]}")
        with ThreadPoolExecutor(max_workers=NCPU) as ex:
            for i, v, e in ex.map(one, slow):
                results[i] = v
                if e:
                    errs.append(e)
    return results, "\n".join(errs)


MODEL_TIMEOUT = "MODEL-TIMEOUT"


# --------------------------------------------------------------------------------------------
# Rust side


def cargo_build(bins, timeout=3000):
    lock = os.path.join(HARNESS, "Cargo.lock")
    if not os.path.exists(lock):
        shutil.copy(os.path.join(REPO, "Cargo.lock"), lock)
    cmd = ["cargo", "build", "--offline", "--quiet"]
    for b in bins:
        cmd += ["--bin", b]
    env = {"RUSTFLAGS": f"--cfg {GUARD}", "CARGO_TARGET_DIR": TARGET}
    rc, out = sh(cmd, cwd=HARNESS, env=env, timeout=timeout)
    if rc != 0 and ("failed to select a version" in out or "needs to be updated" in out or "Cargo.lock" in out):
        shutil.copy(os.path.join(REPO, "Cargo.lock"), lock)
        rc, out = sh(cmd, cwd=HARNESS, env=env, timeout=timeout)
    return rc == 0, out


def harness_bin(name):
    return os.path.join(TARGET, "debug", name)


def run_harness(name, args, timeout=600, env=None, input=None):
    """runs a harness binary; result objects are the JSON lines of its stdout.  stderr (tracing output of the
    code under test, panics of detached tasks) is captured separately so that it can never split a result line."""
    e = dict(os.environ)
    e.update({"CARGO_NET_OFFLINE": "true"})
    if env:
        e.update(env)
    try:
        p = subprocess.run([harness_bin(name)] + args, env=e, input=input, stdout=subprocess.PIPE, stderr=subprocess.PIPE,
                           timeout=timeout, text=True, errors="replace")
        rc, out, err = p.returncode, p.stdout, p.stderr
    except subprocess.TimeoutExpired as ex:
        out = ex.stdout or ""
        err = ex.stderr or ""
        if isinstance(out, bytes):
            out = out.decode("utf-8", "replace")
        if isinstance(err, bytes):
            err = err.decode("utf-8", "replace")
        rc, err = 124, err + "\n[timeout]"
    objs = []
    for line in out.splitlines():
        line = line.strip()
        if line.startswith("{"):
            try:
                objs.append(json.loads(line))
            except json.JSONDecodeError:
                pass
    return rc, objs, out[-2000:] + "\n--- stderr tail ---\n" + err[-3000:]


def write_jsonl(path, objs):
    os.makedirs(os.path.dirname(path), exist_ok=True)
    with open(path, "w", encoding="utf-8") as f:
        for o in objs:
            f.write(json.dumps(o) + "\n")


def scratch(tag):
    d = os.path.join(BUILD, "scratch", tag)
    shutil.rmtree(d, ignore_errors=True)
    os.makedirs(d)
    return d


# --------------------------------------------------------------------------------------------
# known findings


def known_findings(pid):
    res = []
    p = os.path.join(VERIF, "known_findings.txt")
    if os.path.exists(p):
        for line in open(p, encoding="utf-8"):
            line = line.strip()
            m = re.match(r"finding:\s+property=(\S+)\s+class=(\S+)\s+(.*)", line)
            if m and m.group(1) == pid:
                res.append({"class": m.group(2), "text": m.group(3)})
    return res


# --------------------------------------------------------------------------------------------
# check driver


class Corr:
    """Result of one correspondence + monitor run."""

    def __init__(self):
        self.evaluations = 0
        self.validated = 0          # implementation observations accepted by the model
        self.nontrivial = set()     # keys of distinct non-trivial cases
        self.rule = ""
        self.samples = []
        self.dist = {}
        self.disagreements = []     # [{case, impl, model, what}]
        self.failing = []           # [{case, impl, clause, klass?}] monitor false on the implementation
        self.errors = []            # infrastructure errors (harness crashed, model did not evaluate)
        self.exhaustive = False
        self.extra = {}

    def count(self, key, n=1):
        self.dist[key] = self.dist.get(key, 0) + n

    def absorb(self, o):
        self.evaluations += o.evaluations
        self.validated += o.validated
        self.nontrivial |= o.nontrivial
        self.samples += o.samples
        for k, v in o.dist.items():
            self.count(k, v)
        self.disagreements += o.disagreements
        self.failing += o.failing
        self.errors += o.errors
        self.extra.update(o.extra)


def confirm_realtime(judge, cases, retries=2):
    """Real-time scenarios: a disagreement or a monitor failure is reported only if it shows again when the scenario is
    re-run (with low parallelism).  Code that breaks the property fails deterministically on its scenario; a scheduling
    hiccup of the machine does not repeat.  Entries carry the scenario id in entry["case"]["id"]."""
    c = judge(cases, 16)
    for attempt in range(retries):
        if c.errors:
            break
        bad = {e["case"]["id"] for e in c.disagreements + c.failing if isinstance(e.get("case"), dict) and "id" in e["case"]}
        if not bad:
            break
        c2 = judge([cs for cs in cases if cs["id"] in bad], 4)
        if c2.errors:
            c.errors += c2.errors
            break
        still = {e["case"]["id"] for e in c2.disagreements + c2.failing if isinstance(e.get("case"), dict) and "id" in e["case"]}
        gone = bad - still
        if gone:
            c.disagreements = [e for e in c.disagreements if not (isinstance(e.get("case"), dict) and e["case"].get("id") in gone)]
            c.failing = [e for e in c.failing if not (isinstance(e.get("case"), dict) and e["case"].get("id") in gone)]
            c.count("not-reproduced-on-rerun(dropped)", len(gone))
        if not still:
            break
    return c


class Prop:
    pid = "C00"
    generators = []          # translate.GENERATORS keys
    coq_targets = []         # extra .vo targets needed for evaluation (models, Run/Eval*.vo)
    bins = []                # harness binaries
    trusted = []             # extra trusted-base strings
    level = "proof"

    def correspond(self, tier, seed, deep=False):
        raise NotImplementedError


BASE_TRUSTED = [
    "Coq 8.16.1 kernel (coqc; full .vo build via coq_makefile); vm_compute used for finite facts and model evaluation; native_compute not used",
    "axioms: none (every Print Assumptions output must be 'Closed under the global context')",
    "tools/translate.py (regex table translator) and the Python/Rust correspondence harness",
]


def run_check(P, tier, seed):
    t0 = time.time()
    pid = P.pid
    os.makedirs(BUILD, exist_ok=True)
    problems = []       # broken obligations / ties (strings)
    # ---- A: translate, build proofs, audit
    for g in P.generators:
        try:
            translate.GENERATORS[g]()
        except translate.TranslateError as e:
            problems.append(f"translator {g}: {e}")
        except Exception as e:  # shape so different that the extractor crashed
            problems.append(f"translator {g}: {type(e).__name__}: {e}")
    scan = scan_sources()
    for b in scan:
        problems.append("source scan: " + b)
    ok_eval, out_eval = coq_make(P.coq_targets) if P.coq_targets else (True, "")
    if not ok_eval:
        problems.append("model does not compile: " + last_error(out_eval))
    audit = audit_property_file(pid)
    if not audit["ok"]:
        problems.append(f"theorem file Properties/{pid}.v no longer checks: " + last_error(audit["output"]))
    for t in audit.get("unprinted", []):
        problems.append(f"theorem {t} has no Print Assumptions")
    for name, ax in audit["axioms"].items():
        extra = [a for a in ax if a not in AXIOM_ALLOWLIST]
        if extra:
            problems.append(f"theorem {name} depends on axioms {extra}")
    coqchk_note = "not run in the quick tier"
    if tier == "thorough" and audit["ok"]:
        # independent re-check of the compiled theorem file and everything it depends on, with the axioms it relies on
        rcc, outc = sh(["coqchk", "-o", "-silent", "-Q", COQ, "WX", f"WX.Properties.{pid}"], timeout=1500, cwd=COQ)
        if rcc != 0:
            problems.append("coqchk rejects the compiled development: " + outc[-800:])
            coqchk_note = "failed"
        elif "* Axioms: <none>" not in outc:
            problems.append("coqchk reports axioms: " + outc[-800:])
            coqchk_note = "axioms reported"
        else:
            coqchk_note = "coqchk -o: accepted, Axioms: <none>"
    obligations = len(audit["theorems"])
    discharged = len([t for t in audit["theorems"] if t in audit["closed"] or
                      (t in audit["axioms"] and all(a in AXIOM_ALLOWLIST for a in audit["axioms"][t]))]) \
        if audit["ok"] else 0
    # ---- B/C: correspondence and monitors
    corr = Corr()
    okb, outb = cargo_build(P.bins) if P.bins else (True, "")
    if not okb:
        problems.append("harness does not build against /repo: " + outb[-1500:])
    elif ok_eval:
        try:
            corr = P.correspond(tier, seed, deep=False)
        except Exception as e:
            import traceback
            corr.errors.append("correspondence crashed: " + traceback.format_exc()[-1500:])
        if (problems or corr.disagreements or corr.errors) and not corr.failing and tier == "quick":
            log("obligation or correspondence broken; searching harder for a failing input")
            try:
                c2 = P.correspond("thorough", seed + 1, deep=True)
                corr.failing += c2.failing
                corr.evaluations += c2.evaluations
                corr.nontrivial |= c2.nontrivial
            except Exception as e:
                corr.errors.append(f"deep search crashed: {e}")
    for d in corr.disagreements[:5]:
        problems.append("correspondence: model and implementation differ: " + json.dumps(d)[:600])
    for e in corr.errors[:5]:
        problems.append("correspondence error: " + e[:800])
    # ---- D: classify
    kf = known_findings(pid)
    violations = 0
    rc = 0
    new_failing = []
    reported_known = set()
    for f in corr.failing:
        k = f.get("klass")
        hit = next((x for x in kf if k and x["class"] == k), None)
        if hit:
            if hit["class"] not in reported_known:
                print(f"KNOWN-FINDING: property={pid} {hit['text']}", flush=True)
                reported_known.add(hit["class"])
        else:
            new_failing.append(f)
    # a problem that is entirely explained by known findings is not re-raised
    if new_failing:
        f = new_failing[0]
        path = write_replay(pid, {"kind": "failing-input", "clause": f.get("clause"), "case": f.get("case"),
                                  "impl": f.get("impl"), "expected": f.get("expected"),
                                  "broken": problems, "others": len(new_failing) - 1})
        print(f"VIOLATION property={pid} replay={path}", flush=True)
        violations = len(new_failing)
        rc = 1
    elif problems:
        path = write_replay(pid, {"kind": "no-failing-input-found", "broken": problems,
                                  "disagreements": corr.disagreements[:3]})
        for p in problems[:8]:
            log("BROKEN:", p[:1000])
        print(f"VIOLATION property={pid} replay={path} no-failing-input-found", flush=True)
        violations = 1
        rc = 1
    # ---- E: evidence
    ev = {
        "property_id": pid, "tier": tier, "seed": seed, "level": P.level,
        "coverage": {
            "obligations": obligations, "discharged": discharged,
            "checker_cmd": f"make -C coq Properties/{pid}.vo (coqc 8.16.1, full .vo) + Print Assumptions audit + forbidden-token scan",
            "trusted_base": BASE_TRUSTED + list(P.trusted),
            "theorems": audit["theorems"],
            "evaluations": corr.evaluations,
            "distinct_nontrivial": len(corr.nontrivial),
            "rule": corr.rule,
            "samples": corr.samples[:5],
            "traces_validated_against_impl": corr.validated,
            "input_distribution": corr.dist,
            "exhaustive": corr.exhaustive,
            "known_findings_reported": sorted(reported_known),
            "coqchk": coqchk_note,
            "broken": problems,
        },
        "assumptions": list(P.trusted),
        "wall_s": round(time.time() - t0, 2),
        "violations": violations,
    }
    ev["coverage"].update(corr.extra)
    os.makedirs(os.path.join(VERIF, "evidence"), exist_ok=True)
    with open(os.path.join(VERIF, "evidence", f"{pid}.json"), "w", encoding="utf-8") as f:
        json.dump(ev, f, indent=1, sort_keys=True)
    log(f"{pid} {tier}: obligations {discharged}/{obligations}, evaluations {corr.evaluations}, "
        f"validated {corr.validated}, nontrivial {len(corr.nontrivial)}, violations {violations}, "
        f"{ev['wall_s']}s")
    return rc


def last_error(out):
    i = out.rfind("Error")
    if i < 0:
        return out[-800:]
    j = out.rfind("File ", 0, i)
    return out[(j if j >= 0 else i):][:1200]


def write_replay(pid, obj):
    d = os.path.join(VERIF, "replays", pid)
    os.makedirs(d, exist_ok=True)
    body = json.dumps(obj, indent=1, sort_keys=True, default=str)
    h = hashlib.sha1(body.encode()).hexdigest()[:12]
    p = os.path.join(d, f"{h}.json")
    with open(p, "w", encoding="utf-8") as f:
        f.write(body)
    return os.path.relpath(p, VERIF)


def rng(seed, salt):
    return random.Random(f"{seed}:{salt}")
