#!/bin/bash
# usage: seedrun.sh <Cxx> <n> [check ids...]   -- confirm a seeded change in its scratch worktree, then run checks against /repo with it applied
set -u
ID=$1; N=$2; shift 2
WT=${WTPREFIX:-/tmp/wt_}$ID; S=$WT/SEEDED/$N
cd $WT || exit 2
git checkout -q -- . ; git apply --check $S/patch.diff || { echo "PATCH DOES NOT APPLY"; exit 2; }
git apply $S/patch.diff
echo "== build+tests in worktree"
CARGO_NET_OFFLINE=true CARGO_TARGET_DIR=$WT/target timeout 3000 cargo nextest run --workspace --no-fail-fast --offline --test-threads 8 2>&1 | grep -E "Summary|FAIL|error(\[|:)" | head -8
git checkout -q -- .
echo "== checks against /repo with the patch"
cd /verif
git -C /repo apply $S/patch.diff || { echo "PATCH DOES NOT APPLY TO /repo"; exit 2; }
for c in "$@"; do ./check $c quick 2>&1 | grep -E "VIOLATION|KNOWN|\[check\] C" | cut -c1-260; done
git -C /repo checkout -- .
git -C /repo status --short | head -3
