#!/usr/bin/env python3
"""Regenerates MANIFEST.json from the table below (keeps it schema-valid at all times)."""
import json, os, subprocess

HERE = os.path.dirname(os.path.dirname(os.path.abspath(__file__)))

PROOF = "proof"
# id -> (claimed?, level text, level note, technique, design section)   or (False, reason)
CHECKS = {
    "C01": (True,
            'Coq proofs on the throttle_collect machine over ANY sequence of received events: delivered ++ being-collected equals, in order, the received events that are urgent, empty or passed (each exactly once, nothing else), no batch is empty, rejected/erroring events are never delivered; queue model: received ++ queued is a permutation of sent under any interleaving and tie-breaking. PARTIAL: what the fs/signal/keyboard sources emit is OS behaviour and not modelled; real filesystem operations (create/write/rename/remove, nested directories) under the native and the poll watcher are run through a real Watchexec and the events the filter saw are compared, as multisets, with what the handler received. The model is run on the observed receive sequence of 64 real-time scenarios (14 families incl. identical events and run-time throttle changes, 1-4 producers, capacity 1-4096) against action::worker.',
            'Trusted: Coq kernel, harness (real-time taps through a scripted Filterer and action handler). tokio timeout, std Instant, async-priority-channel are modelled; the model is evaluated on the observed receive instants (cases within 18 ms of a window edge are judged by the monitors only). No axioms.',
            'Rocq/Coq proof by induction over the receive sequence + real-time relational trace validation',
            "DESIGN.md section 5.5 and 6 C01"),
    "C02": (True,
            'Coq proofs: every batch without an urgent event is delivered no earlier than first-receive + throttle (monotone receive times); a window timeout delivers exactly at first + throttle on an ideal clock whatever rejected events arrive meanwhile (they never touch the set or its window); on the ideal clock the delivery is EXACTLY at first + throttle (upper bound: rejected or erroring events never postpone it); an urgent event flushes at once unfiltered; zero throttle gives one batch per event; for a throttle changed at run time (Worker/ThrottleRt.v: events and configuration changes as inputs, value read at the previous loop turn vs value configured now) the machine equals the constant one when nothing changes, conserves events and delivers no earlier than first + a configured value, for any change history. Lower bound checked exactly on real-time observations incl. run-time changes, upper bound with slack.',
            'Trusted: Coq kernel, harness (real-time taps through a scripted Filterer and action handler). tokio timeout, std Instant, async-priority-channel are modelled; the model is evaluated on the observed receive instants (cases within 18 ms of a window edge are judged by the monitors only). No axioms.',
            'Rocq/Coq proof over the throttle machine + exact lower-bound / slack upper-bound monitors on real-time runs',
            "DESIGN.md section 5.5 and 6 C02"),
    "C15": (True,
            'Coq proofs: filter errors are sent exactly once each in order; the error hook passes to the handler exactly the errors up to the first one it turns critical; without elevation the hook keeps running and every error is handled; elevation / critical ends main with that error; erroring events are in no batch and do not disturb the others. Run against the full Watchexec main task with scripted handler behaviours (ignore, elevate, critical, keep-reference, slow) and bursts of 80 errors over an error queue of 2.',
            'Trusted: Coq kernel, harness (real-time taps through a scripted Filterer and action handler). tokio timeout, std Instant, async-priority-channel are modelled; the model is evaluated on the observed receive instants (cases within 18 ms of a window edge are judged by the monitors only). No axioms.',
            'Rocq/Coq proof over the hook model + differential runs of Watchexec::main',
            "DESIGN.md section 5.5 and 6 C15"),
    "C03": (True,
            "Coq proofs, for an arbitrary glob matcher: an ignore file never changes the verdict of a path outside its directory (component-wise, "
            "so test/ vs tests/), the repaired match_path (trie walk by longest byte-prefix key) EQUALS the git-style reference walk for every filter with absolute keys and every absolute path, every deciding pattern (incl. negations) was stored for an ancestor directory of the path, nearest directory "
            "first / last line wins, verdicts invariant under any listing order that keeps per-directory order, add_file = new. The executable model of "
            "IgnoreFilter (trie as longest-byte-prefix lookup, gitignore add_line/strip/matched*, globset token semantics) is run against the real crates "
            "together with the git-style reference walk (3-way diff) on generated trees with prefix-related sibling names; repeated construction "
            "checks determinism. Two genuine defects were found this way and repaired (see known_findings.txt).",
            "Trusted: Coq kernel, harness; globset/ignore/radix_trie semantics are transcribed by hand and sampled. The equality model(code) = reference walk "
            "is proved (C03_match_path_is_spec) and additionally checked by the 3-way correspondence on every run. No axioms.",
            "Rocq/Coq proof (parametric in the matcher) + 3-way differential correspondence (code / model / git-style reference)",
            "DESIGN.md section 6 C03"),
    "C04": (True,
            'Coq invariant proof over the small-step model of the job task: for every label sequence (any sends, any select! choices, any timing), every child behaviour and every spawn/signal/kill fault pattern, and every code variant, the spawned-and-unreaped children are exactly the child the state calls Running, hence at most one; spawns only happen from a state with none. The model is validated against the real start_job task: the event log and ticket times of ~850 histories per run must be among the outcomes the model allows. Also run, judged by log monitors: 2-4 concurrent sender tasks on a multi-threaded runtime, and children that need 3 s to die after SIGKILL.',
            'Trusted: Coq kernel, translator (API table), harness (SimChild through the public spawn hook, paused tokio clock). tokio select!/mpsc/timers, process-wrap and the OS are modelled: select! as a free choice among ready branches, kill = start_kill + wait. The hand-written task model (Job/JobModel.v) is tied to task.rs / priority.rs / state.rs by the membership correspondence. No axioms.',
            'Rocq/Coq invariant proof by induction over labels + membership correspondence on a paused-clock runtime',
            "DESIGN.md section 5.4 and 6 C04"),
    "C05": (True,
            'Coq proofs on a run-level model of the CLI action logic INSTANTIATED WITH THE TABLE OF JOB API CALLS TRANSLATED FROM config.rs (per on-busy arm; signal expression; mode shorthands): start-up run unless --postpone; a change while idle starts the command in every mode; do-nothing changes nothing; signal mode delivers exactly one signal, the configured one (--signal, else --stop-signal, else TERM) and nothing else; restart stops with the stop signal and starts one fresh run; queue: any number of changes during a run give exactly one further run when it ends; freshness invariants for restart (always) and queue (a pending change implies running and queued) over every event sequence; --signal / -r shorthands; non-overlap from the C04 theorem. The decision is taken on the state the in-job query saw; a command that ends before the queued calls are processed is an explicit event (restart still yields a fresh run). PARTIAL: the queue-flag reset window is not modelled. The real CLI handler is run in-process with real child processes on 64 generated + 6 corpus scenarios per run; a racy 40-trial family joins the deep search.',
            'Trusted: Coq kernel, harness (h_cli onbusy: clap parse, make_config, Watchexec::main, real job supervisor, helper child logging start/signals/exit). Real time: change batches and exits closer than 30 ms are not ordered by the observation and skipped. No axioms.',
            'Rocq/Coq proof over a run-level model + in-process differential runs of the real CLI handler with real children',
            "DESIGN.md section 6 C05"),
    "C06": (True,
            'Coq proofs on the job task model: a graceful control signals at once and arms the timer for now+grace without killing; the forced stop is enabled only at or after the deadline and (repaired code) immediately at it, killing and reaping at that instant; no normal control is taken while a timer is armed; the restart marker exists only together with its armed timer (so the restart happens once) for all API-shaped label sequences. Refutation witness for the pinned double restart. Same membership correspondence as C04 plus timing monitors on unambiguous histories.',
            'Trusted: Coq kernel, translator (API table), harness (SimChild through the public spawn hook, paused tokio clock). tokio select!/mpsc/timers, process-wrap and the OS are modelled: select! as a free choice among ready branches, kill = start_kill + wait. The hand-written task model (Job/JobModel.v) is tied to task.rs / priority.rs / state.rs by the membership correspondence. No axioms.',
            'Rocq/Coq proof (step lemmas + invariant over label sequences) + membership correspondence',
            "DESIGN.md section 5.4 and 6 C06"),
    "C07": (True,
            "Coq proof that no ticket is ever lost: for every API-shaped label sequence, child behaviour and fault pattern, each accepted control's flag is raised, or still held (queue, grace timer, wait-for-end list, restart marker), or the job has ended; each control is executed at most once; a raised flag leaves no waiter pending for any number of waiters (Flag model). Safety half only: eventual release relies on C06/C10 and runtime fairness (partial). Refutation witnesses for the three repaired leaks. Correspondence with 1-4 waiter tasks per ticket. Liveness: under an eager runtime every queued control is executed within the grace periods in effect, after which every ticket is resolved except wait-for-end tickets of a running command (Job/JobDrain.v). The last Job handle being dropped is an API-shaped label (a Delete noticed after the urgent/high lanes); concurrent senders on a multi-threaded runtime are judged by monitors.",
            'Trusted: Coq kernel, translator (API table), harness (SimChild through the public spawn hook, paused tokio clock). tokio select!/mpsc/timers, process-wrap and the OS are modelled: select! as a free choice among ready branches, kill = start_kill + wait. The hand-written task model (Job/JobModel.v) is tied to task.rs / priority.rs / state.rs by the membership correspondence. No axioms.',
            'Rocq/Coq invariant proof (flag accounting) + Flag model + membership correspondence',
            "DESIGN.md section 5.4 and 6 C07"),
    "C08": (True,
            'Coq proofs: (job level) from every reachable state of the job task model, after the graceful quit has queued stop_with_signal(sig, grace) and delete, every eager run (any select! choices, any child behaviour, any spawn/signal/kill faults) ends the task no later than now + slack + grace, where slack is the remainder of an armed graceful stop plus the graces of queued graceful controls plus queued async-hook sleeps, and leaves no spawned child unreaped and undropped; the eager scheduler only takes transitions of the model; (worker level) for any number of jobs in any reachable states both quit manners end every job task, main finishes within the largest job bound (abort: at once), no leader survives; the CLI turns an unmapped SIGINT/SIGTERM or EOF with --stdin-quit into a graceful quit with the stop signal and stop timeout. PARTIAL: time is model time under an eager runtime (latency measured, 300 ms margin); other members of a process group are proved gone only when the group was killed. KNOWN FINDING: a group member that ignores the stop signal survives a graceful quit when the leader exits before the grace period ends (witness theorem + replay).',
            'Trusted: Coq kernel, translator (API table), harnesses: h_job (paused clock, simulated children), h_quit (real Watchexec instance, real processes, /proc liveness), h_cli (real CLI handler in-process). Worker-level and process-group semantics are hand-written from worker.rs / process-wrap and checked by the real-process runs. No axioms.',
            'Rocq/Coq termination-bound proof by a decreasing measure and a non-increasing potential over an eager scheduler of the job task model + real-process differential runs',
            "DESIGN.md section 6 C08"),
    "C09": (True,
            'Coq refinement proof: every simple control arm of the detailed task model (start, stop, try-restart, signal, wait-for-end, run, hook set/unset, delete) yields the state, the effect sequence and the ticket resolution of a small reference machine written from the rustdoc, for every state, environment and fault; named corollaries (start no-op while running, restart fresh, hook once per spawn, ...). Graceful controls are covered by C06/C07. The implementation is compared with the model (membership) and, for settled simple histories, with an independent sequential reference.',
            'Trusted: Coq kernel, translator (API table), harness (SimChild through the public spawn hook, paused tokio clock). tokio select!/mpsc/timers, process-wrap and the OS are modelled: select! as a free choice among ready branches, kill = start_kill + wait. The hand-written task model (Job/JobModel.v) is tied to task.rs / priority.rs / state.rs by the membership correspondence. No axioms.',
            'Rocq/Coq refinement to a reference machine + differential comparison against two references',
            "DESIGN.md section 5.4 and 6 C09"),
    "C10": (True,
            'Coq proofs: accepted = executed ++ queued, per priority and in order, for every label sequence (any number of senders), so controls run in send order, at most once, and a taken control implies all earlier ones of that priority; at every decision of the repaired task urgent beats high beats normal and normal waits for the grace timer; API priority table translated from job.rs. Refutation witness for the pinned parked select!. Burst-heavy correspondence. Any control at any priority reaches the real task through the hook Job::verif_send: raw-priority controls are part of all job histories and a lanes family (bursts of run() controls in the three lanes while the task is parked, busy or holds an armed timer) is checked against the lane order.',
            'Trusted: Coq kernel, translator (API table), harness (SimChild through the public spawn hook, paused tokio clock). tokio select!/mpsc/timers, process-wrap and the OS are modelled: select! as a free choice among ready branches, kill = start_kill + wait. The hand-written task model (Job/JobModel.v) is tied to task.rs / priority.rs / state.rs by the membership correspondence. No axioms.',
            'Rocq/Coq invariant proof (queue bookkeeping) + decision lemma + membership correspondence',
            "DESIGN.md section 5.4 and 6 C10"),
    "C11": (True,
            "Coq proofs, for an arbitrary glob matcher: GlobsetFilterer::check_event equals the property's rule written as a boolean formula; "
            "no-path events and whitelisted files pass; an ignore match overrides any filter; the empty configuration passes everything; inserting "
            "a non-negated ignore pattern at any position never turns a rejection into a pass; the CLI layer rejects exactly the disallowed fs-event "
            "kinds (normalisation table translated from the source, total over EventKind). Model and formula are both run against the real "
            "GlobsetFilterer on generated configurations and events.",
            "Trusted: Coq kernel, translator, harness; globset/ignore semantics and Path::extension transcribed and sampled. No axioms.",
            "Rocq/Coq proof (parametric in the matcher) + differential correspondence (code / model / formula)",
            "DESIGN.md section 6 C11"),
    "C12": (True,
            "Coq proofs over all 64 flag combinations and arbitrary lists of discovered project / global files and explicit --ignore-file entries: "
            "explicit files always reach the filterer at global scope; a discovered file is selected under a flag set iff it is selected with no flags "
            "and the flag set does not name its class (exact membership characterisation of dirs::ignores + the no-discover short-circuit); built-in "
            "defaults removed exactly by --no-default-ignore / --ignore-nothing (expansion translated from the source). Exhaustive 64 x 7 differential "
            "run of the real CLI code (clap parse, dirs::ignores, WatchexecFilterer) in a sandbox project. One genuine defect found and repaired.",
            "Trusted: Coq kernel, translator, harness; discovery results are inputs of the model; clap/gix_config exercised only. No axioms.",
            "Rocq/Coq proof (all flag sets x arbitrary source lists) + exhaustive differential correspondence over flags x explicit options",
            "DESIGN.md section 6 C12"),
    "C13": (True,
            "Coq proofs on the fs-worker model: every turn of the repaired loop keeps 'own record = registered with the live watcher' for any three configuration reads (changes in the middle of a turn) and any failures; one turn over a stable configuration registers exactly the configured (path, mode) entries that were registered or whose attempt succeeds, with the configured kind, and an empty set releases the watcher; a blocked worker has started a turn after the latest change (change counter) for every interleaving; one error per failing attempt. Refutation witnesses for both repaired defects. PARTIAL: real notify backends are replaced by a recording watcher through the cfg hook. Changes are issued idle, from inside the n-th watch/unwatch call, and in rapid succession. Lost wake-ups: the order of the synchronisation operations of ConfigWatched::next and Config::signal_change is translated from config.rs and, for every interleaving of exactly that program with any number of concurrent signal_change calls, a worker asleep in next() with no notification in flight has seen the latest change (Fs/ConfigRace.v; the load-before-register order is refuted by a witness). Reconfiguring from within a handler: Changeable / ChangeableFn are modelled (Fs/Changeable.v) with the call mode (function obtained, lock released, then called) and the clone mode (clones share the slot) translated from changeable.rs; proved: no script of replace / clone / nested calls deadlocks, a replacement from within a call leaves that invocation alone and is seen by the next call and through every clone; the two variants (call under the lock, snapshot clone) are refuted; random scripts run against the real ChangeableFn and the model.",
            'Trusted: Coq kernel, harness (recording notify::Watcher through the watchexec_verif factory hook). tokio Notify / RwLock semantics and the notify contract are modelled. No axioms.',
            'Rocq/Coq invariant + convergence proof over the worker turn + re-entrant differential harness',
            "DESIGN.md section 6 C13"),
    "C14": (True,
            "Coq proofs about the DirTourist stack-machine model (any file system listing with absolute, distinct paths; any listing order, watch list, "
            "ignore-file contents): every returned file is an explicit / origin-level file or the non-empty regular .ignore/.gitignore/.hgignore of a "
            "visited directory, tagged with that directory and project type, from a directory related to the explicit watches; pruning is permanent "
            "(nothing is returned from a skipped directory or below it, from every reachable state); VCS metadata directories are never entered; "
            "COMPLETENESS: every directory reachable from the origin through directories is visited (all its ignore files returned) or lies in / below "
            "a pruned directory, and a directory is pruned only as a VCS metadata directory, as unrelated to the watches, or because the filter of a walk "
            "state in which every directory above it had been visited ignores it (never the origin itself); the walk's filter is the initial filter plus "
            "the discovered files in order; TERMINATION: the stack runs empty within the fuel from_origin provides; EXACTNESS: the result is the explicit / "
            "origin-level files plus the ignore files of every open reachable directory, described without the walk; ORDER INDEPENDENCE: any permutation "
            "of the listing gives the same set of files. The model is also run under two listing orders against ignore_files::from_origin on generated "
            "trees. A closure check evaluated in Coq on "
            "the implementation's own result names missing / extra files. Four genuine defects found and repaired (nested VCS directories entered; negated "
            "pattern on a parent re-including a VCS directory; child checked before its parent's own ignore files were loaded; origin pruned by a lone *).",
            "Trusted: Coq kernel, harness; tokio fs calls, gix_config (core.excludesFile is a model input), the IgnoreFilter model of C03. No axioms.",
            "Rocq/Coq invariant, completeness, termination, exactness and order-independence proofs over the stack machine + differential correspondence + closure check",
            "DESIGN.md section 6 C14"),
    "C16": (True,
            "Coq proofs: Debug-name table round trip over the source-translated fs-kind family (all 41 kinds), Tag->SerdeTag->Tag identity "
            "over the full integer ranges, SerdeTag<->JSON-tree and whole-event round trips (any tags, any sorted metadata map), "
            "field/kind/value names equal to the documented ones, and totality: any field combination yields a tag of its own kind "
            "or Unknown. The model's encoder and decoder are run against serde on generated events and on mutated/malformed tag objects.",
            "Trusted: Coq kernel, translator, harness; serde derive + serde_json mechanics are modelled at the JSON-tree level and sampled "
            "(incl. 200+ error cases per run). No axioms.",
            "Rocq/Coq proof over source-translated enums and tables + differential correspondence on generated and malformed JSON",
            "DESIGN.md section 6 C16"),
    "C17": (True,
            "Coq proofs for all batches: every (path, kind) of every event is listed in the variable of the kind's category as an entry whose "
            "join with the common path is the path; nothing else is listed; entries strictly byte-sorted; the common path is the longest common "
            "directory of the trunks and a prefix of every listed path; path-less / kind-less events contribute nothing; line format lists "
            "pairs per event in order. Category and line-prefix tables are translated from the source; the model is run against "
            "summarise_events_to_env and events_to_simple_format on generated batches.",
            "Trusted: Coq kernel, translator, harness; std::path component semantics on normalised path strings, HashSet/HashMap as sets. No axioms.",
            "Rocq/Coq proof (invariants over lists) + differential correspondence + independent Python monitors on implementation output",
            "DESIGN.md section 6 C17"),
    "C18": (True,
            "Coq proofs of the argv construction (exec: program and arguments verbatim, one element each; shell: prog, options, program "
            "option, command, extra args in that order), wrapper choice, and the CLI's interpretation (no-shell verbatim, shell string split "
            "on ASCII whitespace, single-space join). PARTIAL: the OS half (execve byte-for-byte delivery, setsid/setpgid, env/cwd inheritance) "
            "is validated by spawning a reporting helper through a real Job on generated hostile argument vectors, not proved.",
            "Trusted: Coq kernel, harness; std::process::Command/execve, process-wrap wrappers and the kernel are outside the model and only sampled. No axioms.",
            "Rocq/Coq proof of the argv/wrapper/CLI logic + differential runs with real child processes",
            "DESIGN.md section 6 C18"),
    "C19": (True,
            "Coq proofs over source-translated signal tables: display/parse round trip for every signal, case-insensitivity for all strings, agreement of the three spellings, Windows-name precedence, POSIX numbers, wait-status decoding for all codes and signals, the --map-signal splitter; model run against the real crates exhaustively over numbers, names in all case patterns and wait statuses.",
            "Trusted: Coq kernel, translator, harness; nix signal table, i32::from_str, to_ascii_uppercase, ExitStatusExt are modelled (nix table compared exhaustively each run). No axioms.",
            "Rocq/Coq proof over source-translated tables + exhaustive differential correspondence",
            "DESIGN.md section 6 C19"),
    "C20": (True,
            "Coq proof, for every file system, start path and listing, that origins() returns exactly the marked "
            "members of the ancestor chain, that types() is exactly the marker table, that the table is the documented one, "
            "and that every ProjectType is vcs xor soft; tables are re-translated from the Rust source on every run and the "
            "hand-written walk model is run against the real crate on generated directory chains.",
            "Trusted: Coq kernel, tools/translate.py (tables), harness+differ, tokio read_dir/file_type and Path::parent "
            "semantics (modelled). No axioms.",
            "Rocq/Coq proof over a source-translated table + differential correspondence (coqc vm_compute vs real crate)",
            "DESIGN.md section 6 C20"),
}

ALL = [f"C{i:02d}" for i in range(1, 21)]


def main():
    hooks = []
    try:
        out = subprocess.run(["git", "-C", "/repo", "log", "--format=%h %s"], capture_output=True, text=True).stdout
        hooks = [l.split()[0] for l in out.splitlines() if l.split(" ", 1)[1].startswith("verif-hook:")]
    except Exception:
        pass
    checks, na = [], []
    for pid in ALL:
        e = CHECKS.get(pid)
        if not e or not e[0]:
            na.append({"property_id": pid, "reason": (e[1] if e else "check not built yet in this development; see DESIGN.md section 11 for the order of work")})
            continue
        _, text, note, tech, ref = e
        checks.append({
            "property_id": pid,
            "quick_cmd": f"./check {pid} quick",
            "thorough_cmd": f"./check {pid} thorough",
            "evidence_file": f"evidence/{pid}.json",
            "replay_cmd_template": "./check replay {path}",
            "engine": "coq-proof+correspondence",
            "level_claimed": {"category": PROOF, "text": text, "design_ref": ref},
            "level_note": note,
            "technique": tech,
        })
    m = {
        "version": 1,
        "setup_cmd": "./check setup",
        "hooks": {
            "guard": "watchexec_verif",
            "enable": "RUSTFLAGS='--cfg watchexec_verif' (set by ./check when it builds harness/ against /repo's crates)",
            "baseline_off_cmd": "cd /repo && cargo nextest run --workspace --no-fail-fast --tool-config-file pb:/w/lib/nextest.toml --profile pb --test-threads 8 --offline || cargo test --workspace --no-fail-fast --offline",
            "source_commits": hooks,
            "add_only": True,
        },
        "engines": [{
            "name": "coq-proof+correspondence",
            "path": "check",
            "serves_properties": [c["property_id"] for c in checks],
            "kind_free_text": "Coq 8.16 models + theorems (coq/), Rust-table translator (tools/translate.py), "
                              "correspondence harness (harness/) diffed against coqc vm_compute evaluation of the model, "
                              "Coq monitors evaluated on implementation observations for the failing-input search",
        }],
        "checks": checks,
        "not_applicable": na,
        "notes": "All checks: ./check <id> quick|thorough. See DESIGN.md. known_findings.txt lists fixed defects and findings.",
    }
    with open(os.path.join(HERE, "MANIFEST.json"), "w") as f:
        json.dump(m, f, indent=1)
    print(f"MANIFEST: {len(checks)} checks, {len(na)} not_applicable")


if __name__ == "__main__":
    main()
