"""C02 -- debounce: one action per window, never before the window has elapsed."""
from vlib import *
from props.workercommon import *
from props.c01 import C01, worker_check


def monitors_c02(case, seq, batches, filt, sent, mb, sets=()):
    out = []
    evs = {e["id"]: e for e in case["events"]}
    th = case["throttle_ms"] * 1000
    if sets:
        return monitors_runtime(case, seq, batches, evs, th, sets)
    # receive instants per id in order (identical events share an id)
    rq = {}
    for t, i in seq:
        rq.setdefault(i, []).append(t)
    R = {}
    prev_end = 0
    for k, (ts, ids, te) in enumerate(batches):
        if not ids:
            continue
        urgent = any(evs[i].get("prio") == "urgent" for i in ids)
        times = [rq[i].pop(0) if rq.get(i) else 0 for i in ids]
        first = times[0]
        R = dict(zip(ids, times))        # (last occurrence of an id within this batch)
        if not urgent and ts + 50 < first + th:          # 50 us: rounding of the stamps
            out.append(("C02_lower_bound: batch delivered before the throttle duration had elapsed since its first event",
                        {"first_received_us": first, "delivered_us": ts, "throttle_us": th, "ids": ids}))
        bound = max(first + th, prev_end) if not urgent else max(R.get(ids[-1], 0), prev_end)
        if ts > bound + SLACK_US:
            out.append(("C02_no_starvation: batch delivered long after its window ended",
                        {"first_received_us": first, "delivered_us": ts, "bound_us": bound, "ids": ids}))
        if urgent and evs[ids[-1]].get("prio") != "urgent":
            out.append(("C02_urgent_flush: an urgent event did not close its batch", ids))
        if th == 0 and len(ids) != 1:
            out.append(("C02_zero_throttle: several events in one batch with a zero throttle", ids))
        prev_end = te or ts
    # every urgent event that was sent is in some batch (it by-passes the filterer whatever that would say, and flushes at once)
    delivered = {i for _, ids, _ in batches for i in ids}
    for e in case["events"]:
        if e.get("prio") == "urgent" and sent.get(e["id"], {}).get("ok", False) and e["id"] not in delivered:
            out.append(("C02_urgent_flush: an urgent event was never handed to the action handler", e))
    return out


def monitors_runtime(case, seq, batches, evs, th0, sets):
    """throttle changed at run time: a batch without an urgent event is delivered no earlier than first + the throttle in force
    at the moment of delivery (decided when no change is within the ambiguity margin of the delivery)"""
    out = []
    rq = {}
    for t, i in seq:
        rq.setdefault(i, []).append(t)
    for ts, ids, te in batches:
        times = [rq[i].pop(0) if rq.get(i) else 0 for i in ids]
        if not ids or any(evs[i].get("prio") == "urgent" for i in ids):
            continue
        first = times[0]
        if any(abs(T - ts) < MARGIN_US for T, _ in sets):
            continue
        cur = th0
        for T, v in sets:
            if T <= ts:
                cur = v
        if ts + 50 < first + cur:
            out.append(("C02_lower_bound_runtime: batch delivered before the throttle in force had elapsed since its first event",
                        {"first_received_us": first, "delivered_us": ts, "throttle_in_force_us": cur, "changes": list(sets), "ids": ids}))
    return out


class C02(C01):
    pid = "C02"

    def correspond(self, tier, seed, deep=False):
        return worker_check(self, "thorough" if deep else tier, seed, "c02")


PROP = C02()
