"""C18 -- commands are spawned with exactly the configured program and arguments."""
import json, os, re
from vlib import *

ARGS = ["", " ", "a b", "a  b", "'q'", "\"dq\"", "$HOME", "${X}", "*", "?.txt", "[a-z]", "a\nb", "\t", "é", "日本語", "𝄞",
        "-c", "--", "-", ";", "|", "&&", "`id`", "$(id)", "\\", "a\\ b", "~", "#x", "!", "x=y", "%s", "a'b\"c", " lead", "trail "]


def hx(s):
    return s.encode().hex()


class C18(Prop):
    pid = "C18"
    generators = []
    coq_targets = ["Run/EvalC18.vo"]
    bins = ["h_codec", "h_cli", "simchild", "wx_cli"]
    level = "proof"
    trusted = [
        "partial: the proof covers the argv construction, wrapper choice and CLI interpretation; that execve delivers the "
        "argv byte for byte, that setsid/setpgid place the child, and that env/cwd set by the spawn hook reach the child is "
        "OS + process-wrap + tokio behaviour, validated by spawning a reporting helper through a real Job (sampled, not proved)",
        "NUL bytes in arguments are rejected by std::process::Command and are outside the domain",
        "observation: --shell with a whitespace-only value panics in interpret_command_args (split_first().unwrap()); the "
        "model predicts it (IPanic); not a C18 clause",
    ]

    def correspond(self, tier, seed, deep=False):
        c = Corr()
        c.rule = ("generated argument vectors over a list of shell-hostile strings (empty, spaces, quotes, $, *, newline, "
                  "multi-byte, option-like) for exec and shell programs with 0-3 shell options, with/without program option, "
                  "0-3 extra args, crossed with plain/grouped/session/sigmask options and with/without hook env+cwd changes; "
                  "each spawned through a real Job with a reporting helper. CLI: generated watchexec argv with -n / --shell "
                  "variants / $SHELL / --wrap-process. non-trivial = distinct cases containing at least one hostile argument")
        r = rng(seed, "c18")
        n_spawn = 120 if tier == "quick" else 2000
        n_cli = 200 if tier == "quick" else 3000
        cases = []
        for i in range(n_spawn):
            kind = r.choice(["exec", "shell"])
            mode = r.choice(["plain", "group", "session"])
            case = {"id": i, "kind": kind, "args": [r.choice(ARGS) for _ in range(r.randint(0, 4))],
                    "grouped": mode == "group" or (mode == "session" and r.random() < 0.5), "session": mode == "session",
                    "sigmask": r.random() < 0.3, "hook": r.random() < 0.6, "mark": r.choice(["m", "x y", "é", ""])}
            # how the reported child came to be spawned: by start(), or as the replacement of a restart of every flavour
            case["path"] = "start" if r.random() < 0.75 else r.choice(["restart", "try_restart", "restart_with_signal", "try_restart_with_signal"])
            if kind == "shell":
                case["options"] = [r.choice(ARGS[1:]) for _ in range(r.randint(0, 3))]
                case["progopt"] = r.choice([None, "-c", "/C", "--command"])
                case["command"] = " ".join(r.choice(ARGS) for _ in range(r.randint(1, 3)))
            cases.append(case)
        cli = []
        for i in range(n_cli):
            prog = [r.choice(["echo", "ls", "/bin/true"] + ARGS[2:12])] + [r.choice(ARGS) for _ in range(r.randint(0, 3))]
            prog = [p for p in prog if not p.startswith("-")] or ["echo"]
            mode = r.random()
            argv = ["watchexec"]
            no_shell, shell_opt = False, None
            if mode < 0.25:
                argv.append(r.choice(["-n", "--shell=none"]))
                if argv[-1] == "-n":
                    no_shell = True
                else:
                    shell_opt = "none"
            elif mode < 0.8:
                shell_opt = r.choice(["bash", "bash -e", "zsh  -f\t-x", "sh", "", " ", "none", "/bin/my sh", "nu -n", "NONE", " none", "sh\n-x"])
                argv.append("--shell=" + shell_opt)
            wrap = r.choice([None, "group", "session", "none"])
            if wrap:
                argv.append("--wrap-process=" + wrap)
            argv += ["--"] + prog
            cli.append({"argv": argv, "shell_env": r.choice([None, None, "fish", "/bin/zsh -l", ""]),
                        "no_shell": no_shell, "shell_opt": shell_opt, "wrap": wrap or "group", "prog": prog})
        d = scratch("c18")
        write_jsonl(os.path.join(d, "spawn.jsonl"), cases)
        write_jsonl(os.path.join(d, "cli.jsonl"), cli)
        rc1, o1, out1 = run_harness("h_codec", ["spawn-argv", os.path.join(d, "spawn.jsonl"), os.path.join(d, "w")], timeout=900)
        rc2, o2, out2 = run_harness("h_cli", ["interpret", os.path.join(d, "cli.jsonl")])
        if rc1 or rc2 or len(o1) != len(cases) or len(o2) != len(cli):
            c.errors.append(f"harness failed: {(out1 + out2)[-800:]}")
            return c
        helper = bytes.fromhex(o1[0]["helper"]).decode() if o1 else ""

        def prog_term(case):
            args = coq_list([coq_term_string(a) for a in case["args"]])
            if case["kind"] == "exec":
                return f"(Exec {coq_term_string(helper)} {args})"
            po = f"(Some {coq_term_string(case['progopt'])})" if case["progopt"] is not None else "None"
            opts = coq_list([coq_term_string(a) for a in case["options"]])
            return f"(ShellP (mkShell {coq_term_string(helper)} {opts} {po}) {coq_term_string(case['command'])} {args})"

        def opt(s):
            return f"(Some {coq_term_string(s)})" if s is not None else "None"
        terms = [f"eval_argv {prog_term(x)}" for x in cases]
        terms += [f"eval_wrappers {str(x['grouped']).lower()} {str(x['session']).lower()} {str(x['sigmask']).lower()}" for x in cases]
        terms += [f"eval_interp {str(x['no_shell']).lower()} {opt(x['shell_opt'])} {opt(x['shell_env'])} "
                  f"{ {'group': 0, 'session': 1, 'none': 2}[x['wrap']]}%N {coq_list([coq_term_string(p) for p in x['prog']])}" for x in cli]
        res, err = coq_eval("c18", ["Cli.Argv", "Run.EvalC18"], terms)
        if err:
            c.errors.append("model evaluation failed: " + err[-800:])
            return c
        n = len(cases)
        for i, (case, o) in enumerate(zip(cases, o1)):
            c.evaluations += 1
            rep = o["report"]
            c.count(case["kind"])
            c.count("spawned-by=" + case["path"])
            if not rep:
                c.disagreements.append({"case": case, "impl": o, "model": res[i], "what": "child did not report (spawn hook env not visible?)"})
                c.failing.append({"case": case, "impl": o, "clause": "C18: environment set by the spawn hook not visible to the child (no report)"})
                continue
            impl = "[" + ",".join(rep["argv"]) + "]"
            ws = res[n + i]
            ok = impl == res[i]
            if not ok:
                c.disagreements.append({"case": case, "impl": impl, "model": res[i], "what": "argv"})
                c.failing.append({"case": case, "impl": impl, "expected": res[i], "clause": "C18_exec_verbatim / C18_shell_order: argv seen by the child differs"})
            own_group = rep["pgid"] == rep["pid"]
            own_sess = rep["sid"] == rep["pid"]
            want_group = "group" in ws or "session" in ws
            want_sess = "session" in ws
            if own_group != want_group or own_sess != want_sess:
                ok = False
                c.disagreements.append({"case": case, "impl": {"pgid": rep["pgid"], "sid": rep["sid"], "pid": rep["pid"]}, "model": ws, "what": "group/session"})
                c.failing.append({"case": case, "impl": rep, "expected": ws, "clause": "C18_wrapper_choice: child not in the configured group/session"})
            if not want_group and rep["pgid"] != o["harness_pgid"]:
                ok = False
                c.disagreements.append({"case": case, "impl": rep, "model": "inherit pgid", "what": "plain spawn changed group"})
            if case["hook"] and (rep["cwd"] != o["cwd"] or rep["mark"] != case["mark"]):
                ok = False
                c.failing.append({"case": case, "impl": rep, "clause": "C18: env / cwd changes of the spawn hook not visible to the child"})
            c.validated += ok
            if any(a in ARGS[:30] for a in case["args"] + case.get("options", [])):
                c.nontrivial.add(json.dumps(case, sort_keys=True))
            if len(c.samples) < 2:
                c.samples.append({"case": case, "impl_argv_hex": impl, "model": res[i], "pgid_sid_pid": [rep["pgid"], rep["sid"], rep["pid"]], "wrappers": ws})
        for x, o, m in zip(cli, o2, res[2 * n:]):
            c.evaluations += 1
            c.count("cli")
            impl = o["obs"]
            if impl.startswith("ERR:") :
                impl = "ERR:empty-shell" if "empty" in impl.lower() or "shell" in impl.lower() else impl
            if impl == m:
                c.validated += 1
            else:
                c.disagreements.append({"case": x["argv"], "shell_env": x["shell_env"], "impl": o["obs"], "model": m, "what": "cli interpret"})
            c.nontrivial.add(json.dumps([x["argv"], x["shell_env"]]))
            if x["no_shell"] and impl.startswith("["):
                want = "[" + ",".join(hx(p) for p in x["prog"]) + "] exec"
                if not impl.startswith(want):
                    c.failing.append({"case": x["argv"], "impl": o["obs"], "expected": want, "clause": "C18_cli_noshell_verbatim"})
            if impl.startswith("["):
                # the process placement follows --wrap-process alone
                want_gs = {"none": "g=F s=F", "group": "g=T s=F", "session": "g=F s=T"}[x["wrap"]]
                if not impl.endswith(want_gs):
                    c.failing.append({"case": x["argv"], "impl": o["obs"], "expected": want_gs,
                                      "clause": "C18_cli_wrap: --wrap-process does not decide the group / session placement of the command"})
                # a shell description is split into words at any run of ASCII whitespace: program first, then its options
                desc = x["shell_opt"] if not x["no_shell"] and x["shell_opt"] is not None else (x["shell_env"] if not x["no_shell"] and x["shell_opt"] is None else None)
                if desc is not None and desc.strip(" \t\n\r\x0b\x0c") and desc.strip().lower() != "none" and " shell " in impl + " ":
                    words = [w for w in re.split(r"[ \t\n\r\x0b\x0c]+", desc) if w]
                    got = impl[1:impl.index("]")].split(",")
                    if got[:len(words)] != [hx(w) for w in words] or (len(got) > len(words) and got[len(words)] == ""):
                        c.failing.append({"case": x["argv"], "shell_env": x["shell_env"], "impl": o["obs"], "expected": words,
                                          "clause": "C18_cli_shell_words: the shell description is not split into program and options at its whitespace"})
            if len(c.samples) < 4:
                c.samples.append({"case": x["argv"], "impl": o["obs"], "model": m})
        self.e2e(c, r)
        return c

    def e2e(self, c, r):
        """the command-line program itself (crates/cli run() built as harness bin wx_cli), run once (-1) with the helper child as the command:
        the words after `--` reach the child verbatim -- they pass through the process's real argument vector and the argfile expansion,
        which must leave everything after `--` alone"""
        import subprocess
        helper = harness_bin("simchild")
        words_sets = [["@user", "@", "a@b", "@@x"], ["", "x  y", "@"], ["--not-an-option", "-n", "--", "@f"], ["é", "$HOME", "*", "@'q'"]]
        words_sets += [[r.choice(ARGS + ["@a", "@", "@@"]) for _ in range(r.randint(1, 4))] for _ in range(4)]
        d = scratch("c18e2e")
        for k, words in enumerate(words_sets):
            for mode in ("noshell", "shell"):
                out = os.path.join(d, f"out{k}{mode}.log")
                if os.path.exists(out):
                    os.remove(out)
                env = dict(os.environ, WXH_OUT=out, WXH_MODE="run", WXH_SCRIPT="exit_after=5")
                argv = [harness_bin("wx_cli"), "-1", "--ignore-nothing"] + (["-n"] if mode == "noshell" else ["--shell=" + helper]) + ["--"] + \
                       ([helper] if mode == "noshell" else []) + words
                if mode == "shell" and any(w == "" for w in words[:1]):
                    continue
                want = [hx(w) for w in words] if mode == "noshell" else [hx("-c"), hx(" ".join(words))]
                got, diag = None, ""
                for attempt in range(3):          # a whole program started from scratch: a run that disagrees is repeated, a change in the code disagrees every time
                    if os.path.exists(out):
                        os.remove(out)
                    try:
                        pr = subprocess.run(argv, env=env, cwd=d, stdin=subprocess.DEVNULL, stdout=subprocess.DEVNULL, stderr=subprocess.PIPE, timeout=60, text=True, errors="replace")
                        diag = f"rc={pr.returncode} stderr={pr.stderr[-300:]}"
                    except subprocess.TimeoutExpired:
                        diag = "timeout"
                    got = None
                    if os.path.exists(out):
                        for line in open(out):
                            try:
                                o = json.loads(line)
                            except ValueError:
                                continue
                            if o.get("ev") == "start":
                                got = o["argv"][1:]
                                break
                    if got == want:
                        break
                c.evaluations += 1
                c.count("e2e:" + mode)
                if got == want:
                    c.validated += 1
                    c.nontrivial.add(json.dumps([mode, words]))
                else:
                    c.failing.append({"case": {"mode": mode, "words_after_double_dash": words}, "impl": got, "diagnostic": diag, "expected": want,
                                      "clause": "C18_cli_noshell_verbatim / C18_shell_order (end to end): the words after `--` did not reach the command as given"})


PROP = C18()
