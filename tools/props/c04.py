"""C04 -- a job never has two live processes at once."""
from vlib import *
from props.jobcommon import *


def monitor(case, o):
    live, out = set(), []
    for t, ev, a in parse_log(o):
        if ev == "spawn":
            if live:
                out.append(("C04_at_most_one_live: spawn while another child is unreaped", f"t={t} live={sorted(live)} new={a[0]}"))
            live.add(a[0])
        elif ev == "reap":
            live.discard(a[0])
        # (a dropped child handle -- kill_on_drop, exit status never collected -- is NOT reaped: the property asks for the
        #  exit status to have been collected before the next spawn; the Coq `live_of` ignores drops in the same way)
    return out


monitor.raw_ok = True      # reads the event log only, not the API names


class C04(Prop):
    pid = "C04"
    generators = ["signals", "jobapi"]
    coq_targets = ["Run/EvalJob.vo"]
    bins = ["h_job"]
    trusted = [
        "modelled, not verified: tokio (select! = free choice among ready branches, unbounded mpsc FIFO, paused-clock timers), "
        "process-wrap (kill = start_kill + wait; KillOnDrop), the child process (simulated through the public spawn hook: scripted "
        "exit / reaction / fault behaviour); multi-thread memory ordering of the channels is trusted",
        "the job model is hand-written (Job/JobModel.v) and tied to job/task.rs, priority.rs, state.rs by the membership "
        "correspondence of h_job; the API->controls table is translated from job.rs",
    ]

    def correspond(self, tier, seed, deep=False):
        return job_check(self, "thorough" if deep else tier, seed, monitor)


PROP = C04()
