"""C04 -- a job never has two live processes at once."""
from vlib import *
from props.jobcommon import *


def monitor(case, o):
    live, out = set(), []
    for t, ev, a in parse_log(o):
        if ev == "spawn":
            if live:
                out.append(("C04_at_most_one_live: spawn while another child is unreaped", f"t={t} live={sorted(live)} new={a[0]}"))
            live.add(a[0])
        elif ev == "reap":
            live.discard(a[0])
        # (a dropped child handle -- kill_on_drop, exit status never collected -- is NOT reaped: the property asks for the
        #  exit status to have been collected before the next spawn; the Coq `live_of` ignores drops in the same way)
    return out


monitor.raw_ok = True      # reads the event log only, not the API names


class C04(Prop):
    pid = "C04"
    generators = ["signals", "jobapi"]
    coq_targets = ["Run/EvalJob.vo"]
    bins = ["h_job"]
    trusted = [
        "modelled, not verified: tokio (select! = free choice among ready branches, unbounded mpsc FIFO, paused-clock timers), "
        "process-wrap (kill = start_kill + wait; KillOnDrop), the child process (simulated through the public spawn hook: scripted "
        "exit / reaction / fault behaviour); multi-thread memory ordering of the channels is trusted",
        "the job model is hand-written (Job/JobModel.v) and tied to job/task.rs, priority.rs, state.rs by the membership "
        "correspondence of h_job; the API->controls table is translated from job.rs",
    ]

    def correspond(self, tier, seed, deep=False):
        # slow-death family: the child needs 3 s to die after SIGKILL (a process stuck in the kernel).  The model assumes that a
        # killed child is reaped in the same step, so these histories are judged by the log monitor alone: whatever the
        # controls, no spawn may happen while the killed child's exit status has not been collected.
        import itertools
        slow = []
        enders = [{"op": "stop"}, {"op": "restart"}, {"op": "try_restart"}, {"op": "signal", "sig": "ForceStop"},
                  {"op": "stop_with_signal", "sig": "Terminate", "grace": 50}, {"op": "restart_with_signal", "sig": "Terminate", "grace": 50},
                  {"op": "try_restart_with_signal", "sig": "Terminate", "grace": 50}]
        starters = [{"op": "start"}, {"op": "restart"}, {"op": "try_restart"}]
        for a, b in itertools.product(enders, starters):
            for gap, kd in ((0, 3000), (100, 3000), (2500, 3000), (4000, 3000), (0, 45000), (20000, 45000)):
                ops = [{"at": 0, "op": "start", "yield": True}, dict(a, at=50, **{"yield": True}), dict(b, at=50 + gap, **{"yield": True})]
                child = {"self_exit": None, "ignore_all": True, "kill_delay": kd}
                slow.append({"id": 0, "monitor_only": "slow-death", "script": {"children": [child, dict(child)], "spawn_fail": [], "signal_fail": [], "kill_fail": []},
                             "ops": ops, "waiters": 1, "tail": 8000 + kd})
        # wait-fault family: collecting the exit status of the child fails once (the status is still there to collect).  Outside the
        # model (it has no failing wait), judged by the log monitor: nothing is spawned while that child is un-reaped
        for wf in ([0], [1], [0, 1]):
            for c0 in ({"self_exit": 30, "ignore_all": True}, {"self_exit": None, "react": [[15, 10]], "default": None}, {"self_exit": None, "ignore_all": True}):
                for seq in (["start", "start"], ["stop", "start"], ["restart"], ["try_restart", "start"], ["stop_with_signal", "start"], ["start", "restart"]):
                    ops = [{"at": 0, "op": "start", "yield": True}]
                    for k, nm in enumerate(seq):
                        op = {"at": 60 + 40 * k, "op": nm, "yield": True}
                        if "with_signal" in nm:
                            op.update(sig="Terminate", grace=20)
                        ops.append(op)
                    slow.append({"id": 0, "monitor_only": "wait-fault", "script": {"children": [dict(c0), dict(c0), dict(c0)], "spawn_fail": [], "signal_fail": [], "kill_fail": [], "wait_fail": wf},
                                 "ops": ops, "waiters": 1, "tail": 1000})
        # a signal call that fails with "no such process" (the child has left its group, or a wrapper says so): the child handle is still
        # there to be reaped -- nothing is spawned over it
        for nm in ("try_restart_with_signal", "restart_with_signal", "stop_with_signal", "signal"):
            for c0 in ({"self_exit": None, "ignore_all": True}, {"self_exit": 200, "ignore_all": True}):
                op1 = {"at": 40, "op": nm, "sig": "Terminate", "yield": True}
                if "with_signal" in nm:
                    op1["grace"] = 30
                ops = [{"at": 0, "op": "start", "yield": True}, op1, {"at": 120, "op": "start", "yield": True}, {"at": 160, "op": "try_restart", "yield": True}]
                slow.append({"id": 0, "monitor_only": "signal-esrch", "script": {"children": [dict(c0), dict(c0), dict(c0)], "spawn_fail": [], "signal_fail": [0], "kill_fail": [], "signal_errno": 3},
                             "ops": ops, "waiters": 1, "tail": 1000})
        c = job_check(self, "thorough" if deep else tier, seed, monitor, slow)
        if not c.errors:
            mt_check(c, "c04", seed, 24 if tier == "quick" and not deep else 300, mt_monitor_overlap)
        return c


PROP = C04()
