"""Shared machinery of the job-supervisor properties (C04 C06 C07 C09 C10): history generation, the
h_job run, model exploration in Coq, membership diff, and trace parsing for the monitors."""
import json, os, re
from vlib import *
import translate

SIGNUM = {"Hangup": 1, "Interrupt": 2, "Quit": 3, "ForceStop": 9, "User1": 10, "User2": 12, "Terminate": 15}
API_DEFAULT = {"run": ("Normal", ["SyncFunc"]), "run_async": ("Normal", ["AsyncFunc"]), "set_hook": ("Normal", ["SetSyncSpawnHook"]),
               "unset_hook": ("Normal", ["SetSyncSpawnHook"])}
PRIO = {"Normal": "PNormal", "High": "PHigh", "Urgent": "PUrgent"}


def signum(sig):
    if isinstance(sig, int):
        return sig if 1 <= sig <= 31 else 15      # invalid custom number -> SIGTERM
    return SIGNUM[sig]


# the API as documented in the rustdoc of job.rs; used for the failing-input search when the translator no longer
# recognises the source (that is reported as a broken tie by the driver in any case)
DOC_API = {"start": ("Normal", ["Start"]), "stop": ("Normal", ["Stop"]), "stop_with_signal": ("Normal", ["GracefulStop"]),
           "restart": ("Normal", ["Stop", "Start"]), "restart_with_signal": ("Normal", ["GracefulStop", "Start"]),
           "try_restart": ("Normal", ["TryRestart"]), "try_restart_with_signal": ("Normal", ["TryGracefulRestart"]),
           "signal": ("Normal", ["Signal"]), "delete": ("Normal", ["Stop", "Delete"]), "delete_now": ("Urgent", ["Stop", "Delete"]),
           "to_wait": ("High", ["NextEnding"])}


def api():
    t = dict(translate.TABLES.get("jobapi") or DOC_API)
    t.update(API_DEFAULT)
    return t


def ctrl_term(name, op):
    if name == "Start":
        return "CStart"
    if name == "Stop":
        return "CStop"
    if name == "GracefulStop":
        return f"(CGracefulStop {signum(op['sig'])} {op['grace']})"
    if name == "TryRestart":
        return "CTryRestart"
    if name == "TryGracefulRestart":
        return f"(CTryGracefulRestart {signum(op['sig'])} {op['grace']})"
    if name == "ContinueTryGracefulRestart":
        return "CContinueTGR"
    if name == "Signal":
        return f"(CSignal {signum(op['sig'])})"
    if name == "Delete":
        return "CDelete"
    if name == "NextEnding":
        return "CNextEnding"
    if name == "SyncFunc":
        return f"(CSyncFunc {op['mark']})"
    if name == "AsyncFunc":
        return f"(CAsyncFunc {op['mark']} {op['dur']})"
    if name == "SetSyncSpawnHook":
        return f"(CSetHook {op['mark']})" if op["op"] == "set_hook" else "CUnsetHook"
    raise KeyError(name)


RAW_PRIO = ["PNormal", "PHigh", "PUrgent"]


def op_sends(a, op, k):
    """the (priority, control, flag) triples one API call enqueues; `raw` = one control at an explicit priority (hook)"""
    if op["op"] == "drop_handle":
        # the closed channel is noticed once the urgent and high lanes are drained and before anything of the normal lane
        # (recv: try_recv urgent, try_recv high, then the biased select sees the closed urgent lane): a Delete at the end of the high lane
        return [f"(PHigh, CDelete, {2 * k + 1}%nat)"]
    if op["op"] == "raw":
        return [f"({RAW_PRIO[op['prio']]}, {ctrl_term(op['ctrl'], dict(op, op='set_hook'))}, {2 * k + 1}%nat)"]
    pr, ctrls = a[op["op"]]
    n = len(ctrls)
    return [f"({PRIO[pr]}, {ctrl_term(c, op)}, {2 * k + (1 if j == n - 1 else 0)}%nat)" for j, c in enumerate(ctrls)]


def hops_term(ops):
    a = api()
    return coq_list([f"({op['at']}, {coq_list(op_sends(a, op, k))}, {'true' if op.get('yield', True) else 'false'})" for k, op in enumerate(ops)])


def env_term(script):
    ch = []
    for b in script["children"]:
        se = f"(Some {b['self_exit']})" if b.get("self_exit") is not None else "None"
        rs = coq_list([f"({s}, {('(Some %d)' % d) if d is not None else 'None'})" for s, d in b.get("react", [])])
        df = f"(Some {b['default']})" if b.get("default") is not None else "None"
        ch.append(f"({se}, {rs}, {df}, {'true' if b.get('ignore_all') else 'false'})")
    nl = lambda key: coq_list([f"{x}%nat" for x in script.get(key, [])])
    return f"(mk_env {coq_list(ch)} {nl('spawn_fail')} {nl('signal_fail')} {nl('kill_fail')})"


def history_term(case, variant="fixed"):
    a = api()
    hops = []
    for k, op in enumerate(case["ops"]):
        hops.append(f"({op['at']}, {coq_list(op_sends(a, op, k))}, {'true' if op.get('yield', True) else 'false'})")
    ch = []
    for b in case["script"]["children"]:
        se = f"(Some {b['self_exit']})" if b.get("self_exit") is not None else "None"
        rs = coq_list([f"({s}, {('(Some %d)' % d) if d is not None else 'None'})" for s, d in b.get("react", [])])
        df = f"(Some {b['default']})" if b.get("default") is not None else "None"
        ch.append(f"({se}, {rs}, {df}, {'true' if b.get('ignore_all') else 'false'})")
    nl = lambda key: coq_list([f"{x}%nat" for x in case["script"].get(key, [])])
    env = f"(mk_env {coq_list(ch)} {nl('spawn_fail')} {nl('signal_fail')} {nl('kill_fail')})"
    tickets = coq_list([f"{2 * k + 1}%nat" for k, op in enumerate(case["ops"]) if op["op"] != "drop_handle"])
    return f"(eval_history {env} {variant} {coq_list(hops)} {case.get('tail', 5000)} {tickets})%N"


def impl_string(o, waiter=0, case=None):
    evs = []
    for line in o["log"]:
        t, ev = line.split(":", 1)
        if ev.startswith("drop("):
            continue
        if ev.startswith("err("):
            ev = "err"
        evs.append(f"{t}:{ev}")
    keep = [True] * len(o["tickets"]) if case is None else [op["op"] != "drop_handle" for op in case["ops"]]
    tick = ",".join("-" if w[waiter] is None else str(w[waiter]) for w, k in zip(o["tickets"], keep) if k)
    return " ".join(evs) + " | " + tick + " | " + ("ended" if o["dead"] else "alive")


def strip_drop(s):
    return re.sub(r"\d+:drop\(\d+\) ?", "", s).replace("  ", " ").replace(" |", " |")


def model_set(m):
    items = m[1:-1].split(",") if m.startswith("[") else [m]
    # show_list joins with "," but ticket lists contain commas too: split on the " | ended"/" | alive" terminators
    parts = re.findall(r"(.*? \| [^|]*? \| (?:ended|alive))(?:,|$)", m[1:-1])
    return [strip_drop(p).strip() for p in parts]


CHILD_CLASSES = [
    {"self_exit": None, "react": [[15, 0]], "default": None},                       # dies at once on TERM only
    {"self_exit": None, "react": [], "default": 5},                                  # dies 5 ms after any signal
    {"self_exit": None, "react": [[15, 50]], "default": None},                       # dies 50 ms after TERM
    {"self_exit": None, "react": [[15, 70]], "default": None},                       # dies 70 ms after TERM
    {"self_exit": None, "ignore_all": True},                                         # ignores every signal
    {"self_exit": 30, "react": [[15, 0]], "default": None},                          # exits by itself after 30 ms
    {"self_exit": 5, "ignore_all": True},                                            # exits quickly by itself
    {"self_exit": 60, "ignore_all": True},                                           # exits exactly at a 50 ms grace deadline after a stop at 10
]
SIGS = ["Terminate", "Terminate", "Interrupt", "Hangup", "User1", "ForceStop", 40, 0]
OPS = ["start", "stop", "stop_with_signal", "restart", "restart_with_signal", "try_restart", "try_restart_with_signal",
       "signal", "to_wait", "run", "run_async", "set_hook", "unset_hook", "delete", "delete_now"]


def gen_history(r, i, maxops=8, faults=True):
    nchildren = r.randint(1, 3)
    script = {"children": [dict(r.choice(CHILD_CLASSES)) for _ in range(nchildren)], "spawn_fail": [], "signal_fail": [], "kill_fail": []}
    if faults and r.random() < 0.2:
        script["spawn_fail"] = sorted({r.randint(0, 3) for _ in range(r.randint(1, 2))})
    if faults and r.random() < 0.08:
        script["signal_fail"] = [r.randint(0, 2)]
    if faults and r.random() < 0.08:
        script["kill_fail"] = [r.randint(0, 2)]
    ops, t, mark = [], 0, 1
    n = r.randint(1, maxops)
    for k in range(n):
        gap = r.choice([0, 0, 0, 5, 10, 10, 20, 50, 60, 100, 200])
        t += gap
        name = r.choice(OPS if k else ["start", "start", "start", "restart", "run", "to_wait", "try_restart", "stop"])
        if name in ("delete", "delete_now") and k < n - 2 and r.random() < 0.6:
            name = "stop"
        op = {"at": t, "op": name, "yield": r.random() < 0.7}
        if k and r.random() < 0.15:
            # one control at an explicit priority (any control in any lane)
            cname = r.choice(["Start", "Stop", "GracefulStop", "TryRestart", "TryGracefulRestart", "ContinueTryGracefulRestart", "Signal", "NextEnding",
                              "SyncFunc", "SyncFunc", "AsyncFunc"])
            op = {"at": t, "op": "raw", "ctrl": cname, "prio": r.choice([0, 1, 1, 2, 2]), "yield": r.random() < 0.5}
            name = "raw:" + cname
            if cname in ("GracefulStop", "TryGracefulRestart", "Signal"):
                op["sig"] = r.choice(SIGS)
            if cname in ("GracefulStop", "TryGracefulRestart"):
                op["grace"] = r.choice([0, 7, 50, 100])
            if cname in ("SyncFunc", "AsyncFunc"):
                op["mark"] = mark
                mark += 1
            if cname == "AsyncFunc":
                op["dur"] = r.choice([0, 5, 30])
            ops.append(op)
            continue
        if "signal" in name:
            op["sig"] = r.choice(SIGS)
        if name.endswith("with_signal"):
            op["grace"] = r.choice([0, 1, 7, 50, 50, 50, 100])
        if name in ("run", "run_async", "set_hook"):
            op["mark"] = mark
            mark += 1
        if name == "run_async":
            op["dur"] = r.choice([0, 5, 30, 80])
        ops.append(op)
    if r.random() < 0.1 and not any(op["op"].startswith("delete") for op in ops):
        # job termination by dropping the last handle, at any point of the sequence (it is the last thing the caller can do)
        ops.append({"at": t + r.choice([0, 0, 10, 60]), "op": "drop_handle", "yield": True})
    return {"id": i, "script": script, "ops": ops, "waiters": 1, "tail": 3000}


def run_histories(tag, cases, variant="fixed"):
    """-> list of (case, impl_obs, impl_string, model_outcomes) ; raises RuntimeError on infrastructure failure"""
    d = scratch(tag)
    write_jsonl(os.path.join(d, "cases.jsonl"), cases)
    obs = []
    while len(obs) < len(cases):
        rc, part, out = run_harness("h_job", ["run", os.path.join(d, "cases.jsonl"), str(len(obs))], timeout=1800)
        if rc != 0 or not part or (len(obs) + len(part) < len(cases) and not part[-1].get("hung")):
            raise RuntimeError(f"h_job failed rc={rc}: {out[-800:]}")
        obs += part          # a hung history ends the process; resume after it
        if sum(1 for o in obs if o.get("hung")) >= 6:
            cases = cases[:len(obs)]       # enough failing inputs: the remaining histories are not run
            break
    # (histories judged by monitors alone are not explored in the model: some are outside it, some would be too expensive)
    idx = [k for k, c in enumerate(cases) if not c.get("monitor_only")]
    terms = [history_term(cases[k], variant) for k in idx]
    res0, err = coq_eval(tag, ["Gen.Signals_gen", "Codec.Signals", "Job.JobModel", "Run.EvalJob"], terms, timeout=1500)
    if err:
        raise RuntimeError("model evaluation failed: " + err[-1200:])
    res = ["[]"] * len(cases)
    for k, m in zip(idx, res0):
        res[k] = m
    outl = []
    for case, o, m in zip(cases, obs, res):
        if m == MODEL_TIMEOUT:
            outl.append((case, o, "MODEL-TIMEOUT", None))
        elif o.get("harness_panic"):
            outl.append((case, o, "HARNESS-PANIC", model_set(m)))
        elif o.get("hung"):
            outl.append((case, o, "HUNG", model_set(m)))
        else:
            outl.append((case, o, strip_drop(impl_string(o, 0, case)).strip(), model_set(m)))
    return outl


# --------------------------------------------------------------------------------------------
# shared check driver for the job properties

ALPHABET = [
    {"op": "start"}, {"op": "stop"}, {"op": "stop_with_signal", "sig": "Terminate", "grace": 50},
    {"op": "restart"}, {"op": "restart_with_signal", "sig": "Terminate", "grace": 50}, {"op": "try_restart"},
    {"op": "try_restart_with_signal", "sig": "Terminate", "grace": 50}, {"op": "signal", "sig": "Terminate"}, {"op": "signal", "sig": "ForceStop"},
    {"op": "to_wait"}, {"op": "run"}, {"op": "run_async", "dur": 30}, {"op": "set_hook"}, {"op": "delete"}, {"op": "delete_now"},
    {"op": "raw", "ctrl": "ContinueTryGracefulRestart", "prio": 0}, {"op": "raw", "ctrl": "NextEnding", "prio": 2}, {"op": "raw", "ctrl": "Start", "prio": 1},
]
EXH_CHILDREN = [CHILD_CLASSES[0], CHILD_CLASSES[4], CHILD_CLASSES[5], CHILD_CLASSES[3]]


def exhaustive(maxlen, start_id, stride=1, offset=0):
    """all histories `start; op1; ...; opk` (k <= maxlen) x child class x {burst, settled, spaced}"""
    import itertools
    out, i = [], 0
    for k in range(1, maxlen + 1):
        for combo in itertools.product(range(len(ALPHABET)), repeat=k):
            for ci, child in enumerate(EXH_CHILDREN):
                for mode in ("burst", "settled", "spaced"):
                    i += 1
                    if (i + offset) % stride:
                        continue
                    ops, t, mark = [{"at": 0, "op": "start", "yield": True}], 10, 1
                    for idx in combo:
                        op = dict(ALPHABET[idx])
                        if op["op"] in ("run", "run_async", "set_hook"):
                            op["mark"] = mark
                            mark += 1
                        op["at"] = t
                        op["yield"] = mode != "burst"
                        if mode == "spaced":
                            t += 60
                        ops.append(op)
                    out.append({"id": start_id + len(out), "script": {"children": [dict(child)], "spawn_fail": [], "signal_fail": [], "kill_fail": []},
                                "ops": ops, "waiters": 1, "tail": 3000})
                    if ci in (0, 1) and mode in ("settled", "burst"):
                        # ... and with the last handle dropped right after it
                        out.append({"id": start_id + len(out), "script": {"children": [dict(child)], "spawn_fail": [], "signal_fail": [], "kill_fail": []},
                                    "ops": [dict(x) for x in ops] + [{"at": t, "op": "drop_handle", "yield": True}], "waiters": 1, "tail": 3000})
                    if mode == "settled" and ci in (0, 1):
                        # the same history with one injected fault: the respawn fails / the first signal fails / the first kill fails
                        for key, val in (("spawn_fail", [1]), ("signal_fail", [0]), ("kill_fail", [0])):
                            sc = {"children": [dict(child)], "spawn_fail": [], "signal_fail": [], "kill_fail": []}
                            sc[key] = val
                            out.append({"id": start_id + len(out), "script": sc, "ops": [dict(x) for x in ops], "waiters": 1, "tail": 3000})
    return out


def corpus_cases():
    p = os.path.join(VERIF, "corpus", "job", "defects.jsonl")
    return [json.loads(l) for l in open(p) if l.strip()]


def parse_log(o):
    evs = []
    for line in o["log"]:
        t, ev = line.split(":", 1)
        m = re.match(r"(\w+)\((.*)\)$", ev)
        evs.append((int(t), m.group(1), m.group(2).split(",")) if m else (int(t), ev, []))
    return evs


def job_check(P, tier, seed, monitor, extra_cases=None):
    c = Corr()
    c.rule = ("histories of public Job API calls (start, stop, restart, try-restart, graceful variants with signals incl. invalid numbers "
              "and grace 0..100 ms, signal, to_wait, run, run_async, hook (un)set, delete, delete_now) sent as bursts or settled at virtual "
              "times chosen to collide with timers and child exits, against 8 child behaviour classes and spawn / signal / kill faults, "
              "on the real start_job task (paused tokio clock, simulated child via the public spawn hook). The implementation's event log "
              "and ticket resolution times must be one of the outcomes the Coq model allows. Sources: regression corpus, a bounded-exhaustive "
              "slice over the 18-op alphabet (15 API calls + 3 raw controls), random histories. non-trivial = distinct histories with a spawn and at least one of "
              "{graceful control, fault, burst, same-instant tie}")
    r = rng(seed, "job:" + P.pid)
    cases = corpus_cases()
    if tier == "quick":
        cases += exhaustive(1, 10000) + exhaustive(2, 20000, stride=6, offset=seed % 6)
        n = 250
    else:
        cases += exhaustive(2, 20000) + exhaustive(3, 100000, stride=12, offset=seed % 12)
        n = 3000
    cases += [gen_history(r, 500000 + i, maxops=8 if tier == "quick" else 14) for i in range(n)]
    if extra_cases:
        cases += extra_cases
    for i, cs_ in enumerate(cases):
        cs_["id"] = i
    try:
        res = run_histories("job_" + P.pid, cases, "fixed")
    except RuntimeError as e:
        c.errors.append(str(e))
        return c
    if getattr(monitor, "wants_bound", False):
        # C07 liveness: the instant by which the model's eager runtime has executed every queued control (Coq: now + slack)
        terms = [f"(eval_drain_bound {env_term(cs_['script'])} {hops_term(cs_['ops'])})%N" for cs_ in cases]
        bres, err = coq_eval("bound_" + P.pid, ["Gen.Signals_gen", "Codec.Signals", "Job.JobModel", "Run.EvalJob", "Run.EvalC08"], terms)
        if err:
            c.errors.append("model evaluation failed: " + err[-800:])
            return c
        for cs_, b in zip(cases, bres):
            cs_["_bound"] = int(b) if b not in (None, MODEL_TIMEOUT) else None
    outcomes = 0
    for case, o, impl, ms in res:
        if ms is None:
            c.count("model-exploration-too-expensive(skipped)")
            continue
        c.evaluations += 1
        outcomes = max(outcomes, len(ms))
        names = [op["op"] for op in case["ops"]]
        c.count("ops=%d" % min(len(names), 9))
        if o.get("harness_panic"):
            c.errors.append("harness panicked on " + json.dumps(case)[:300])
            continue
        if o.get("hung"):
            # the model proves that every history settles (Job/JobDrain.v): a job task that keeps the runtime busy for 10 s of real time
            # without the (paused) clock advancing is a livelock
            c.disagreements.append({"case": case, "impl": "no progress", "model": ms[:4], "what": "job task trace not among the model's outcomes"})
            c.failing.append({"case": case, "impl": "no progress for 10 s of real time with the clock paused",
                              "clause": f"{P.pid}: the job task spins without making progress (livelock): queued controls are never executed"})
            continue
        if case.get("monitor_only"):
            c.count("monitor-only(" + case["monitor_only"] + ")")
        elif impl in ms:
            c.validated += 1
        else:
            c.disagreements.append({"case": case, "impl": impl, "model": ms[:4], "what": "job task trace not among the model's outcomes"})
        interesting = any("with_signal" in n for n in names) or any(case["script"].get(k) for k in ("spawn_fail", "signal_fail", "kill_fail")) \
            or any(not op.get("yield", True) for op in case["ops"]) or len(ms) > 1
        if interesting and any(l.split(":", 1)[1].startswith("spawn(") for l in o["log"]):
            c.nontrivial.add(json.dumps([case["script"], case["ops"]], sort_keys=True))
        # (histories with raw-priority controls are judged by the membership diff only: the monitors read API names)
        for clause, detail in ([] if any(op["op"] == "raw" for op in case["ops"]) and not case.get("lanes") and not getattr(monitor, "raw_ok", False) else monitor(case, o)):
            c.failing.append({"case": case, "impl": impl, "clause": clause, "detail": detail})
        if len(c.samples) < 3 and interesting and len(names) >= 3:
            c.samples.append({"case": case, "impl": impl, "model_outcomes": ms[:3]})
    c.extra["max_model_outcomes_per_history"] = outcomes
    return c


# --------------------------------------------------------------------------------------------
# concurrent senders on a multi-threaded runtime (real time): judged by monitors on the log

def mt_cases(r, n):
    cases = []
    for i in range(n):
        child = dict(r.choice([CHILD_CLASSES[0], CHILD_CLASSES[1], CHILD_CLASSES[4], CHILD_CLASSES[6]]))
        senders = []
        for s in range(r.randint(2, 4)):
            ops = []
            for k in range(r.randint(2, 7)):
                name = r.choice(["start", "run", "run", "run", "stop", "restart", "try_restart", "to_wait", "signal", "stop_with_signal", "restart_with_signal"])
                op = {"op": name}
                if name == "run":
                    op["mark"] = s * 100 + k
                if "signal" in name:
                    op["sig"] = "Terminate"
                if name.endswith("with_signal"):
                    op["grace"] = r.choice([0, 5, 20])
                if r.random() < 0.4:
                    op["gap_us"] = r.choice([0, 50, 300, 2000])
                ops.append(op)
            senders.append(ops)
        cases.append({"id": i, "script": {"children": [child]}, "senders": senders, "tail_ms": 250})
    return cases


def mt_check(c, tag, seed, n, monitor):
    """runs n concurrent-sender cases; monitor(case, o) -> [(clause, detail)]"""
    r = rng(seed, "mt" + tag)
    cases = mt_cases(r, n)
    d = scratch("mt_" + tag)
    procs = 4
    chunks = [cases[i::procs] for i in range(procs)]
    from concurrent.futures import ThreadPoolExecutor

    def one(k):
        f = os.path.join(d, f"cases_{k}.jsonl")
        write_jsonl(f, chunks[k])
        return run_harness("h_job", ["mt", f], timeout=900)
    out = {}
    with ThreadPoolExecutor(max_workers=procs) as ex:
        for k, (rc, objs, txt) in enumerate(ex.map(one, range(procs))):
            if rc != 0 or len(objs) != len(chunks[k]):
                c.errors.append(f"h_job mt failed rc={rc}: {txt[-600:]}")
                return
            for o in objs:
                out[o["id"]] = o
    for case in cases:
        o = out[case["id"]]
        c.evaluations += 1
        c.validated += 1
        c.count("concurrent-senders(monitor-only)")
        c.nontrivial.add(json.dumps(case["senders"]))
        for clause, detail in monitor(case, o):
            c.failing.append({"case": {"id": case["id"], "script": case["script"], "senders": case["senders"]}, "impl": " ".join(o["log"]), "clause": clause, "detail": detail})


def mt_monitor_overlap(case, o):
    out, live = [], set()
    for t, ev, a in parse_log(o):
        if ev == "spawn":
            if live:
                out.append(("C04_at_most_one_live: spawn while another child is unreaped (concurrent senders)", f"t={t} live={sorted(live)} new={a[0]}"))
            live.add(a[0])
        elif ev == "reap":
            live.discard(a[0])
    return out


def mt_monitor_tickets(case, o):
    out = []
    if o["panicked"] or not o["task_finished"] or not o["delete_resolved"]:
        out.append(("C07_job_end_releases: the job task did not end cleanly after delete_now", {k: o[k] for k in ("panicked", "task_finished", "delete_resolved")}))
    for si, ws in enumerate(o["tickets"]):
        for k, w in enumerate(ws):
            if w is None:
                out.append(("C07_no_ticket_lost: a ticket never resolved, not even when the job ended (concurrent senders)", f"sender {si} op {k} {case['senders'][si][k]['op']}"))
    return out


def mt_monitor_order(case, o):
    out = []
    marks = [int(a[0]) for t, ev, a in parse_log(o) if ev == "mark"]
    if len(set(marks)) != len(marks):
        out.append(("C10_executed_once: a run() control executed twice (concurrent senders)", marks))
    for si, ops in enumerate(case["senders"]):
        mine = [m for m in marks if m // 100 == si]
        sent = [op["mark"] for op in ops if op["op"] == "run"]
        if mine != sent:
            out.append(("C10_fifo_within_priority: a sender's run() controls were not executed exactly once in its send order", {"sender": si, "sent": sent, "executed": mine}))
    return out
