"""Shared machinery of the action-worker properties (C01 C02 C15): scenario generation, real-time runs of
h_worker in parallel processes, reconstruction of the receive sequence, model evaluation, monitors."""
import json, os, subprocess
from concurrent.futures import ThreadPoolExecutor
from vlib import *

MARGIN_US = 18000          # receive times closer than this to a window edge make the composition ambiguous
SLACK_US = int(os.environ.get("VERIF_SLACK_MS", "150")) * 1000


def scen(r, i, th=None):
    """one scenario from a family; events are placed >= 25 ms away from the window edges they straddle"""
    th = th if th is not None else r.choice([0, 60, 80, 100])
    fam = r.choice(["single", "burst", "straddle", "rejected_stream", "accepted_stream", "urgent", "slow_handler", "multi_producer",
                    "empties", "errors", "small_queue", "prio_mix", "prio_verdicts", "runtime_throttle", "runtime_throttle", "duplicates"])
    changes = []
    evs, t, nid = [], 20, 1

    def add(at, **kw):
        nonlocal nid
        e = {"id": nid, "at_ms": at, "producer": kw.pop("producer", 0)}
        e.update(kw)
        evs.append(e)
        nid += 1
    handler = {"async": r.random() < 0.5, "durations_ms": []}
    cap = 4096
    if fam == "single":
        add(t)
    elif fam == "burst":
        for k in range(r.randint(2, 6)):
            add(t + k * r.choice([0, 2, 5]), verdict=r.choice(["pass", "pass", "reject"]))
    elif fam == "straddle":
        add(t)
        add(t + max(th - 30, 1))
        add(t + th + 35)
        add(t + th + 45, verdict="reject")
    elif fam == "rejected_stream":
        add(t)
        for k in range(1, 30):
            add(t + 9 * k, verdict=r.choice(["reject", "reject", "err"]))
    elif fam == "accepted_stream":
        for k in range(0, 26):
            add(t + 9 * k + (0 if th == 0 else 0))
    elif fam == "urgent":
        add(t)
        add(t + 10)
        add(t + 25, prio="urgent", verdict=r.choice(["pass", "reject", "err", "err"]))
        add(t + 30)
    elif fam == "slow_handler":
        handler["durations_ms"] = [r.choice([120, 200]), 0, 0]
        add(t)
        add(t + th + 40)
        add(t + th + 60, verdict="reject")
        add(t + th + 80)
        add(t + th + 300)
    elif fam == "multi_producer":
        for p in range(r.randint(2, 4)):
            for k in range(r.randint(1, 4)):
                add(t + 7 * k + p, producer=p, verdict=r.choice(["pass", "pass", "reject"]))
    elif fam == "empties":
        add(t, empty=True)
        add(t + 200, empty=True, verdict="reject")
        add(t + 210)
    elif fam == "errors":
        add(t, verdict="err")
        add(t + 5)
        add(t + 10, verdict="err")
        add(t + th + 60, verdict="err")
        add(t + th + 70)
    elif fam == "small_queue":
        cap = r.choice([1, 2])
        handler["durations_ms"] = [100]
        handler["async"] = True
        add(t)
        for k in range(1, 5):
            add(t + th + 30 + k, producer=k % 2)
    elif fam == "prio_mix":
        handler["durations_ms"] = [150]
        add(t)
        add(t + th + 40, prio="low")
        add(t + th + 45, prio="high")
        add(t + th + 50, prio="normal")
        add(t + th + 55, prio="urgent")
    elif fam == "prio_verdicts":
        # every non-urgent priority class with every filter verdict: only urgent (and empty) events by-pass the filterer
        combos = [(p, v) for p in ("low", "normal", "high") for v in ("pass", "reject", "err")]
        r.shuffle(combos)
        for k, (p, v) in enumerate(combos[:r.randint(4, 9)]):
            add(t + 12 * k, prio=p, verdict=v)
    elif fam == "duplicates":
        # identical events (same tags and metadata): each of them is an event of its own
        th = max(th, 80)
        k = r.choice([2, 3, 4])
        for j in range(k):
            evs.append({"id": 1, "at_ms": t + 6 * j, "producer": 0})
        evs.append({"id": 2, "at_ms": t + 6 * k, "producer": 0})
        if r.random() < 0.5:
            evs.append({"id": 2, "at_ms": t + 6 * k + 8, "producer": 0})
        nid = 3
    elif fam == "runtime_throttle":
        # the throttle is changed while the worker is idle or in the middle of a window
        kind = r.choice(["raise-idle", "lower-mid-accepted", "lower-mid-rejected", "raise-mid", "raise-then-lower"])
        if kind == "raise-idle":
            th = 10
            changes = [{"at_ms": 60, "ms": 300}]
            add(110)
            add(200)
        elif kind == "lower-mid-accepted":
            th = 400
            changes = [{"at_ms": 150, "ms": 20}]
            add(100)
            add(210)
            add(320)
        elif kind == "lower-mid-rejected":
            th = 400
            changes = [{"at_ms": 150, "ms": 20}]
            add(100)
            add(210, verdict="reject")
            add(330)
        elif kind == "raise-mid":
            th = 100
            changes = [{"at_ms": 60, "ms": 350}]
            add(20)
            add(200, verdict=r.choice(["pass", "reject"]))
        else:
            th = 100
            changes = [{"at_ms": 60, "ms": 500}, {"at_ms": 220, "ms": 30}]
            add(20)
            add(300)
            add(420)
    last = max(e["at_ms"] for e in evs)
    thmax = max([th] + [c["ms"] for c in changes])
    return {"id": i, "family": fam, "throttle_ms": th, "throttle_changes": changes, "cap": cap, "events": evs, "handler": handler,
            "tail_ms": max(sum(handler["durations_ms"]), 0) + thmax + 250 if last else 300}


def run_parallel(sub, cases, tag, procs=8):
    d = scratch(tag)
    chunks = [cases[i::procs] for i in range(procs)]

    def one(k):
        if not chunks[k]:
            return 0, [], ""
        f = os.path.join(d, f"cases_{k}.jsonl")
        write_jsonl(f, chunks[k])
        return run_harness("h_worker", [sub, f], timeout=900)
    out = {}
    with ThreadPoolExecutor(max_workers=procs) as ex:
        for k, (rc, objs, txt) in enumerate(ex.map(one, range(procs))):
            if rc != 0 or len(objs) != len(chunks[k]):
                raise RuntimeError(f"h_worker {sub} failed rc={rc}: {txt[-600:]}")
            for o in objs:
                out[o["id"]] = o
    return [out[c["id"]] for c in cases]


def us(x):
    return int(round(x * 1000))


def reconstruct(case, o):
    """-> (received sequence [(R_us, id)], batches [(t_start_us, ids, t_end_us)], filter log, sent, errors).
    Events may repeat (identical events carry the same id): filter stamps are kept per id in log order."""
    filt_q, filt = {}, {}
    for l in o["log"]:
        if l["k"] == "filter":
            filt_q.setdefault(l["id"], []).append(l)
            filt.setdefault(l["id"], l)
    sent = {}
    for l in o["log"]:
        if l["k"] == "sent":
            if l["id"] in sent:
                sent[l["id"]] = dict(sent[l["id"]], ok=sent[l["id"]]["ok"] and l["ok"])
            else:
                sent[l["id"]] = l
    batches, cur = [], None
    for l in o["log"]:
        if l["k"] == "batch":
            cur = [us(l["t"]), l["ids"], None]
            batches.append(cur)
        elif l["k"] == "batch_end" and cur is not None:
            cur[2] = us(l["t"])
    seq = []
    prev_end = 0
    for (ts, ids, te) in batches:
        r_prev = prev_end
        for i in ids:
            if filt_q.get(i):
                R = us(filt_q[i].pop(0)["t"])
            else:
                R = max(r_prev, us(sent[i]["t"]) if i in sent else 0)
            seq.append((R, i))
            r_prev = R
        prev_end = te or ts
    for i, q in filt_q.items():
        for l in q:                       # filtered but in no batch: rejected, errored -- or lost
            seq.append((us(l["t"]), i))
    seq.sort(key=lambda x: x[0])
    errors = [l for l in o["log"] if l["k"] == "error"]
    return seq, batches, filt, sent, errors


def throttle_sets(o):
    """[(T_us, value_us)] the instants at which the harness changed the throttle"""
    return sorted((us(l["t"]), int(l["ms"]) * 1000) for l in o.get("log", []) if l["k"] == "throttle")


def model_term(case, seq, sets=()):
    """the run-time machine (Worker/ThrottleRt.v; equal to the constant-throttle one when there is no change)"""
    evs = {e["id"]: e for e in case["events"]}
    th = case["throttle_ms"] * 1000
    items = []
    for R, i in seq:
        e = evs[i]
        v = {"pass": 0, "reject": 1, "err": 2}[e.get("verdict", "pass")]
        items.append((R, 1, f"(false, {R}, ({i}, {'true' if e.get('prio') == 'urgent' else 'false'}, {'true' if e.get('empty') else 'false'}, {v}))"))
    for T, v in sets:
        items.append((T, 0, f"(true, {T}, ({v}, false, false, 0))"))
    items.sort(key=lambda x: (x[0], x[1]))
    return f"(eval_rt {th} {coq_list([x[2] for x in items])})%N"


def parse_model(m):
    body, errs = m.rsplit(" E", 1)
    batches = []
    for b in body.split(";"):
        if not b:
            continue
        first, deliver, urg, ids = b.split("/")
        batches.append((int(first), int(deliver), urg == "T", [int(x) for x in ids.strip("[]").split(",") if x]))
    return batches, [int(x) for x in errs.strip("[]").split(",") if x]


def ambiguous(case, seq, mb, sets=()):
    ths = {case["throttle_ms"] * 1000} | {v for _, v in sets}
    if ths == {0}:
        return False
    edges = [b[0] + th for b in mb for th in ths if th]
    if any(abs(R - e) < MARGIN_US for R, _ in seq for e in edges):
        return True
    # a change of the throttle too close to a loop turn (an event or a window edge)
    turns = [R for R, _ in seq] + edges
    return any(abs(T - t) < MARGIN_US for T, _ in sets for t in turns)
