"""C10 -- controls run in send order within a priority; urgent before high before normal."""
from vlib import *
from props.jobcommon import *
from props.c04 import C04


def monitor(case, o):
    out = []
    evs = parse_log(o)
    marks = [int(a[0]) for t, ev, a in evs if ev == "mark"]
    if marks != sorted(marks) or len(set(marks)) != len(marks):
        out.append(("C10_fifo_within_priority: normal-priority run() calls executed out of send order or twice", marks))
    ops = case["ops"]
    if not any(op["op"] == "run_async" for op in ops):
        for k, op in enumerate(ops):
            if op["op"] != "delete_now":
                continue
            T = op["at"]
            # controls sent before it in the same burst (same instant, no yield in between) must not run first
            burst = []
            j = k - 1
            while j >= 0 and ops[j]["at"] == T and not ops[j].get("yield", True):
                burst.append(ops[j])
                j -= 1
            # the task must be idle (parked) when the burst starts: everything earlier was sent strictly before T
            if j >= 0 and ops[j]["at"] == T:
                continue
            for b in burst:
                if b["op"] == "run" and any(ev == "mark" and int(a[0]) == b["mark"] for t, ev, a in evs):
                    out.append(("C10_priority_at_decision: a normal control overtook an urgent delete_now sent in the same burst", f"mark {b['mark']}"))
    return out


class C10(C04):
    pid = "C10"

    def correspond(self, tier, seed, deep=False):
        r = rng(seed, "c10x")
        extra = []
        for i in range(150 if tier == "quick" else 2000):
            ops, t, mark = [{"at": 0, "op": "start", "yield": True}], 10, 1
            for b in range(r.randint(1, 3)):
                t += r.choice([10, 50])
                for k in range(r.randint(2, 5)):
                    name = r.choice(["run", "run", "run", "to_wait", "delete_now", "stop_with_signal", "signal"])
                    op = {"at": t, "op": name, "yield": False}
                    if name == "run":
                        op["mark"] = mark
                        mark += 1
                    if "signal" in name:
                        op["sig"] = "Terminate"
                    if name == "stop_with_signal":
                        op["grace"] = 50
                    ops.append(op)
                ops[-1]["yield"] = True
            extra.append({"id": 0, "script": {"children": [dict(r.choice(CHILD_CLASSES))], "spawn_fail": [], "signal_fail": [], "kill_fail": []},
                          "ops": ops, "waiters": 1, "tail": 2000})
        return job_check(self, "thorough" if deep else tier, seed, monitor, extra)


PROP = C10()
