"""C10 -- controls run in send order within a priority; urgent before high before normal."""
from vlib import *
from props.jobcommon import *
from props.c04 import C04


def monitor_lanes(case, o):
    """bursts of raw run() controls in the three lanes: executed urgent first, then high, then normal, FIFO within a lane"""
    out = []
    evs = parse_log(o)
    order = [int(a[0]) for t, ev, a in evs if ev == "mark"]
    ops = case["ops"]
    bursts = {}
    for k, op in enumerate(ops):
        if op["op"] == "raw" and op["ctrl"] == "SyncFunc":
            bursts.setdefault(op["at"], []).append((op["mark"], op["prio"], k))
    for T, items in bursts.items():
        want = [m for m, p, k in sorted(items, key=lambda x: (-x[1], x[2]))]
        got = [m for m in order if m in set(want)]
        if got != [m for m in want if m in set(got)]:
            out.append(("C10_priority_at_decision / C10_fifo_within_priority: controls of one burst executed in the wrong lane order",
                        {"burst_at": T, "executed": got, "expected": want}))
    return out


def lanes_cases(r, n):
    import itertools
    out = []
    perms = list(itertools.permutations([0, 1, 2]))
    for i in range(n):
        mode = ["parked", "busy", "timer", "busy-running"][i % 4]
        ops, mark = [], 1
        if mode in ("timer", "busy-running"):
            ops.append({"at": 0, "op": "start", "yield": True})
        if mode in ("busy", "busy-running"):
            ops.append({"at": 10, "op": "run_async", "mark": 90, "dur": 30, "yield": True})
        if mode == "timer":
            ops.append({"at": 10, "op": "stop_with_signal", "sig": "Terminate", "grace": 50, "yield": True})
        pr = list(perms[(i // 4) % 6]) + [r.choice([0, 1, 2]) for _ in range(r.randint(0, 3))]
        for p in pr:
            ops.append({"at": 20, "op": "raw", "ctrl": "SyncFunc", "prio": p, "mark": mark, "yield": False})
            mark += 1
        ops[-1]["yield"] = True
        child = {"self_exit": None, "ignore_all": True} if mode == "timer" else dict(r.choice(CHILD_CLASSES[:5]))
        out.append({"id": 0, "lanes": True, "script": {"children": [child], "spawn_fail": [], "signal_fail": [], "kill_fail": []},
                    "ops": ops, "waiters": 1, "tail": 500})
    return out


def monitor(case, o):
    if case.get("lanes"):
        return monitor_lanes(case, o)
    out = []
    evs = parse_log(o)
    marks = [int(a[0]) for t, ev, a in evs if ev == "mark"]
    if marks != sorted(marks) or len(set(marks)) != len(marks):
        out.append(("C10_fifo_within_priority: normal-priority run() calls executed out of send order or twice", marks))
    ops = case["ops"]
    # a control sent after a run_async() does not run before that hook's future has completed
    mtime = {int(a[0]): t for t, ev, a in evs if ev == "mark"}
    for k, op in enumerate(ops):
        if op["op"] == "run_async" and op.get("dur", 0) > 0 and op["mark"] in mtime:
            done = mtime[op["mark"]] + op["dur"]
            for later in ops[k + 1:]:
                if later["op"] == "run" and later["mark"] in mtime and mtime[later["mark"]] < done:
                    out.append(("C10_fifo_within_priority: a control sent after run_async() ran before that hook had finished",
                                f"run_async mark {op['mark']} busy until {done}, run mark {later['mark']} at {mtime[later['mark']]}"))
    if not any(op["op"] == "run_async" for op in ops):
        for k, op in enumerate(ops):
            if op["op"] != "delete_now":
                continue
            T = op["at"]
            # controls sent before it in the same burst (same instant, no yield in between) must not run first
            burst = []
            j = k - 1
            while j >= 0 and ops[j]["at"] == T and not ops[j].get("yield", True):
                burst.append(ops[j])
                j -= 1
            # the task must be idle (parked) when the burst starts: everything earlier was sent strictly before T
            if j >= 0 and ops[j]["at"] == T:
                continue
            for b in burst:
                if b["op"] == "run" and any(ev == "mark" and int(a[0]) == b["mark"] for t, ev, a in evs):
                    out.append(("C10_priority_at_decision: a normal control overtook an urgent delete_now sent in the same burst", f"mark {b['mark']}"))
    return out


class C10(C04):
    pid = "C10"

    def correspond(self, tier, seed, deep=False):
        r = rng(seed, "c10x")
        extra = []
        for i in range(150 if tier == "quick" else 2000):
            ops, t, mark = [{"at": 0, "op": "start", "yield": True}], 10, 1
            for b in range(r.randint(1, 3)):
                t += r.choice([10, 50])
                for k in range(r.randint(2, 5)):
                    name = r.choice(["run", "run", "run", "to_wait", "delete_now", "stop_with_signal", "signal"])
                    op = {"at": t, "op": name, "yield": False}
                    if name == "run":
                        op["mark"] = mark
                        mark += 1
                    if "signal" in name:
                        op["sig"] = "Terminate"
                    if name == "stop_with_signal":
                        op["grace"] = 50
                    ops.append(op)
                ops[-1]["yield"] = True
            extra.append({"id": 0, "script": {"children": [dict(r.choice(CHILD_CLASSES))], "spawn_fail": [], "signal_fail": [], "kill_fail": []},
                          "ops": ops, "waiters": 1, "tail": 2000})
        extra += lanes_cases(r, 48 if tier == "quick" and not deep else 480)
        c = job_check(self, "thorough" if deep else tier, seed, monitor, extra)
        if not c.errors:
            mt_check(c, "c10", seed, 24 if tier == "quick" and not deep else 300, mt_monitor_order)
        return c


PROP = C10()
