"""C10 -- controls run in send order within a priority; urgent before high before normal."""
from vlib import *
from props.jobcommon import *
from props.c04 import C04


def monitor_lanes(case, o):
    """bursts of raw run() controls in the three lanes: executed urgent first, then high, then normal, FIFO within a lane"""
    out = []
    evs = parse_log(o)
    order = [int(a[0]) for t, ev, a in evs if ev == "mark"]
    ops = case["ops"]
    bursts = {}
    for k, op in enumerate(ops):
        if op["op"] == "raw" and op["ctrl"] == "SyncFunc":
            bursts.setdefault(op["at"], []).append((op["mark"], op["prio"], k))
    for T, items in bursts.items():
        want = [m for m, p, k in sorted(items, key=lambda x: (-x[1], x[2]))]
        got = [m for m in order if m in set(want)]
        if got != [m for m in want if m in set(got)]:
            out.append(("C10_priority_at_decision / C10_fifo_within_priority: controls of one burst executed in the wrong lane order",
                        {"burst_at": T, "executed": got, "expected": want}))
    return out


def lanes_cases(r, n):
    import itertools
    out = []
    perms = list(itertools.permutations([0, 1, 2]))
    for i in range(n):
        mode = ["parked", "busy", "timer", "busy-running"][i % 4]
        ops, mark = [], 1
        if mode in ("timer", "busy-running"):
            ops.append({"at": 0, "op": "start", "yield": True})
        if mode in ("busy", "busy-running"):
            ops.append({"at": 10, "op": "run_async", "mark": 90, "dur": 30, "yield": True})
        if mode == "timer":
            ops.append({"at": 10, "op": "stop_with_signal", "sig": "Terminate", "grace": 50, "yield": True})
        pr = list(perms[(i // 4) % 6]) + [r.choice([0, 1, 2]) for _ in range(r.randint(0, 3))]
        for p in pr:
            ops.append({"at": 20, "op": "raw", "ctrl": "SyncFunc", "prio": p, "mark": mark, "yield": False})
            mark += 1
        ops[-1]["yield"] = True
        child = {"self_exit": None, "ignore_all": True} if mode == "timer" else dict(r.choice(CHILD_CLASSES[:5]))
        out.append({"id": 0, "lanes": True, "script": {"children": [child], "spawn_fail": [], "signal_fail": [], "kill_fail": []},
                    "ops": ops, "waiters": 1, "tail": 500})
    # many high-lane controls behind one normal one (sent first): the high lane is emptied before the normal control runs, however long it is
    for nhigh in (40, 70):
        ops = [{"at": 10, "op": "run_async", "mark": 90, "dur": 30, "yield": True}, {"at": 20, "op": "raw", "ctrl": "SyncFunc", "prio": 0, "mark": 1, "yield": False}]
        ops += [{"at": 20, "op": "raw", "ctrl": "SyncFunc", "prio": 1, "mark": 2 + k, "yield": False} for k in range(nhigh)]
        ops[-1]["yield"] = True
        out.append({"id": 0, "lanes": True, "monitor_only": "long-lanes", "script": {"children": [dict(CHILD_CLASSES[0])], "spawn_fail": [], "signal_fail": [], "kill_fail": []},
                    "ops": ops, "waiters": 1, "tail": 500})
    return out


def monitor(case, o):
    if case.get("lanes"):
        return monitor_lanes(case, o)
    out = []
    evs = parse_log(o)
    marks = [int(a[0]) for t, ev, a in evs if ev == "mark"]
    if case.get("monitor_only") == "send-from-within":
        if marks[:2] != [1, 500] or marks[2:] != sorted(marks[2:]):
            out.append(("C10_priority_at_decision: a high / urgent control sent while normal controls were queued did not run before them", marks[:8]))
        return out
    if case.get("monitor_only") == "depth":
        sent = [op["mark"] for op in case["ops"] if op["op"] in ("run", "run_async", "run_exit_wait")]
        for op in case["ops"]:
            if op["op"] == "run_exit_wait" and not any(ev == "waitdone" and a[0] == str(op["mark"]) for t, ev, a in evs):
                out.append(("C10_executed_once: a high-lane control queued while the task was busy was never executed (its ticket never resolved)",
                            {"queued_by_mark": op["mark"]}))
        if sorted(marks) != sorted(sent):
            out.append(("C10_executed_once: with several hundred controls pending in one lane, not every control was executed exactly once",
                        {"sent": len(sent), "executed": len(marks), "missing": sorted(set(sent) - set(marks))[:5]}))
        unresolved = [k for k, w in enumerate(o["tickets"]) if w[0] is None]
        if unresolved:
            out.append(("C10_last_ticket_implies_all: tickets of queued controls never resolved", {"first_unresolved_op": unresolved[0], "count": len(unresolved)}))
        if marks != sorted(marks):
            out.append(("C10_fifo_within_priority: normal-priority run() calls executed out of send order", marks[:8]))
        return out
    if marks != sorted(marks) or len(set(marks)) != len(marks):
        out.append(("C10_fifo_within_priority: normal-priority run() calls executed out of send order or twice", marks))
    ops = case["ops"]
    # a control sent after a run_async() does not run before that hook's future has completed
    mtime = {int(a[0]): t for t, ev, a in evs if ev == "mark"}
    for k, op in enumerate(ops):
        if op["op"] == "run_async" and op.get("dur", 0) > 0 and op["mark"] in mtime:
            done = mtime[op["mark"]] + op["dur"]
            for later in ops[k + 1:]:
                if later["op"] == "run" and later["mark"] in mtime and mtime[later["mark"]] < done:
                    out.append(("C10_fifo_within_priority: a control sent after run_async() ran before that hook had finished",
                                f"run_async mark {op['mark']} busy until {done}, run mark {later['mark']} at {mtime[later['mark']]}"))
    # a signal() call is an ordinary (normal-lane) control whatever the signal: within a burst of run() and signal() calls on a running
    # command whose child logs and survives... the signals are delivered between the run() marks in send order
    if not any(op["op"] in ("run_async", "raw") or "with_signal" in op["op"] or op["op"] in ("stop", "restart", "try_restart", "delete", "delete_now", "to_wait", "drop_handle")
               for op in ops):
        seq_sent = [("mark", str(op["mark"])) if op["op"] == "run" else ("signal", None) for op in ops if op["op"] in ("run", "signal")]
        seq_got = [("mark", a[0]) if ev == "mark" else ("signal", None) for t, ev, a in evs if ev in ("mark", "signal")]
        nsig = sum(1 for x in seq_got if x[0] == "signal")
        if nsig == sum(1 for x in seq_sent if x[0] == "signal") and seq_got != seq_sent:
            out.append(("C10_fifo_within_priority: a signal() call was executed out of send order among the run() calls around it",
                        {"sent": seq_sent, "executed": seq_got}))
    if not any(op["op"] == "run_async" for op in ops):
        for k, op in enumerate(ops):
            if op["op"] != "delete_now":
                continue
            T = op["at"]
            # controls sent before it in the same burst (same instant, no yield in between) must not run first
            burst = []
            j = k - 1
            while j >= 0 and ops[j]["at"] == T and not ops[j].get("yield", True):
                burst.append(ops[j])
                j -= 1
            # the task must be idle (parked) when the burst starts: everything earlier was sent strictly before T
            if j >= 0 and ops[j]["at"] == T:
                continue
            for b in burst:
                if b["op"] == "run" and any(ev == "mark" and int(a[0]) == b["mark"] for t, ev, a in evs):
                    out.append(("C10_priority_at_decision: a normal control overtook an urgent delete_now sent in the same burst", f"mark {b['mark']}"))
    return out


class C10(C04):
    pid = "C10"

    def correspond(self, tier, seed, deep=False):
        r = rng(seed, "c10x")
        extra = []
        for i in range(150 if tier == "quick" else 2000):
            ops, t, mark = [{"at": 0, "op": "start", "yield": True}], 10, 1
            for b in range(r.randint(1, 3)):
                t += r.choice([10, 50])
                for k in range(r.randint(2, 5)):
                    name = r.choice(["run", "run", "run", "to_wait", "delete_now", "stop_with_signal", "signal"])
                    op = {"at": t, "op": name, "yield": False}
                    if name == "run":
                        op["mark"] = mark
                        mark += 1
                    if "signal" in name:
                        op["sig"] = "Terminate"
                    if name == "stop_with_signal":
                        op["grace"] = 50
                    ops.append(op)
                ops[-1]["yield"] = True
            extra.append({"id": 0, "script": {"children": [dict(r.choice(CHILD_CLASSES))], "spawn_fail": [], "signal_fail": [], "kill_fail": []},
                          "ops": ops, "waiters": 1, "tail": 2000})
        # signal() among run() calls in one burst, for every signal class (incl. the forced stop), on a child that reacts in every way
        from props.jobcommon import SIGS
        for i in range(40 if tier == "quick" and not deep else 300):
            ops, mark = [{"at": 0, "op": "start", "yield": True}], 1
            for k in range(r.randint(3, 6)):
                if r.random() < 0.45:
                    ops.append({"at": 30, "op": "signal", "sig": SIGS[i % len(SIGS)] if r.random() < 0.6 else r.choice(SIGS), "yield": False})
                else:
                    ops.append({"at": 30, "op": "run", "mark": mark, "yield": False})
                    mark += 1
            ops[-1]["yield"] = True
            extra.append({"id": 0, "script": {"children": [dict(r.choice(CHILD_CLASSES))], "spawn_fail": [], "signal_fail": [], "kill_fail": []},
                          "ops": ops, "waiters": 1, "tail": 1000})
        # depth: several hundred controls pending in one lane while the task is busy (or the normal lane is held by an armed timer)
        for n, held in ((300, "busy"), (520, "busy"), (300, "timer")):
            ops = [{"at": 0, "op": "start", "yield": True}]
            ops.append({"at": 10, "op": "run_async", "mark": 0, "dur": 30, "yield": True} if held == "busy" else
                       {"at": 10, "op": "stop_with_signal", "sig": "Terminate", "grace": 50, "yield": True})
            ops += [{"at": 20, "op": "run", "mark": k + 1, "yield": False} for k in range(n)]
            ops[-1]["yield"] = True
            extra.append({"id": 0, "monitor_only": "depth", "script": {"children": [{"self_exit": None, "ignore_all": True}], "spawn_fail": [], "signal_fail": [], "kill_fail": []},
                          "ops": ops, "waiters": 1, "tail": 1000})
        # budget: a burst long enough to use up the task's cooperative budget in one poll, followed by high / urgent controls, at the very
        # instant the command ends by itself -- nothing is lost whichever branch the task's select! takes next
        for n in list(range(122, 134)) + [255, 256, 257]:
            for tailops in (["to_wait"], ["to_wait", "to_wait"]):
                ops = [{"at": 0, "op": "start", "yield": True}]
                ops += [{"at": 40, "op": "run", "mark": k + 1, "yield": False} for k in range(n)]
                ops += [{"at": 40, "op": t_, "yield": False} for t_ in tailops]
                ops[-1]["yield"] = True
                extra.append({"id": 0, "monitor_only": "depth", "script": {"children": [{"self_exit": 40, "ignore_all": True}], "spawn_fail": [], "signal_fail": [], "kill_fail": []},
                              "ops": ops, "waiters": 1, "tail": 1000})
        # ... the same with the high-lane control queued by the last function of the burst, which also makes the command end at that instant
        for n in list(range(120, 132)) * 2:
            ops = [{"at": 0, "op": "start", "yield": True}]
            ops += [{"at": 40, "op": "run", "mark": k + 1, "yield": False} for k in range(n)]
            ops += [{"at": 40, "op": "run_exit_wait", "mark": n + 1, "yield": False}, {"at": 40, "op": "run", "mark": n + 2, "yield": True}]
            extra.append({"id": 0, "monitor_only": "depth", "script": {"children": [{"self_exit": None, "ignore_all": True}], "spawn_fail": [], "signal_fail": [], "kill_fail": []},
                          "ops": ops, "waiters": 1, "tail": 1000})
        # a function that itself sends a high / urgent control while later normal controls are already queued behind it: that control runs next
        for prio in (1, 2):
            for nlater in (1, 3, 20):
                ops = [{"at": 20, "op": "run_send", "mark": 1, "then_mark": 500, "then_prio": prio, "yield": False}]
                ops += [{"at": 20, "op": "run", "mark": 2 + k, "yield": False} for k in range(nlater)]
                ops[-1]["yield"] = True
                extra.append({"id": 0, "monitor_only": "send-from-within", "script": {"children": [dict(CHILD_CLASSES[0])], "spawn_fail": [], "signal_fail": [], "kill_fail": []},
                              "ops": ops, "waiters": 1, "tail": 500})
        extra += lanes_cases(r, 48 if tier == "quick" and not deep else 480)
        c = job_check(self, "thorough" if deep else tier, seed, monitor, extra)
        if not c.errors:
            mt_check(c, "c10", seed, 24 if tier == "quick" and not deep else 300, mt_monitor_order)
        return c


PROP = C10()
