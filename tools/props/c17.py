"""C17 -- path summaries handed to commands are faithful."""
import json, os, re
from vlib import *
import translate
from props.c16 import kind_term, all_kind_strings, cs


def comps(s):
    c = [x for x in s.split("/") if x not in ("", ".")]
    return (["/"] if s.startswith("/") else []) + c


def category(k):
    if k.startswith("Modify(Data(") or k == "Access(Close(Write))":
        return "WRITTEN"
    if k.startswith("Modify(Metadata("):
        return "META_CHANGED"
    if k.startswith("Remove("):
        return "REMOVED"
    if k.startswith("Create("):
        return "CREATED"
    if k.startswith("Modify(Name("):
        return "RENAMED"
    return "OTHERWISE_CHANGED"


def simple(k):
    for p in ("Access", "Create", "Modify", "Remove"):
        if k.startswith(p + "("):
            return p.lower()
    return "other"


UNIVERSES = [
    ["/p/a/x", "/p/a/y.txt", "/p/a", "/p/b/z", "/p/b", "/p", "/p/a/sub/deep/f"],
    ["/p/a/x", "/q/b/y", "/", "/p"],
    ["a/b/c", "a/b", "a/d/e", "a"],
    ["rel", "other/x", "/abs/x"],
    ["/w/é/f", "/w/é/g h", "/w/é", "/w/日本/k"],
    ["/p/../q/x", "/p/../q/y", "../up/a", "../up/b"],
    ["/same/file", "/same/file"],
    # sibling names that extend one another with a byte that sorts below '/': src < src-old < src/sub in byte order
    ["/proj/src/main.rs", "/proj/src-old/x.rs", "/proj/src/sub/y.rs", "/proj/conf.d/a", "/proj/conf/b", "/proj/conf/sub/c"],
    ["/w/d", "/w/d/f", "/w/d/g"],
]


class C17(Prop):
    pid = "C17"
    generators = ["fskinds", "pathcats"]
    coq_targets = ["Run/EvalC17.vo"]
    bins = ["h_codec", "h_cli"]
    trusted = [
        "modelled, not verified: std::path component semantics (components, parent, strip_prefix, PathBuf::push) on "
        "normalised path strings (no '//' or '/./' or trailing '/': strip_prefix would keep such redundancy verbatim in "
        "the entry; generators exclude it), HashMap/HashSet as sets, OsString byte order",
        "names containing the ':' separator make the joined value ambiguous by design and are excluded",
    ]

    def gen(self, r, n, kinds):
        cases = []
        for i in range(n):
            uni = list(r.choice(UNIVERSES))
            if r.random() < 0.2:
                uni += r.choice(UNIVERSES)
            evs = []
            for _ in range(r.choice([0, 1, 1, 2, 3, 4, 6])):
                tags = []
                for _ in range(r.choice([0, 1, 1, 1, 2, 3])):
                    p = r.choice(uni)
                    tags.append({"t": "path", "p": p, "ft": r.choice([None, "file", "file", "dir", "dir", "symlink", "other"])})
                for _ in range(r.choice([0, 1, 1, 1, 2])):
                    tags.append({"t": "fek", "k": r.choice(kinds)})
                if r.random() < 0.3:
                    tags.append({"t": "source", "s": "Filesystem"})
                r.shuffle(tags)
                evs.append({"tags": tags, "meta": {}})
            cases.append({"events": evs})
        # always: three trunks of the shape D, D-x, D/sub (the middle one sorts between the other two), with no path in the common directory
        for trio in (["/proj/src/main.rs", "/proj/src-old/x.rs", "/proj/src/sub/y.rs"], ["/proj/conf/b", "/proj/conf.d/a", "/proj/conf/sub/c"]):
            for k in (kinds[0], kinds[len(kinds) // 2]):
                cases.append({"events": [{"tags": [{"t": "path", "p": p, "ft": "file"}, {"t": "fek", "k": k}], "meta": {}} for p in trio]})
        return cases

    def correspond(self, tier, seed, deep=False):
        c = Corr()
        c.rule = ("generated batches of 0-6 events, each with 0-3 path tags (from universes with shared, disjoint, relative, "
                  "'..'-containing, multi-byte and duplicate paths; file/dir/symlink/unknown types) and 0-2 fs kinds drawn from all "
                  "41; environment summary and simple line format computed by both sides. non-trivial = distinct batches with at "
                  "least one event having both a path and a kind")
        t = translate.TABLES.get("fskinds")
        if not t:
            c.errors.append("fs kind family not translated")
            return c
        fam = t["family"]
        kinds = all_kind_strings(fam)
        r = rng(seed, "c17")
        cases = self.gen(r, 500 if tier == "quick" else 8000, kinds)
        d = scratch("c17")
        write_jsonl(os.path.join(d, "cases.jsonl"), cases)
        rc1, o1, out1 = run_harness("h_codec", ["paths-summary", os.path.join(d, "cases.jsonl")])
        rc2, o2, out2 = run_harness("h_cli", ["simple-format", os.path.join(d, "cases.jsonl")])
        rc3, o3, out3 = run_harness("h_cli", ["env-summary", os.path.join(d, "cases.jsonl")])
        if rc1 or rc2 or rc3 or len(o1) != len(cases) or len(o2) != len(cases) or len(o3) != len(cases):
            c.errors.append(f"harness failed: {(out1 + out2 + out3)[-800:]}")
            return c
        # the environment the CLI hands to the command is the summary, variable for variable (empty values included)
        for case, a, b in zip(cases, o1, o3):
            want = sorted([f"WATCHEXEC_{k}_PATH", v] for k, v in a["summary"])
            if sorted(map(list, b["env"])) != want:
                c.failing.append({"case": case, "impl": b["env"], "expected": want,
                                  "clause": "C17: the environment variables handed to the command differ from the path summary"})

        def batch_term(case):
            evs = []
            for e in case["events"]:
                ps = coq_list([f"({cs(t['p'])}, {'true' if t.get('ft') == 'dir' else 'false'})" for t in e["tags"] if t["t"] == "path"])
                ks = coq_list([kind_term(fam, "EventKind", t["k"]) for t in e["tags"] if t["t"] == "fek"])
                evs.append(f"({ps}, {ks})")
            return coq_list(evs)
        terms = [f"eval_summary {batch_term(x)}" for x in cases] + [f"eval_simple {batch_term(x)}" for x in cases]
        res, err = coq_eval("c17", ["Gen.FsKinds_gen", "Codec.Paths", "Run.EvalC17"], terms)
        if err:
            c.errors.append("model evaluation failed: " + err[-800:])
            return c
        n = len(cases)
        for i, case in enumerate(cases):
            c.evaluations += 1
            summ = {k: v for k, v in o1[i]["summary"]}
            impl_s = "[" + ",".join(f"{k}={v}" for k, v in sorted(summ.items())) + "]"
            lines = o2[i]["lines"].split("\n")[:-1] if o2[i]["lines"] else []
            impl_l = "[" + ",".join(lines) + "]"
            ok = True
            if impl_s != res[i]:
                ok = False
                c.disagreements.append({"case": case, "impl": impl_s, "model": res[i], "what": "summary"})
            if impl_l != res[n + i]:
                ok = False
                c.disagreements.append({"case": case, "impl": impl_l, "model": res[n + i], "what": "simple format"})
            c.validated += ok
            pe = [(
                [(t["p"], t.get("ft")) for t in e["tags"] if t["t"] == "path"],
                [t["k"] for t in e["tags"] if t["t"] == "fek"]) for e in case["events"]]
            c.count(f"events={len(pe)}")
            c.count("common=" + ("yes" if "COMMON" in summ else "no"))
            if any(ps and ks for ps, ks in pe):
                c.nontrivial.add(json.dumps(case, sort_keys=True))
            if len(c.samples) < 3 and any(ps and ks for ps, ks in pe) and len(pe) > 1:
                c.samples.append({"case": case, "impl": impl_s, "model": res[i], "impl_lines": impl_l})
            # ---- monitors on the implementation's output
            common = comps(summ["COMMON"]) if "COMMON" in summ else []
            entries = {k: (v.split(":") if v != "" else [""]) for k, v in summ.items() if k != "COMMON"}
            bad = None
            want = {}
            for ps, ks in pe:
                for p, _ in ps:
                    for k in ks:
                        want.setdefault(category(k), set()).add(tuple(comps(p)))
            for cat, paths in want.items():
                have = {tuple(common + comps(e)) for e in entries.get(cat, [])} if cat in entries else set()
                if not paths <= have:
                    bad = f"C17_reconstruct: a path of category {cat} is not recoverable from its variable"
                if cat in entries and not have <= paths:
                    bad = f"C17_bucket_exact: variable {cat} lists a path no event of that kind has"
            for cat in entries:
                if cat not in want:
                    bad = f"C17_bucket_exact: variable {cat} present without any event of that category"
                es = [e.encode() for e in entries[cat]]
                if any(a >= b for a, b in zip(es, es[1:])):
                    bad = f"C17_sorted_nodup: entries of {cat} not strictly byte-sorted"
            trunks = []
            for ps, _ in pe:
                for p, ft in ps:
                    cp = comps(p)
                    par = None if (not cp or cp == ["/"]) else cp[:-1]
                    trunks.append(cp if ft == "dir" or par is None else par)
            if trunks:
                lcp = trunks[0]
                for tr in trunks[1:]:
                    j = 0
                    while j < min(len(lcp), len(tr)) and lcp[j] == tr[j]:
                        j += 1
                    lcp = lcp[:j]
                if common != lcp:
                    bad = "C17_common_longest: COMMON is not the longest common directory of the trunks"
            elif "COMMON" in summ:
                bad = "C17_common_longest: COMMON present without any path"
            exp_lines = []
            for ps, ks in pe:
                for p, _ in ps:
                    exp_lines += [f"{simple(k)}:{p}" for k in ks] if ks else [f"other:{p}"]
            if lines != exp_lines:
                bad = "C17_simple_format: lines are not the (kind,path) pairs per event in event order"
            if bad:
                c.failing.append({"case": case, "impl": {"summary": summ, "lines": lines}, "clause": bad})
        return c


PROP = C17()
