"""C07 -- every control completes and every ticket resolves."""
from vlib import *
from props.jobcommon import *
from props.c04 import C04


def monitor(case, o):
    out = []
    evs = parse_log(o)
    running_at_end = False
    live = set()
    for t, ev, a in evs:
        if ev == "spawn":
            live.add(a[0])
        elif ev in ("reap", "drop"):
            live.discard(a[0])
    running_at_end = bool(live) and not o["dead"]
    for k, (op, ws) in enumerate(zip(case["ops"], o["tickets"])):
        if op["op"] == "drop_handle":
            continue            # no ticket
        if len(set(ws)) > 1:
            out.append(("C07_multi_waiter: waiters on clones of one ticket resolved differently", f"op {k} {op['op']}: {ws}"))
        if any(w is None for w in ws):
            if (op["op"] == "to_wait" or (op["op"] == "raw" and op["ctrl"] == "NextEnding")) and running_at_end:
                continue        # legitimately waiting for a process that never ends
            out.append(("C07_no_ticket_lost: ticket never resolved although every timer has expired", f"op {k} {op['op']} at {op['at']}"))
    if o["panicked"]:
        out.append(("C07_job_end_releases: the job task panicked", ""))
    # liveness bound: every control is executed (its ticket resolved) by now + slack of the model at the end of the sends
    b = case.get("_bound")
    if b is not None and not any(op["op"] == "raw" and op["ctrl"] == "NextEnding" for op in case["ops"]):
        for k, (op, ws) in enumerate(zip(case["ops"], o["tickets"])):
            if op["op"] in ("to_wait", "drop_handle") or ws[0] is None:
                continue
            if ws[0] > b:
                out.append(("C07_every_ticket_resolves: a control was executed later than the grace periods in effect allow",
                            f"op {k} {op['op']} at {op['at']} resolved at {ws[0]}, bound {b}"))
    return out


monitor.wants_bound = True


class C07(C04):
    pid = "C07"
    coq_targets = ["Run/EvalJob.vo", "Run/EvalC08.vo"]

    def correspond(self, tier, seed, deep=False):
        r = rng(seed, "c07x")
        extra = []
        for i in range(60 if tier == "quick" else 600):
            h = gen_history(r, 0, maxops=6)
            h["waiters"] = r.choice([2, 3, 4])
            h["late_clone"] = i % 2 == 1        # all waiters but the first poll their ticket once and then wait on a clone of the polled ticket
            extra.append(h)
        # many controls pending at once (behind a busy task, behind an armed grace timer): every ticket still resolves
        for n, held in ((100, "busy"), (300, "timer"), (100, "timer")):
            ops = [{"at": 0, "op": "start", "yield": True}]
            ops.append({"at": 10, "op": "run_async", "mark": 0, "dur": 30, "yield": True} if held == "busy" else
                       {"at": 10, "op": "stop_with_signal", "sig": "Terminate", "grace": 50, "yield": True})
            ops += [{"at": 20, "op": "run", "mark": k + 1, "yield": False} for k in range(n)]
            ops[-1]["yield"] = True
            extra.append({"id": 0, "monitor_only": "depth", "script": {"children": [{"self_exit": None, "ignore_all": True}], "spawn_fail": [], "signal_fail": [], "kill_fail": []},
                          "ops": ops, "waiters": 2, "tail": 1000})
        c = job_check(self, "thorough" if deep else tier, seed, monitor, extra)
        if not c.errors:
            mt_check(c, "c07", seed, 24 if tier == "quick" and not deep else 300, mt_monitor_tickets)
        return c


PROP = C07()
