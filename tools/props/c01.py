"""C01 -- accepted events reach the action handler exactly once; rejected ones never."""
import json, os
from vlib import *
from props.workercommon import *


def monitors_c01(case, seq, batches, filt, sent):
    out = []
    evs = {e["id"]: e for e in case["events"]}
    mult = {}
    for e in case["events"]:
        mult[e["id"]] = mult.get(e["id"], 0) + 1
    count = {}
    for ts, ids, te in batches:
        if not ids:
            out.append(("C01_no_empty_batch: handler invoked with an empty batch", ts))
        for i in ids:
            count[i] = count.get(i, 0) + 1
    for i, e in evs.items():
        ok = sent.get(i, {}).get("ok", False)
        acc = e.get("prio") == "urgent" or e.get("empty") or e.get("verdict", "pass") == "pass"
        n = count.get(i, 0)
        if ok and acc and n != mult[i]:
            out.append((f"C01_conservation: accepted event delivered {n} times (sent {mult[i]} times)", e))
        if not acc and n:
            out.append(("C01_rejected_never: an event the filter rejected or errored on reached the handler", e))
        if acc is False and e.get("verdict") in ("reject", "err") and i not in filt and ok and e.get("prio") != "urgent" and not e.get("empty"):
            out.append(("C01_filter_called_once: a non-urgent non-empty event was never filtered", e))
        if (e.get("prio") == "urgent" or e.get("empty")) and i in filt:
            out.append(("C01_filter_called_once: an urgent or empty event was filtered", e))
    return out


class C01(Prop):
    pid = "C01"
    generators = []
    coq_targets = ["Run/EvalWorker.vo"]
    bins = ["h_worker"]
    trusted = [
        "partial: the fs / signal / keyboard sources are not in the model (what notify reports for a file operation is OS behaviour); "
        "the modelled core is throttle_collect + the handler loop, driven through the public action::worker with real channels",
        "modelled, not verified: async-priority-channel (BinaryHeap pop = some element of maximal priority; Worker/Queue.v), tokio timeout, "
        "std::time::Instant (real clock: the harness runs in real time; the model is evaluated on the observed receive instants; cases whose "
        "receive instants fall within 18 ms of a window edge are validated by the monitors only)",
    ]

    def correspond(self, tier, seed, deep=False):
        c = worker_check(self, "thorough" if deep else tier, seed, "c01")
        if not c.errors:
            fsreal_check(c, seed, 6 if tier == "quick" and not deep else 60)
        return c


def fsreal_check(c, seed, n):
    """real filesystem operations (create / write / rename / remove, nested directories) under the native and the poll watcher:
    whatever events the OS reports, every event the filter passed reaches the handler exactly once, the rejected ones never
    (multiset comparison of what the filter saw and what the handler got); every created path is reported at least once"""
    from collections import Counter
    r = rng(seed, "fsreal")
    cases = []
    for i in range(n):
        watcher = "native" if i % 2 == 0 else "poll"
        gap = 150 if watcher == "native" else 300
        names = ["a.txt", "b.log", "rejected.tmp", "sub/c.txt", "sub/deep/d.txt", "e"]
        ops, t, existing = [], 300, []
        for k in range(r.randint(3, 8)):
            choice = r.choice(["create", "create", "write", "mkdir", "rename", "remove"])
            if choice == "mkdir":
                ops.append({"at_ms": t, "op": "mkdir", "path": r.choice(["sub", "sub/deep", "other"])})
            elif choice == "create" or not existing:
                p = r.choice(names)
                if "/" in p:
                    ops.append({"at_ms": t, "op": "mkdir", "path": p.rsplit("/", 1)[0]})
                    t += gap
                ops.append({"at_ms": t, "op": "create", "path": p})
                if p not in existing:
                    existing.append(p)
            elif choice == "write":
                ops.append({"at_ms": t, "op": "write", "path": r.choice(existing)})
            elif choice == "rename":
                p = existing.pop(r.randrange(len(existing)))
                to = f"renamed{k}.txt"
                ops.append({"at_ms": t, "op": "rename", "path": p, "to": to})
                existing.append(to)
            else:
                ops.append({"at_ms": t, "op": "remove", "path": existing.pop(r.randrange(len(existing)))})
            t += gap
        cases.append({"id": i, "watcher": watcher, "throttle_ms": r.choice([0, 50, 100]), "ops": ops, "tail_ms": 600})
    # the watched set changes while running (same root with the recursive flag toggled; a recursive root replaced by a nested directory):
    # a file created afterwards under a path the configuration says is watched is reported and reaches the handler
    for watcher in ("native", "poll"):
        g = 250 if watcher == "native" else 400
        for entries, target in (([{"path": "", "recursive": False}], "top.txt"), ([{"path": "sub", "recursive": True}], "sub/inner.txt"),
                                ([{"path": "", "recursive": True}, {"path": "sub", "recursive": False}], "sub/again.txt")):
            cases.append({"id": len(cases), "watcher": watcher, "throttle_ms": 50, "tail_ms": 700, "ops": [
                {"at_ms": 300, "op": "mkdir", "path": "sub"}, {"at_ms": 300 + g, "op": "repath", "entries": entries},
                {"at_ms": 300 + 3 * g, "op": "create", "path": target}]})
    # a watched path that does not exist yet: its registration fails; once it exists and the same set is applied again it is watched
    # (native watcher only: notify's poll watcher answers Ok for a missing path and then never looks at it -- library behaviour)
    for watcher in ("native",):
        g = 250 if watcher == "native" else 400
        ent = [{"path": "", "recursive": False}, {"path": "late", "recursive": True}]
        cases.append({"id": len(cases), "watcher": watcher, "throttle_ms": 50, "tail_ms": 800, "ops": [
            {"at_ms": 300, "op": "repath", "entries": ent}, {"at_ms": 300 + g, "op": "mkdir", "path": "late"},
            {"at_ms": 300 + 2 * g, "op": "repath", "entries": ent}, {"at_ms": 300 + 4 * g, "op": "create", "path": "late/f.txt"}]})
    for watcher in ("native", "poll"):
        g = 250 if watcher == "native" else 400
        cases.append({"id": len(cases), "watcher": watcher, "throttle_ms": 50, "tail_ms": 800, "ops": [
            {"at_ms": 300, "op": "create", "path": "kept.txt"}, {"at_ms": 300 + (2 * g if watcher == "native" else 1300), "op": "write", "path": "kept.txt"}]})
    n = len(cases)
    d = scratch("fsreal")
    procs = min(6, n)
    chunks = [cases[i::procs] for i in range(procs)]
    from concurrent.futures import ThreadPoolExecutor

    def one(k):
        f = os.path.join(d, f"cases_{k}.jsonl")
        write_jsonl(f, chunks[k])
        return run_harness("h_worker", ["fsreal", f, os.path.join(d, f"fs{k}")], timeout=900)
    out = {}
    with ThreadPoolExecutor(max_workers=procs) as ex:
        for k, (rc, objs, txt) in enumerate(ex.map(one, range(procs))):
            if rc != 0 or len(objs) != len(chunks[k]):
                c.errors.append(f"h_worker fsreal failed rc={rc}: {txt[-600:]}")
                return
            for o in objs:
                out[o["id"]] = o
    for case in cases:
        o = out[case["id"]]
        c.evaluations += 1
        c.count("fsreal:" + case["watcher"])
        filt = [l for l in o["log"] if l["k"] == "filter"]
        passed = Counter(l["key"] for l in filt if l["pass"])
        rejected = {l["key"] for l in filt if not l["pass"]}
        delivered = Counter(k for l in o["log"] if l["k"] == "batch" for k in l["keys"])
        brief = {"id": case["id"], "watcher": case["watcher"], "throttle_ms": case["throttle_ms"], "ops": case["ops"]}
        ok = True
        if passed != delivered:
            ok = False
            diff = {"passed_not_delivered": list((passed - delivered).elements())[:4], "delivered_not_passed": list((delivered - passed).elements())[:4]}
            c.failing.append({"case": brief, "impl": diff, "clause": "C01_conservation: events passed by the filter and events handed to the handler differ (real filesystem events)"})
        if rejected & set(delivered):
            ok = False
            c.failing.append({"case": brief, "impl": sorted(rejected & set(delivered))[:3], "clause": "C01_rejected_never: a rejected filesystem event reached the handler"})
        # a file created (and left in place for at least one gap) under the watched root is reported at least once
        later = {}
        for k, op in enumerate(case["ops"]):
            if op["op"] == "create":
                nxt = [q for q in case["ops"][k + 1:] if q.get("path") == op["path"] or q.get("path", "x") in op["path"]]
                full = o["dir"] + "/" + op["path"]
                if not nxt and not any(full in l["key"] for l in filt):
                    ok = False
                    c.failing.append({"case": brief, "impl": {"filter_saw": sorted({l["key"] for l in filt})[:6]},
                                      "clause": f"C01_conservation: the creation of {op['path']} under a watched path was never reported, so it reached no batch"})
        # a write to a file that exists (and is left alone afterwards) is reported after the write, under either watcher
        oplog = [l for l in o["log"] if l["k"] == "op"]
        for k, op in enumerate(case["ops"]):
            if op["op"] == "write" and not any(q.get("path") == op["path"] or q.get("path", "\0") in op["path"] for q in case["ops"][k + 1:]):
                full = o["dir"] + "/" + op["path"]
                tw = next((l["t"] for l in oplog if l["op"] == "write" and l["path"] == full and l["ok"]), None)
                prev = [q["at_ms"] for q in case["ops"][:k] if q["op"] in ("create", "write") and q["path"] == op["path"]]
                # notify's poll watcher compares modification times in whole seconds: a second write within the same second is invisible to it
                created_before = bool(prev) and (case["watcher"] == "native" or op["at_ms"] - max(prev) >= 1150)
                if tw is not None and created_before and not any(full in l["key"] and l["t"] >= tw for l in filt):
                    ok = False
                    c.failing.append({"case": brief, "impl": {"filter_saw": sorted({l["key"] for l in filt})[:6]},
                                      "clause": f"C01_conservation: the write to the existing file {op['path']} under a watched path was never reported, so it reached no batch"})
        if any(not l["keys"] for l in o["log"] if l["k"] == "batch"):
            ok = False
            c.failing.append({"case": brief, "impl": "empty batch", "clause": "C01_no_empty_batch (real filesystem events)"})
        if filt:
            c.nontrivial.add(json.dumps(brief))
        c.validated += ok
        c.extra["fsreal_events_seen"] = c.extra.get("fsreal_events_seen", 0) + len(filt)


def worker_check(P, tier, seed, which):
    from props.c02 import monitors_c02
    c = Corr()
    c.rule = ("real-time scenarios from 12 families (single, burst, straddling the window end, continuous rejected / accepted streams, urgent "
              "flush, slow sync/async handler, 2-4 concurrent producers, empty events, filter errors, queue capacity 1-2, priority mix) with "
              "throttle 0/60/80/100 ms and throttles changed at run time (raised while idle, raised or lowered in the middle of a window), run against the public action::worker; the throttle model is evaluated on the observed receive "
              "instants and must yield the observed batches; monitors check conservation / timing directly on the observations. "
              "non-trivial = distinct scenarios with at least two events and one batch")
    r = rng(seed, "worker")
    n = 64 if tier == "quick" else 800
    cases = [scen(r, i) for i in range(n)]
    rule = c.rule
    # real time: a scenario that disagrees is re-run (alone, low parallelism) and reported only if it disagrees again
    c = confirm_realtime(lambda cs_, procs: worker_judge(P, cs_, which, min(procs, 8)), cases)
    c.rule = rule
    return c


def worker_judge(P, cases, which, procs):
    from props.c02 import monitors_c02
    c = Corr()
    try:
        obs = run_parallel("worker", cases, "worker_" + P.pid, procs=procs)
    except RuntimeError as e:
        c.errors.append(str(e))
        return c
    recs = [reconstruct(cs_, o) for cs_, o in zip(cases, obs)]
    res, err = coq_eval("worker_" + P.pid, ["Worker.Throttle", "Run.EvalWorker"],
                        [model_term(cs_, rec[0], throttle_sets(o)) for cs_, rec, o in zip(cases, recs, obs)])
    if err:
        c.errors.append("model evaluation failed: " + err[-800:])
        return c
    for case, o, rec, m in zip(cases, obs, recs, res):
        seq, batches, filt, sent, errors = rec
        c.evaluations += 1
        c.count("family=" + case["family"])
        mb, merrs = parse_model(m)
        amb = ambiguous(case, seq, mb, throttle_sets(o))
        if amb:
            c.count("ambiguous_timing")
        impl_ids = [ids for _, ids, _ in batches]
        model_ids = [b[3] for b in mb]
        err_ids = [int(l["e"].rsplit("id", 1)[1]) for l in errors]
        if (amb or impl_ids == model_ids) and err_ids == merrs:
            c.validated += 1
        else:
            c.disagreements.append({"case": case, "impl": {"batches": impl_ids, "errors": err_ids}, "model": {"batches": model_ids, "errors": merrs},
                                    "received": seq, "what": "batch composition / filter errors"})
        if len(case["events"]) >= 2 and batches:
            c.nontrivial.add(json.dumps(case, sort_keys=True))
        mons = monitors_c01(case, seq, batches, filt, sent) if which in ("c01", "c15") else []
        if which == "c02":
            mons = monitors_c02(case, seq, batches, filt, sent, mb if not amb else None, throttle_sets(o))
        for clause, detail in mons:
            c.failing.append({"case": case, "impl": {"batches": batches, "received": seq}, "clause": clause, "detail": detail})
        if len(c.samples) < 3 and len(batches) >= 2:
            c.samples.append({"case": case, "received_us": seq, "impl_batches": batches, "model": m})
    return c


PROP = C01()
