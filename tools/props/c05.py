"""C05 -- the on-busy policy decides what a change does to a running command."""
import json, os
from concurrent.futures import ThreadPoolExecutor
from vlib import *

SIGNUM = {"HUP": 1, "INT": 2, "QUIT": 3, "USR1": 10, "TERM": 15}
MODES = [  # (label, args, model mode, restart flag, --signal)
    ("default", [], 0, False, None),
    ("do-nothing", ["--on-busy-update=do-nothing"], 0, False, None),
    ("queue", ["--on-busy-update=queue"], 1, False, None),
    ("restart", ["--on-busy-update=restart"], 2, False, None),
    ("-r", ["-r"], 0, True, None),
    ("signal", ["--on-busy-update=signal"], 3, False, None),
    ("--signal=HUP", ["--signal=HUP"], 0, False, "HUP"),
    ("--signal=USR1+queue", ["--signal=USR1", "--on-busy-update=queue"], 1, False, "USR1"),
]
MARGIN = 30        # ms: a change batch and a process exit closer than this are not ordered by the observation
DEBOUNCE = 50


def eff_mode(m):
    _, _, mode, restart, sig = m
    return 3 if sig else (2 if restart else mode)


def gen_case(r, i, deep=False):
    m = r.choice(MODES)
    args = list(m[1])
    stop = r.choice([None, None, "INT", "USR1"])
    if stop:
        args.append(f"--stop-signal={stop}")
    postpone = r.random() < 0.25
    if postpone:
        args.append("--postpone")
    em = eff_mode(m)
    # child behaviour
    life = r.choice([150, 300, 600, 5000])
    script = [f"exit_after={life}"]
    react = r.choice(["exit:0", "exit:40", "ignore"])
    for name in ("term", "int", "hup", "usr1"):
        script.append(f"on_{name}={react}")
    if em == 2 and react == "ignore":
        args.append("--stop-timeout=120ms")
    # change schedule: batches of 1..3 events; gaps well above debounce
    evs, t = [], r.choice([60, 130, 220])
    nb = r.randint(1, 5 if deep else 4)
    for _ in range(nb):
        for k in range(r.choice([1, 1, 2, 3])):
            evs.append({"k": "change", "at_ms": t + k})
        t += r.choice([110, 180, 260, 420])
    wait = 800 if life < 5000 else 450
    return {"id": i, "label": m[0], "args": args, "child_script": ",".join(script), "events": evs, "wait_ms": wait,
            "mode": m[2], "restart": m[3], "signal": m[4], "stop": stop, "postpone": postpone, "eff": em, "life": life, "react": react}


CORPUS = [
    # D12: --signal together with --stop-signal (repaired by d25ed1f)
    {"label": "--signal=HUP", "args": ["--signal=HUP", "--stop-signal=INT"], "child_script": "exit_after=5000,on_hup=ignore,on_int=ignore",
     "events": [{"k": "change", "at_ms": 150}], "wait_ms": 400, "mode": 0, "restart": False, "signal": "HUP", "stop": "INT",
     "postpone": False, "eff": 3, "life": 5000, "react": "ignore"},
    # queue: three batches during one run
    {"label": "queue", "args": ["--on-busy-update=queue"], "child_script": "exit_after=600",
     "events": [{"k": "change", "at_ms": 100}, {"k": "change", "at_ms": 250}, {"k": "change", "at_ms": 400}], "wait_ms": 900,
     "mode": 1, "restart": False, "signal": None, "stop": None, "postpone": False, "eff": 1, "life": 600, "react": "exit:0"},
    # queue: a change during run N and another during the queued run N+1: three runs
    {"label": "queue", "args": ["--on-busy-update=queue"], "child_script": "exit_after=300",
     "events": [{"k": "change", "at_ms": 100}, {"k": "change", "at_ms": 450}], "wait_ms": 900,
     "mode": 1, "restart": False, "signal": None, "stop": None, "postpone": False, "eff": 1, "life": 300, "react": "exit:0"},
    {"label": "queue", "args": ["--on-busy-update=queue", "--postpone"], "child_script": "exit_after=250",
     "events": [{"k": "change", "at_ms": 60}, {"k": "change", "at_ms": 200}, {"k": "change", "at_ms": 460}, {"k": "change", "at_ms": 720}], "wait_ms": 900,
     "mode": 1, "restart": False, "signal": None, "stop": None, "postpone": True, "eff": 1, "life": 250, "react": "exit:0"},
    # restart: back-to-back changes, each restarts
    {"label": "-r", "args": ["-r"], "child_script": "exit_after=5000,on_term=exit:0",
     "events": [{"k": "change", "at_ms": 150}, {"k": "change", "at_ms": 400}, {"k": "change", "at_ms": 650}], "wait_ms": 400,
     "mode": 0, "restart": True, "signal": None, "stop": None, "postpone": False, "eff": 2, "life": 5000, "react": "exit:0"},
    # a change and a forwarded OS signal in one debounce window: the signal is passed on AND the change is acted upon
    {"label": "default", "args": ["--postpone"], "child_script": "exit_after=5000,on_usr1=ignore,on_term=exit:0",
     "events": [{"k": "change", "at_ms": 100}, {"k": "signal", "sig": "User1", "at_ms": 120}], "wait_ms": 500,
     "mode": 0, "restart": False, "signal": None, "stop": None, "postpone": True, "eff": 0, "life": 5000, "react": "exit:0"},
    {"label": "-r", "args": ["-r"], "child_script": "exit_after=5000,on_usr1=ignore,on_term=exit:0",
     "events": [{"k": "signal", "sig": "User1", "at_ms": 200}, {"k": "change", "at_ms": 215}], "wait_ms": 500,
     "mode": 0, "restart": True, "signal": None, "stop": None, "postpone": False, "eff": 2, "life": 5000, "react": "exit:0"},
    {"label": "queue", "args": ["--on-busy-update=queue"], "child_script": "exit_after=400,on_usr1=ignore",
     "events": [{"k": "change", "at_ms": 150}, {"k": "signal", "sig": "User1", "at_ms": 170}], "wait_ms": 900,
     "mode": 1, "restart": False, "signal": None, "stop": None, "postpone": False, "eff": 1, "life": 400, "react": "exit:0"},
    # a stop timeout written without a unit is in seconds: the ignoring command is killed one second after the stop signal
    {"label": "-r", "args": ["-r", "--stop-timeout=1"], "child_script": "exit_after=5000,on_term=ignore",
     "events": [{"k": "change", "at_ms": 150}], "wait_ms": 1600,
     "mode": 0, "restart": True, "signal": None, "stop": None, "postpone": False, "eff": 2, "life": 5000, "react": "ignore"},
    # the boundary value: a zero stop timeout kills at once, and the fresh run still follows (twice)
    {"label": "-r", "args": ["-r", "--stop-timeout=0"], "child_script": "exit_after=5000,on_term=ignore",
     "events": [{"k": "change", "at_ms": 150}, {"k": "change", "at_ms": 450}], "wait_ms": 600,
     "mode": 0, "restart": True, "signal": None, "stop": None, "postpone": False, "eff": 2, "life": 5000, "react": "ignore"},
    {"label": "-r", "args": ["-r", "--stop-timeout=0ms"], "child_script": "exit_after=5000,on_term=exit:0",
     "events": [{"k": "change", "at_ms": 150}], "wait_ms": 500,
     "mode": 0, "restart": True, "signal": None, "stop": None, "postpone": False, "eff": 2, "life": 5000, "react": "exit:0"},
    # start-up with a long debounce and no change at all: the first run is not held back by the debounce window
    {"label": "default", "args": ["--debounce=1s"], "child_script": "exit_after=5000,on_term=exit:0",
     "events": [], "wait_ms": 500,
     "mode": 0, "restart": False, "signal": None, "stop": None, "postpone": False, "eff": 0, "life": 5000, "react": "exit:0"},
    # changes arriving while the in-job --delay-run sleep of the first one is still in progress: several Start controls for one idle job,
    # the later ones handled when the command is already running -- one run, nothing stopped
    {"label": "default", "args": ["--postpone", "--delay-run=300ms"], "child_script": "exit_after=5000,on_term=exit:0",
     "events": [{"k": "change", "at_ms": 100}, {"k": "change", "at_ms": 230}, {"k": "change", "at_ms": 500}], "wait_ms": 1500,
     "mode": 0, "restart": False, "signal": None, "stop": None, "postpone": True, "eff": 0, "life": 5000, "react": "exit:0"},
    # --map-signal is about OS signals received by watchexec: it does not touch the signal that signal mode sends to the command
    {"label": "--signal=USR1", "args": ["--signal=USR1", "--map-signal=USR1:USR2"], "child_script": "exit_after=5000,on_usr1=ignore,on_usr2=ignore",
     "events": [{"k": "change", "at_ms": 150}], "wait_ms": 400, "mode": 0, "restart": False, "signal": "USR1", "stop": None,
     "postpone": False, "eff": 3, "life": 5000, "react": "ignore"},
    {"label": "--signal=HUP", "args": ["--signal=HUP", "--map-signal=HUP:"], "child_script": "exit_after=5000,on_hup=ignore",
     "events": [{"k": "change", "at_ms": 150}], "wait_ms": 400, "mode": 0, "restart": False, "signal": "HUP", "stop": None,
     "postpone": False, "eff": 3, "life": 5000, "react": "ignore"},
    # do-nothing then idle start
    {"label": "default", "args": [], "child_script": "exit_after=300",
     "events": [{"k": "change", "at_ms": 100}, {"k": "change", "at_ms": 500}], "wait_ms": 700,
     "mode": 0, "restart": False, "signal": None, "stop": None, "postpone": False, "eff": 0, "life": 300, "react": "exit:0"},
]


def run_parallel(cases, tag, procs=16):
    d = scratch(tag)
    chunks = [cases[i::procs] for i in range(procs)]

    def one(k):
        if not chunks[k]:
            return 0, [], ""
        f = os.path.join(d, f"cases_{k}.jsonl")
        import translate
        sp = (translate.TABLES.get("sourceprio") or {}).get("startup", "Urgent")
        write_jsonl(f, [dict(cc, startup_prio=sp) for cc in chunks[k]])
        objs = []
        while len(objs) < len(chunks[k]):          # a hung case ends the process: resume after it
            rc, part, txt = run_harness("h_cli", ["onbusy", f, os.path.join(d, f"fs{k}"), str(len(objs))], timeout=900)
            if rc != 0 or not part or (len(objs) + len(part) < len(chunks[k]) and not part[-1].get("hung")):
                return rc or 1, objs + part, txt
            objs += part
        return 0, objs, ""
    out = {}
    with ThreadPoolExecutor(max_workers=procs) as ex:
        for k, (rc, objs, txt) in enumerate(ex.map(one, range(procs))):
            if rc != 0 or len(objs) != len(chunks[k]):
                raise RuntimeError(f"h_cli onbusy failed rc={rc}: {txt[-600:]}")
            for o in objs:
                out[o["id"]] = o
    return [out[c["id"]] for c in cases]


def timeline(case, o):
    """-> (items sorted by time, ambiguous?) ; items are (t, kind, payload)"""
    items = []
    batches = []
    for s in o["sent"]:
        if s["k"] == "startup":
            items.append((s["t"], "chg", None))
        elif s["k"] in ("change", "signal"):
            # the debounce window is opened by the first event of any kind; the batch acts as a change if it holds one
            if batches and s["t"] - batches[-1][0] < DEBOUNCE - 5:
                batches[-1][1] += 1 if s["k"] == "change" else 0
            else:
                batches.append([s["t"], 1 if s["k"] == "change" else 0])
    for t, n in batches:
        if n:
            items.append((t + DEBOUNCE, "chg", n))
    stopped = set()
    sigs = []
    fwd = {{"User1": 10, "User2": 12, "Hangup": 1}.get(e.get("sig")) for e in case["events"] if e["k"] == "signal"}
    for l in o["child_log"]:
        if l["ev"] == "start":
            items.append((l["t"], "start", l))
        elif l["ev"] == "signal" and l["sig"] in fwd:
            continue                      # an OS signal passed on to the command: not an on-busy action
        elif l["ev"] == "signal":
            items.append((l["t"], "sig", l))
            sigs.append(l)
            if case["eff"] == 2:
                stopped.add(l["pid"])
        elif l["ev"] == "end":
            # in restart mode the exit that follows the stop signal is part of the restart
            items.append((l["t"], "stopend" if l["pid"] in stopped else "exit", l))
    items.sort(key=lambda x: x[0])
    amb = False
    chg_t = [t for t, k, _ in items if k == "chg"]
    for t, k, _ in items:
        if k in ("exit",) and any(abs(t - c) < MARGIN for c in chg_t):
            amb = True
    # a change batch handled while the previous restart is still stopping the child
    if case["eff"] == 2:
        stopping = False
        for t, k, _ in items:
            if k == "sig":
                stopping = True
            elif k == "start":
                stopping = False
            elif k == "chg" and stopping:
                amb = True
    return items, amb


def observed_string(case, items):
    out = []
    for t, k, l in items:
        if k == "chg":
            out.append("chg")
        elif k == "start":
            out.append("start")
        elif k == "sig":
            out.append(f"sig{l['sig']}")
        elif k == "exit":
            out.append("exit")
    return out


def expand_model(s):
    acts = s.strip("[]").split(",") if s != "[]" else []
    out = []
    for a in acts:
        a = a.strip()
        if a.startswith("stop") and a.endswith("+start"):
            out += ["sig" + a[4:-6], "start"]
        else:
            out.append(a)
    return out


class C05(Prop):
    pid = "C05"
    generators = ["onbusy", "jobapi", "sourceprio"]
    coq_targets = ["Run/EvalC05.vo"]
    bins = ["h_cli", "simchild"]
    level = "proof"
    trusted = [
        "run-level model (Cli/OnBusy.v) written by hand from cli/src/config.rs (action handler and the in-job query closure) and "
        "cli/src/args/events.rs::normalise; tied to the code by running the real CLI action handler in-process (clap parsing, "
        "make_config, Watchexec::main, real job supervisor, real child processes) on generated scenarios with injected change events",
        "modelled, not verified: the handling of one change batch is atomic in the model; debounce coalescing is reproduced by the "
        "harness (a batch = changes sent within the 50 ms debounce window); change batches and process exits closer than 30 ms are "
        "not ordered by the observation and such cases are counted but not compared",
        "real time and real processes: the scenario is observed through the child's own log (start, signals received, exit, other "
        "children alive at start), so a signal lost by the OS or a >30 ms scheduling delay shows up as an ambiguous case, not as a verdict",
    ]

    def correspond(self, tier, seed, deep=False):
        c = Corr()
        n = 64 if tier == "quick" and not deep else 600
        c.rule = (f"{n} generated CLI scenarios + corpus: mode in {{default, do-nothing, queue, restart, -r, signal, --signal=HUP, "
                  "--signal=USR1 with --on-busy-update=queue} x optional --stop-signal/--postpone/--stop-timeout x child life 150..5000 ms "
                  "x child reaction to the signal (exit, exit after 40 ms, ignore) x 1..5 change batches of 1..3 events; the observed "
                  "sequence (change batches, child starts, signals received with their number, child exits) is compared with the model's "
                  "action log for the same order of change batches and exits; monitors on the observation alone: no overlap, signal "
                  "number, freshness, queue-once, start-up. non-trivial = scenario with a change batch handled while the command runs")
        r = rng(seed, "c05" + ("deep" if deep else ""))
        cases = []
        for k, cc in enumerate(CORPUS):
            cc = dict(cc)
            cc["id"] = k
            cases.append(cc)
        cases += [gen_case(r, 100 + i, deep) for i in range(n)]
        c = confirm_realtime(lambda cs, procs: self.judge(cs, procs, c.rule), cases)
        if (tier != "quick" or deep) and not c.errors:
            c.absorb(self.racy(40))
        return c

    def racy(self, n):
        """the command ends by itself while the handler's --delay-run sleep is in progress: the in-job query then sees a stale
        'running' state and the restart it queues is processed after the process-end (or before it: select! picks at random).
        Judged by the freshness clause alone; not re-run (the interleaving is random by design)."""
        c = Corr()
        cases = [{"id": 5000 + i, "label": "-r+delay-run", "args": ["-r", "--delay-run=300ms"], "child_script": "exit_after=400,on_term=exit:0",
                  "events": [{"k": "change", "at_ms": 500}], "wait_ms": 1300} for i in range(n)]
        try:
            obs = run_parallel(cases, "c05racy", procs=8)
        except RuntimeError as e:
            c.errors.append(str(e))
            return c
        for case, o in zip(cases, obs):
            c.evaluations += 1
            c.count("racy:-r+delay-run")
            starts = [l["t"] for l in o["child_log"] if l["ev"] == "start"]
            chg = [x["t"] for x in o["sent"] if x["k"] == "change"]
            if chg and not any(t > chg[-1] for t in starts):
                c.failing.append({"case": {"id": case["id"], "args": case["args"], "child": case["child_script"], "events": [500]},
                                  "impl": [(l["ev"], l["t"] - o["t0"]) for l in o["child_log"]],
                                  "clause": "C05_freshness_restart: the last change was not followed by a run (the command ended at the moment of the decision)"})
            else:
                c.validated += 1
        return c

    def judge(self, cases, procs, rule):
        c = Corr()
        c.rule = rule
        try:
            obs = run_parallel(cases, "c05", procs=procs)
        except RuntimeError as e:
            c.errors.append(str(e))
            return c
        terms, meta = [], []
        hung = [(case, o) for case, o in zip(cases, obs) if o.get("hung")]
        for case, o in hung:
            c.evaluations += 1
            c.disagreements.append({"case": {"id": case["id"], "args": case["args"], "child": case["child_script"]}, "impl": "no progress", "model": "-",
                                    "what": "sequence of change/start/signal/exit"})
            c.failing.append({"case": {"id": case["id"], "args": case["args"], "child": case["child_script"], "events": [e["at_ms"] for e in case["events"]]},
                              "impl": "the instance made no progress for 10 s past the end of the scenario",
                              "clause": "C05: after a change the command is neither restarted nor left alone -- the job task spins and stalls the instance"})
        keep = [(case, o) for case, o in zip(cases, obs) if not o.get("hung")]
        cases, obs = [k[0] for k in keep], [k[1] for k in keep]
        for case, o in zip(cases, obs):
            if "error" in o:
                c.errors.append(f"harness error on {case['args']}: {o['error']}")
                return c
            items, amb = timeline(case, o)
            es = []
            first = True
            for t, k, _ in items:
                if k == "chg":
                    if first and not case["postpone"]:
                        first = False      # the start-up event is part of boot
                        continue
                    es.append("0")
                elif k == "exit":
                    es.append("1")
            def optn(x):
                return f"(Some {SIGNUM[x]})" if x else "None"
            terms.append(f"(eval_onbusy {case['mode']} {str(case['restart']).lower()} {optn(case['signal'])} {optn(case['stop'])} "
                         f"{str(case['postpone']).lower()} {coq_list(es)})%N")
            meta.append((items, amb))
        res, err = coq_eval("c05", ["Cli.OnBusy", "Run.EvalC05"], terms)
        if err:
            c.errors.append("model evaluation failed: " + err[-800:])
            return c
        for case, o, m, (items, amb) in zip(cases, obs, res, meta):
            c.evaluations += 1
            seq = observed_string(case, items)
            want = expand_model(m)
            brief = {"id": case["id"], "args": case["args"], "child": case["child_script"], "events": [e["at_ms"] for e in case["events"]]}
            c.count("mode=" + case["label"])
            c.count("react=" + case["react"])
            if any(a.startswith("--delay-run") for a in case["args"]):
                # the in-job delay is outside the run-level model: judged directly -- in do-nothing mode the changes of an idle job that arrive
                # during the delay lead to ONE run, which nothing stops or replaces
                c.count("delay-run (monitor only)")
                starts_ = [l for l in o["child_log"] if l["ev"] == "start"]
                sigs_ = [l for l in o["child_log"] if l["ev"] == "signal"]
                ends_ = [l for l in o["child_log"] if l["ev"] == "end"]
                okd = len(starts_) == 1 and not sigs_ and not ends_
                if not okd:
                    c.failing.append({"case": brief, "impl": seq, "clause": "C05_do_nothing: while the command runs, further start requests of the same idle period "
                                      "started it again or stopped it (more than one run, or a signal / an end)"})
                c.validated += okd
                continue
            busy_change = any(a.startswith("sig") or a == "chg" and i > 0 and "start" in want[:i] and want[:i].count("start") > want[:i].count("exit")
                              for i, a in enumerate(want))
            # with a zero stop timeout the kill follows the stop signal at once: the helper child cannot be relied on to log the signal
            zg = any(a in ("--stop-timeout=0", "--stop-timeout=0ms", "--stop-timeout=0s") for a in case["args"])
            cmp_seq, cmp_want = ([a for a in seq if not a.startswith("sig")], [a for a in want if not a.startswith("sig")]) if zg else (seq, want)
            if amb:
                c.count("ambiguous-order(skipped)")
            else:
                if cmp_seq == cmp_want:
                    c.validated += 1
                    if busy_change:
                        c.nontrivial.add(json.dumps([case["label"], case["stop"], case["postpone"], case["react"], case["life"], len(want)]))
                else:
                    c.disagreements.append({"case": brief, "impl": seq, "model": want, "what": "sequence of change/start/signal/exit"})
            # ------------------------------ monitors on the observation alone
            starts = [l for t, k, l in items if k == "start"]
            sigs = [l for t, k, l in items if k == "sig"]
            for l in starts:
                if l.get("alive_prev"):
                    c.failing.append({"case": brief, "impl": seq, "clause": f"C05_no_overlap: run pid {l['pid']} started while {l['alive_prev']} still alive"})
            em = case["eff"]
            # signals: number and mode
            want_sig = SIGNUM[case["signal"] or case["stop"] or "TERM"] if em == 3 else SIGNUM[case["stop"] or "TERM"]
            for l in sigs:
                if em in (0, 1):
                    c.failing.append({"case": brief, "impl": seq, "clause": "C05_do_nothing/queue: the running command received a signal"})
                elif l["sig"] != want_sig:
                    c.failing.append({"case": brief, "impl": seq, "clause": f"C05_signal_is_the_configured_one: received {l['sig']}, configured {want_sig}"})
            if amb:
                continue
            # start-up
            t0s = o["sent"][0]["t"] if o["sent"] else o["t0"]
            if not case["postpone"]:
                if not starts or starts[0]["t"] - o["t0"] > 400:
                    c.failing.append({"case": brief, "impl": seq, "clause": "C05_startup: command not started at start-up"})
            else:
                first_chg = min([t for t, k, _ in items if k == "chg"], default=None)
                if starts and (first_chg is None or starts[0]["t"] < first_chg - DEBOUNCE - 5):
                    c.failing.append({"case": brief, "impl": seq, "clause": "C05_postpone: command started before the first change"})
            # walk the sequence: per-mode clauses
            running, since_chg = False, 0
            for i, a in enumerate(seq):
                if a == "start":
                    running, since_chg = True, 0
                elif a == "exit":
                    running = False
                    if em == 1 and since_chg > 0:
                        nxt = seq[i + 1:i + 2]
                        if nxt != ["start"]:
                            c.failing.append({"case": brief, "impl": seq, "clause": "C05_queue_once: no run followed the end of a run during which changes arrived"})
                    if em == 1 and since_chg == 0 and seq[i + 1:i + 2] == ["start"]:
                        c.failing.append({"case": brief, "impl": seq, "clause": "C05_queue_once: a run started at exit with no change queued"})
                elif a == "chg":
                    if running:
                        since_chg += 1
                        nxt = seq[i + 1:i + 3]
                        if em == 3 and not (nxt[:1] and nxt[0].startswith("sig")) :
                            c.failing.append({"case": brief, "impl": seq, "clause": "C05_signal_only: no signal delivered for a change while running"})
                        if em == 3 and nxt[1:2] and nxt[1].startswith("sig"):
                            c.failing.append({"case": brief, "impl": seq, "clause": "C05_signal_only: more than one signal for one change batch"})
                        # (with a zero stop timeout the kill follows the stop signal at once: the helper child may not get to log the signal)
                        zero_grace = any(a in ("--stop-timeout=0", "--stop-timeout=0ms", "--stop-timeout=0s") for a in case["args"])
                        if em == 2 and zero_grace and nxt[:1] == ["start"]:
                            pass
                        elif em == 2 and not (len(nxt) == 2 and nxt[0].startswith("sig") and nxt[1] == "start"):
                            c.failing.append({"case": brief, "impl": seq, "clause": "C05_restart: change while running not followed by stop signal and a fresh start"})
                        if em == 0 and nxt[:1] and nxt[0] in ("start",):
                            c.failing.append({"case": brief, "impl": seq, "clause": "C05_do_nothing: a run was started while the command was running"})
                    elif i > 0 or case["postpone"]:
                        if seq[i + 1:i + 2] != ["start"]:
                            c.failing.append({"case": brief, "impl": seq, "clause": "C05_idle_starts: change while idle did not start the command"})
            # restart: a command that ignores the stop signal is killed no earlier than the documented stop timeout
            if em == 2 and case["react"] == "ignore" and case["life"] >= 5000:
                st = next((a.split("=", 1)[1] for a in case["args"] if a.startswith("--stop-timeout=")), "10s")
                st_ms = int(st[:-2]) if st.endswith("ms") else int(float(st[:-1]) * 1000) if st.endswith("s") else int(float(st) * 1000)
                evl = [(t, k, l) for t, k, l in items if k in ("sig", "start")]
                for (t1, k1, _), (t2, k2, _) in zip(evl, evl[1:]):
                    if k1 == "sig" and k2 == "start" and t2 - t1 < st_ms - 40:
                        c.failing.append({"case": brief, "impl": {"signal_to_restart_ms": t2 - t1}, "expected": {"stop_timeout_ms": st_ms},
                                          "clause": "C05_restart: the command was force-killed before the stop timeout had elapsed"})
            # freshness (restart, queue): if the last run could end within the observation window, the last change precedes the last start
            if em in (1, 2) and "chg" in seq and case["life"] < 5000:
                last_chg = max(i for i, a in enumerate(seq) if a == "chg")
                if "start" not in seq[last_chg:]:
                    c.failing.append({"case": brief, "impl": seq, "clause": "C05_freshness: the last change was not followed by a run"})
            if len(c.samples) < 3 and busy_change and not amb:
                c.samples.append({"case": brief, "impl": seq, "model": want})
        return c


PROP = C05()
