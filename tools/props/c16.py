"""C16 -- events survive a JSON round trip and the format is stable."""
import json, os, re
from vlib import *
import translate

SIGS = ["Hangup", "ForceStop", "Interrupt", "Quit", "Terminate", "User1", "User2"]
SOURCES = ["Filesystem", "Keyboard", "Mouse", "Os", "Time", "Internal"]
FTS = {"file": "FT_File", "dir": "FT_Dir", "symlink": "FT_Symlink", "other": "FT_Other"}
DOC_FIELDS = ["kind", "absolute", "filetype", "simple", "full", "source", "keycode", "pid", "signal", "disposition", "code"]
DOC_KINDS = ["path", "fs", "source", "keyboard", "process", "signal", "completion", "none"]
I64 = (-(1 << 63), (1 << 63) - 1)
I32 = (-(1 << 31), (1 << 31) - 1)


def cs(s):
    return coq_term_string(s)


def kind_term(fam, ty, s):
    m = re.fullmatch(r"([A-Za-z]+)(?:\((.*)\))?", s)
    name, inner = m.group(1), m.group(2)
    pay = [p for v, p, _ in fam[ty] if v == name][0]
    return f"{ty}_{name}" if inner is None else f"({ty}_{name} {kind_term(fam, pay, inner)})"


def all_kind_strings(fam, ty="EventKind"):
    out = []
    for v, pay, _ in fam[ty]:
        if pay:
            out += [f"{v}({x})" for x in all_kind_strings(fam, pay)]
        else:
            out.append(v)
    return out


def sig_term(s):
    return f"(Custom ({s})%Z)" if isinstance(s, int) else f"(First S_{s})"


def tag_term(fam, t):
    k = t["t"]
    if k == "path":
        ft = f"(Some {FTS[t['ft']]})" if t.get("ft") else "None"
        return f"(TPath {cs(t['p'])} {ft})"
    if k == "fek":
        return f"(TFek {kind_term(fam, 'EventKind', t['k'])})"
    if k == "source":
        return f"(TSource Src_{t['s']})"
    if k == "keyboard":
        return "(TKeyboard Key_Eof)"
    if k == "process":
        return f"(TProcess ({t['pid']})%Z)"
    if k == "signal":
        return f"(TSignal {sig_term(t['s'])})"
    if k == "completion":
        e = t["e"]
        if e is None:
            return "(TCompletion None)"
        d = e["d"]
        if d in ("Success", "Continued"):
            return f"(TCompletion (Some {d}))"
        if d == "ExitSignal":
            return f"(TCompletion (Some (ExitSignal {sig_term(e['s'])})))"
        return f"(TCompletion (Some ({d} ({e['c']})%Z)))"
    return "TUnknown"


def event_term(fam, ev):
    meta = sorted(ev.get("meta", {}).items(), key=lambda kv: kv[0].encode())
    m = coq_list([f"({cs(k)}, {coq_list([cs(x) for x in v])})" for k, v in meta])
    return f"(mkEvent {coq_list([tag_term(fam, t) for t in ev['tags']])} {m})"


# JSON trees with duplicate keys allowed: ("o", [(k, v)]), ("a", [v]), ("s", str), ("n", int), ("z",) null, ("b", bool)
def jtext(j):
    k = j[0]
    if k == "o":
        return "{" + ",".join(json.dumps(a, ensure_ascii=False) + ":" + jtext(b) for a, b in j[1]) + "}"
    if k == "a":
        return "[" + ",".join(jtext(x) for x in j[1]) + "]"
    if k == "s":
        return json.dumps(j[1], ensure_ascii=False)
    if k == "n":
        return str(j[1])
    if k == "b":
        return "true" if j[1] else "false"
    return "null"


def jterm(j):
    k = j[0]
    if k == "o":
        return "(JObj " + coq_list([f"({cs(a)}, {jterm(b)})" for a, b in j[1]]) + ")"
    if k == "a":
        return "(JArr " + coq_list([jterm(x) for x in j[1]]) + ")"
    if k == "s":
        return f"(JStr {cs(j[1])})"
    if k == "n":
        return f"(JNum ({j[1]})%Z)"
    if k == "b":
        return f"(JBool {'true' if j[1] else 'false'})"
    return "JNull"


PATHS = ["/a", "/foo/bar baz", "rel/x", "/ü/日本語/𝄞", "/q\"uo\\te", "/tab\there", "/nl\nx", "", "/\x01\x1f\x7f", "/a/../b/./c//"]


class C16(Prop):
    pid = "C16"
    generators = ["signals", "fskinds", "eventnames"]
    coq_targets = ["Run/EvalC16.vo"]
    bins = ["h_codec"]
    trusted = [
        "modelled, not verified: serde derive mechanics (struct-from-map with default/skip attributes, duplicate-field "
        "errors, unknown fields ignored, untagged Signal enum), serde_json text syntax and escaping (model renders the "
        "same compact text), BTreeMap ordering; sampled by the correspondence",
        "model domain: tag values given as JSON objects with integer numbers (serde's sequence form for structs, the map "
        "form for unit variants and floats are outside the model and outside the generators)",
        "the fs-kind enum family is translated from sans_notify.rs (verbatim copy of notify-types, which is what the "
        "default feature set uses); the harness enumerates all 41 notify-types kinds independently",
    ]

    def rand_signal(self, r):
        c = r.random()
        if c < 0.5:
            return r.choice(SIGS)
        return r.choice([0, 1, 6, 9, 15, 34, 64, -1, I32[0], I32[1], r.randint(-1000, 1000)])

    def rand_tag(self, r, kinds):
        k = r.choice(["path", "path", "fek", "fek", "source", "keyboard", "process", "signal", "completion", "completion", "unknown"])
        if k == "path":
            p = r.choice(PATHS) if r.random() < 0.5 else "/" + "/".join(
                r.choice(["a", "b c", "é", "x.y", "日本", "\"", "\\", "\u0007"]) for _ in range(r.randint(1, 4)))
            return {"t": "path", "p": p, "ft": r.choice([None, "file", "dir", "symlink", "other"])}
        if k == "fek":
            return {"t": "fek", "k": r.choice(kinds)}
        if k == "source":
            return {"t": "source", "s": r.choice(SOURCES)}
        if k == "keyboard":
            return {"t": "keyboard"}
        if k == "process":
            return {"t": "process", "pid": r.choice([0, 1, 4294967295, r.randint(0, 4294967295)])}
        if k == "signal":
            return {"t": "signal", "s": self.rand_signal(r)}
        if k == "completion":
            d = r.choice([None, "Success", "Continued", "ExitError", "ExitStop", "Exception", "ExitSignal"])
            if d is None:
                return {"t": "completion", "e": None}
            if d in ("Success", "Continued"):
                return {"t": "completion", "e": {"d": d}}
            if d == "ExitSignal":
                return {"t": "completion", "e": {"d": d, "s": self.rand_signal(r)}}
            lo, hi = I64 if d == "ExitError" else I32
            c = r.choice([1, -1, lo, hi, 255, 256, r.randint(lo, hi)]) or 1
            return {"t": "completion", "e": {"d": d, "c": c}}
        return {"t": "unknown"}

    def rand_event(self, r, kinds):
        n = r.choice([0, 1, 1, 2, 3, 3, 5, 8])
        ev = {"tags": [self.rand_tag(r, kinds) for _ in range(n)], "meta": {}}
        for _ in range(r.choice([0, 0, 1, 2, 4])):
            ev["meta"][r.choice(["a", "b", "zz", "notify-backend", "é", "A", "", "a b", "\"q"])] = \
                [r.choice(["inotify", "", "x y", "ü", "\n"]) for _ in range(r.randint(0, 3))]
        return ev

    def rand_jval(self, r, depth=0):
        c = r.random()
        if c < 0.3:
            return ("s", r.choice(["x", "", "path", "SIGHUP", "é"]))
        if c < 0.55:
            return ("n", r.choice([0, 1, -1, 1 << 40, I64[1], -(1 << 63)]))
        if c < 0.65:
            return ("z",)
        if c < 0.75:
            return ("b", r.random() < 0.5)
        if depth > 1:
            return ("n", 7)
        if c < 0.9:
            return ("a", [self.rand_jval(r, depth + 1) for _ in range(r.randint(0, 2))])
        return ("o", [(r.choice(["k", "kind", "x"]), self.rand_jval(r, depth + 1)) for _ in range(r.randint(0, 2))])

    def valid_tag_obj(self, r, kinds):
        k = r.choice(DOC_KINDS[:7])
        f = [("kind", ("s", k))]
        if k == "path":
            f.append(("absolute", ("s", r.choice(PATHS))))
            if r.random() < 0.5:
                f.append(("filetype", ("s", r.choice(list(FTS)))))
        elif k == "fs":
            kk = r.choice(kinds)
            if r.random() < 0.7:
                f.append(("simple", ("s", {"Acc": "access", "Cre": "create", "Mod": "modify", "Rem": "remove"}.get(kk[:3], "other"))))
            if r.random() < 0.8:
                f.append(("full", ("s", kk)))
        elif k == "source":
            f.append(("source", ("s", r.choice(SOURCES).lower())))
        elif k == "keyboard":
            f.append(("keycode", ("s", "eof")))
        elif k == "process":
            f.append(("pid", ("n", r.randint(0, 70000))))
        elif k == "signal":
            f.append(("signal", r.choice([("s", "SIGHUP"), ("s", "SIGUSR2"), ("n", 9), ("n", 40)])))
        else:
            d = r.choice(["unknown", "success", "error", "signal", "stop", "exception", "continued"])
            f.append(("disposition", ("s", d)))
            if d in ("error", "stop", "exception"):
                f.append(("code", ("n", r.choice([1, -1, 255, I32[1], I32[0]]))))
            if d == "signal":
                f.append(("signal", r.choice([("s", "SIGINT"), ("n", 34)])))
        return k, f

    def mutate(self, r, k, f, kinds):
        """-> (fields, welltyped?) welltyped = all known fields carry values of their type, no duplicate known key"""
        f = list(f)
        well = True
        for _ in range(r.randint(1, 3)):
            c = r.random()
            if c < 0.2 and len(f) > 1:
                idx = [i for i, (n, _) in enumerate(f) if n != "kind"]
                if idx:
                    del f[r.choice(idx)]                                       # missing field
            elif c < 0.4:
                _, g = self.valid_tag_obj(r, kinds)                            # field of another kind (contradictory/extra)
                for name, val in g[1:]:
                    if name not in [n for n, _ in f]:
                        f.insert(r.randint(min(1, len(f)), len(f)), (name, val))
            elif c < 0.5:
                f.insert(r.randint(0, len(f)), (r.choice(["extra", "Kind", "path", "tags", ""]), self.rand_jval(r)))  # unknown field
            elif c < 0.62:
                # contradictory but well-typed value
                opts = [("code", ("n", 0)), ("code", ("n", I32[1] + 1)), ("code", ("n", I64[0])), ("disposition", ("s", "unknown")),
                        ("full", ("s", r.choice(["Bogus", "", "access(any)", "Modify(Name(Both)) "]))), ("simple", ("s", "other")),
                        ("signal", ("n", 0)), ("pid", ("n", 0)), ("filetype", ("z",)), ("absolute", ("z",)), ("code", ("z",)),
                        ("disposition", ("z",)), ("signal", ("z",)), ("full", ("z",))]
                name, val = r.choice(opts)
                f = [(n, v) for n, v in f if n != name]
                f.insert(r.randint(min(1, len(f)), len(f)), (name, val))
            elif c < 0.72:
                name = r.choice(DOC_FIELDS[1:])                                # duplicate known key
                f.append((name, ("z",)))
                f.append((name, ("z",)))
                well = False
            elif c < 0.8:
                f.append(("x", ("n", 1)))
                f.append(("x", ("n", 2)))                                      # duplicate unknown key: fine
            elif c < 0.93:
                opts = [("pid", ("s", "12")), ("pid", ("n", -1)), ("pid", ("n", 1 << 32)), ("code", ("n", 1 << 63)),
                        ("code", ("s", "1")), ("signal", ("s", "SIGFOO")), ("signal", ("s", "hangup")), ("signal", ("n", 1 << 31)),
                        ("signal", ("b", True)), ("filetype", ("s", "folder")), ("simple", ("s", "Create")), ("source", ("s", "Filesystem")),
                        ("keycode", ("s", "EOF")), ("disposition", ("s", "Success")), ("absolute", ("n", 1)), ("full", ("n", 1)),
                        ("disposition", ("n", 1)), ("absolute", ("a", [])), ("code", ("b", False))]
                name, val = r.choice(opts)                                     # ill-typed value
                f = [(n, v) for n, v in f if n != name]
                f.append((name, val))
                well = False
            else:
                kv = r.choice([("s", "bogus"), ("s", "Path"), ("z",), ("n", 1), None, ("s", "none")])
                f = [(n, v) for n, v in f if n != "kind"]
                if kv is not None:
                    f.insert(r.randint(0, len(f)), ("kind", kv))
                if kv is None or kv[0] != "s" or kv[1] not in DOC_KINDS:
                    well = False
                k = kv[1] if kv and kv[0] == "s" and kv[1] in DOC_KINDS else None
        return k, f, well

    def correspond(self, tier, seed, deep=False):
        c = Corr()
        c.rule = ("exhaustive over the 41 fs kinds and all first-class signals; generated events (0-8 tags of every kind, "
                  "UTF-8/escape-heavy paths, pids and exit codes at the integer range boundaries, custom signals, metadata "
                  "maps) encoded by both sides; generated tag objects of a known kind mutated by removing fields, adding "
                  "fields of other kinds, unknown fields, contradictory values, nulls, duplicate keys, ill-typed values, "
                  "bad kinds, decoded by both sides. non-trivial = distinct events with >= 1 tag, and distinct mutated objects")
        t = translate.TABLES.get("fskinds")
        if not t:
            c.errors.append("fs kind family not translated; cannot generate cases")
            return c
        fam = t["family"]
        kinds = all_kind_strings(fam)
        r = rng(seed, "c16")
        n_enc = 400 if tier == "quick" else 6000
        n_dec = 500 if tier == "quick" else 8000
        events = [{"tags": [{"t": "fek", "k": k}], "meta": {}} for k in kinds]
        events += [{"tags": [{"t": "signal", "s": s}, {"t": "completion", "e": {"d": "ExitSignal", "s": s}}], "meta": {}} for s in SIGS]
        events += [self.rand_event(r, kinds) for _ in range(n_enc)]
        dec = []
        for _ in range(n_dec):
            k, f = self.valid_tag_obj(r, kinds)
            well = True
            if r.random() < 0.85:
                k, f, well = self.mutate(r, k, f, kinds)
            dec.append({"kind": k, "well": well, "tree": ("o", [("tags", ("a", [("o", f)]))])})
        # boundary stream (always run): every combination of the fields that the kinds' decoders branch on, around their edges
        import itertools
        for disp, code, sig in itertools.product([None, "success", "error", "signal", "stop", "exception", "continued", "unknown"],
                                                 [None, ("n", 0), ("n", 1), ("n", -1), ("z",)],
                                                 [None, ("s", "SIGINT"), ("n", 0), ("n", 9), ("z",)]):
            f = [("kind", ("s", "completion"))]
            if disp:
                f.append(("disposition", ("s", disp)))
            if code:
                f.append(("code", code))
            if sig:
                f.append(("signal", sig))
            dec.append({"kind": "completion", "well": True, "tree": ("o", [("tags", ("a", [("o", f)]))])})
        for kind, fld, vals in [("process", "pid", [None, ("n", 0), ("n", 1), ("n", (1 << 32) - 1), ("z",)]),
                                ("signal", "signal", [None, ("n", 0), ("n", 9), ("n", 15), ("n", 64), ("s", "SIGKILL"), ("s", "KILL"), ("z",)]),
                                ("keyboard", "keycode", [None, ("s", "eof"), ("z",)]),
                                ("source", "source", [None, ("s", "filesystem"), ("s", "os"), ("z",)]),
                                ("path", "absolute", [None, ("s", "/a"), ("s", ""), ("z",)]),
                                ("fs", "simple", [None, ("s", "modify"), ("s", "other"), ("z",)])]:
            for v in vals:
                f = [("kind", ("s", kind))] + ([(fld, v)] if v else [])
                # (serde accepts only the SIG-prefixed spelling of a signal name: a bare "KILL" is an ill-typed value)
                dec.append({"kind": kind, "well": v != ("s", "KILL"), "tree": ("o", [("tags", ("a", [("o", f)]))])})
        # event-level malformed
        for tree in [("o", []), ("o", [("metadata", ("o", [("b", ("a", [("s", "x")])), ("a", ("a", [])), ("b", ("a", []))]))]),
                     ("o", [("tags", ("z",))]), ("o", [("metadata", ("z",))]), ("o", [("tags", ("a", [])), ("tags", ("a", []))]),
                     ("o", [("extra", ("n", 1)), ("tags", ("a", []))]), ("o", [("metadata", ("o", [("k", ("s", "v"))]))]),
                     ("o", [("metadata", ("o", [("k", ("a", [("n", 1)]))]))]), ("o", [("tags", ("o", []))])]:
            dec.append({"kind": None, "well": False, "tree": tree})
        d = scratch("c16")
        write_jsonl(os.path.join(d, "enc.jsonl"), events)
        write_jsonl(os.path.join(d, "dec.jsonl"), [{"json": jtext(x["tree"])} for x in dec])
        rc1, enc_obs, out1 = run_harness("h_codec", ["events-encode", os.path.join(d, "enc.jsonl")])
        rc2, dec_obs, out2 = run_harness("h_codec", ["events-decode", os.path.join(d, "dec.jsonl")])
        rc3, kind_obs, out3 = run_harness("h_codec", ["events-kinds"])
        if rc1 or rc2 or rc3 or len(enc_obs) != len(events) or len(dec_obs) != len(dec):
            c.errors.append(f"h_codec events failed: {(out1 + out2 + out3)[-800:]}")
            return c
        terms = [f"eval_encode {event_term(fam, e)}" for e in events] + [f"eval_decode {jterm(x['tree'])}" for x in dec] + ["eval_kinds"]
        res, err = coq_eval("c16", ["Codec.Json", "Gen.Signals_gen", "Codec.Signals", "Gen.FsKinds_gen", "Gen.EventNames_gen",
                                    "Codec.EventsJson", "Run.EvalC16"], terms)
        if err:
            c.errors.append("model evaluation failed: " + err[-800:])
            return c
        for e, o, m in zip(events, enc_obs, res):
            c.evaluations += 1
            c.count("encode")
            for tg in e["tags"]:
                c.count("tag:" + tg["t"])
            if o["json"] == m:
                c.validated += 1
            else:
                c.disagreements.append({"case": e, "impl": o["json"], "model": m, "what": "encode"})
            if e["tags"]:
                c.nontrivial.add(json.dumps(e, sort_keys=True))
            if not o["roundtrip"]:
                c.failing.append({"case": e, "impl": o["json"], "clause": "C16_event_roundtrip: decode(encode(e)) != e in the implementation"})
            try:
                js = json.loads(o["json"])
                for tg in js.get("tags", []):
                    if not set(tg) <= set(DOC_FIELDS) or tg.get("kind") not in DOC_KINDS:
                        c.failing.append({"case": e, "impl": o["json"], "clause": "C16_field_names: undocumented field or kind name"})
            except Exception:
                c.failing.append({"case": e, "impl": o["json"], "clause": "C16: output is not JSON"})
        for x, o, m in zip(dec, dec_obs, res[len(events):]):
            c.evaluations += 1
            c.count("decode")
            c.count("decode_impl_" + ("err" if o["obs"] == "ERR" else "ok"))
            if o["obs"] == m:
                c.validated += 1
            else:
                c.disagreements.append({"case": jtext(x["tree"]), "impl": o["obs"], "model": m, "what": "decode"})
            c.nontrivial.add(jtext(x["tree"]))
            if x["kind"] and x["well"]:
                if o["obs"] == "ERR":
                    c.failing.append({"case": jtext(x["tree"]), "impl": "ERR",
                                      "clause": "C16_malformed_total: well-typed tag object of a known kind failed to parse"})
                else:
                    tags = json.loads(o["obs"]).get("tags", [])
                    if len(tags) != 1 or tags[0].get("kind") not in (x["kind"], "none"):
                        c.failing.append({"case": jtext(x["tree"]), "impl": o["obs"],
                                          "clause": "C16_malformed_total: parsed to a tag of another kind"})
                    elif tags[0].get("kind") == "completion":
                        # the discriminating field: a completion of another disposition is another tag
                        try:
                            fields = dict((n, v) for n, v in x["tree"][1][0][1][1][0][1])
                        except Exception:
                            fields = {}
                        d = fields.get("disposition")
                        if d and d[0] == "s" and tags[0].get("disposition") != d[1]:
                            c.failing.append({"case": jtext(x["tree"]), "impl": o["obs"],
                                              "clause": "C16_malformed_total: contradictory completion fields parsed to a completion of another disposition instead of the unknown tag"})
        c.evaluations += 1
        impl_k = "[" + ",".join(k["debug"] + "=" + k["json"] for k in kind_obs) + "]"
        if impl_k == res[-1]:
            c.validated += 1
        else:
            c.disagreements.append({"case": "all fs kinds", "impl": impl_k[:300], "model": res[-1][:300]})
        if not all(k["roundtrip"] for k in kind_obs):
            c.failing.append({"case": [k["debug"] for k in kind_obs if not k["roundtrip"]], "impl": "tag != decode(encode(tag))",
                              "clause": "C16_kind_roundtrip"})
        c.extra["fs_kinds_exhaustive"] = len(kind_obs)
        c.samples = [{"case": events[60], "impl": enc_obs[60]["json"], "model": res[60]},
                     {"case": jtext(dec[3]["tree"]), "impl": dec_obs[3]["obs"], "model": res[len(events) + 3]},
                     {"case": jtext(dec[7]["tree"]), "impl": dec_obs[7]["obs"], "model": res[len(events) + 7]}]
        return c


PROP = C16()
