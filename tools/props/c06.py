"""C06 -- graceful stop: signal first, no kill before the grace period, kill at expiry."""
from vlib import *
from props.jobcommon import *
from props.c04 import C04

KILLERS = ("stop", "restart", "try_restart", "delete", "delete_now")


def monitor(case, o):
    out = []
    evs = parse_log(o)
    ops = case["ops"]
    if case.get("idle_graceful"):
        # a graceful control on a job with no running process has nothing to wait for: the normal lane is not held
        for op in ops:
            if op["op"] == "run":
                ran = [t for t, ev, aa in evs if ev == "mark" and aa[0] == str(op["mark"])]
                if not ran or ran[0] > op["at"]:
                    out.append(("C06_normal_held: a graceful control on a job without a running process held back later controls",
                                f"run(mark {op['mark']}) sent at {op['at']}, executed at {ran[0] if ran else None}"))
        if case.get("no_kill") and any(ev in ("kill", "reap") for t, ev, aa in evs):
            out.append(("C06_no_early_kill: the command was killed although the graceful control had failed (its signal could not be delivered)",
                        [f"{t}:{ev}" for t, ev, aa in evs if ev in ("kill", "reap")]))
        return out
    # the monitors attribute log events to a graceful control by time; that is only unambiguous when the
    # history contains a single graceful control (everything else is decided by the membership diff)
    if len([1 for op in ops if op["op"].endswith("with_signal")]) != 1 or case["script"].get("kill_fail") \
            or any(op["op"] == "signal" for op in ops):
        return out
    for k, op in enumerate(ops):
        if not op["op"].endswith("with_signal"):
            continue
        # the signal this op caused: first signal event at or after its send time with its number
        num = str(signum(op["sig"]))
        sigs = [(t, a) for t, ev, a in evs if ev == "signal" and t >= op["at"] and a[1] == num]
        if not sigs:
            # the stop signal must be delivered whenever the command is running when the control is taken: decidable from the
            # log when this op is alone at its instant, nothing is queued or in progress before it, and a child is live then
            T0 = op["at"]
            alone = all(x["at"] != T0 for i, x in enumerate(ops) if i != k)
            quiet_before = all(x["op"] in ("start", "run", "set_hook", "unset_hook", "to_wait", "stop") for x in ops[:k])
            spawned = [(t, aa[0]) for t, ev, aa in evs if ev == "spawn" and t < T0]
            reaped = {aa[0]: t for t, ev, aa in evs if ev == "reap"}
            live = [c for t, c in spawned if c not in reaped or reaped[c] >= T0]
            killed_now = {aa[0] for t, ev, aa in evs if ev == "kill" and t == T0}
            edge = any(t == T0 and (ev == "spawn" and aa[0] not in [str(int(c) + 1) for c in live] or ev == "reap" and aa[0] not in killed_now)
                       for t, ev, aa in evs if ev in ("reap", "spawn"))
            if alone and quiet_before and live and not edge and not case["script"].get("signal_fail") and not any(x["op"] == "raw" for x in ops):
                out.append(("C06_signal_immediately: a graceful control on a running command delivered no signal",
                            f"{op['op']} at {T0} (grace {op['grace']}), live child {live}"))
            continue
        T, a = sigs[0]
        child = a[0]
        deadline = T + op["grace"]
        others = [x for x in ops[k + 1:] if x["op"] in KILLERS and x["at"] <= deadline] + \
                 [x for x in ops[:k] if x["op"] in KILLERS and x["at"] >= T - 0]
        if any(x["op"] in ("run_async",) for x in ops):
            continue
        kills = [t for t, ev, aa in evs if ev == "kill" and aa[0] == child]
        reaps = [t for t, ev, aa in evs if ev == "reap" and aa[0] == child]
        if not others:
            for t in kills:
                if t < deadline:
                    out.append(("C06_no_early_kill: force-killed before the grace period elapsed", f"signal at {T}, grace {op['grace']}, kill at {t}"))
            if reaps and reaps[0] > deadline:
                out.append(("C06_kill_at_expiry: child outlived the grace period", f"deadline {deadline}, reaped at {reaps[0]}"))
            if not reaps and not o["dead"]:
                out.append(("C06_kill_at_expiry: child never reaped after a graceful stop", f"deadline {deadline}"))
        # normal-priority markers must not run between the signal and the child's end
        end = reaps[0] if reaps else None
        if end is not None:
            later_marks = [x for x in ops[k + 1:] if x["op"] == "run"]
            for t, ev, aa in evs:
                if ev == "mark" and T <= t < end and any(str(x["mark"]) == aa[0] for x in later_marks):
                    out.append(("C06_normal_held: a later normal control ran before the process had ended", f"mark {aa[0]} at {t}, process end {end}"))
        # a graceful try-restart starts the replacement exactly once
        if op["op"] == "try_restart_with_signal" and not [x for x in ops[k + 1:] if x["op"] in ("start", "restart", "restart_with_signal", "try_restart", "try_restart_with_signal")]:
            idx = next(i for i, (t, ev, aa) in enumerate(evs) if ev == "signal" and t == T and aa == a)
            n = len([1 for t, ev, aa in evs[idx:] if ev == "spawn"])
            if n > 1:
                out.append(("C06_restart_once: the graceful restart spawned more than one replacement", f"{n} spawns after the signal at {T}"))
    return out


class C06(C04):
    pid = "C06"

    def correspond(self, tier, seed, deep=False):
        # boundary family (always run): each graceful control alone on a running command, for every grace edge and child class
        extra = []
        for name in ("stop_with_signal", "restart_with_signal", "try_restart_with_signal"):
            for grace in (0, 1, 50):
                for child in CHILD_CLASSES:
                    for sig in ("Terminate", "User1"):
                        ops = [{"at": 0, "op": "start", "yield": True},
                               {"at": 20, "op": name, "sig": sig, "grace": grace, "yield": True},
                               {"at": 200, "op": "run", "mark": 1, "yield": True}]
                        extra.append({"id": 0, "script": {"children": [dict(child), dict(child)], "spawn_fail": [], "signal_fail": [], "kill_fail": []},
                                      "ops": ops, "waiters": 1, "tail": 1000})
        # controls of the high and urgent lanes arriving in the middle of the grace period (the normal lane is held): the deadline stays
        # where it was -- the kill comes at signal time + grace, not later
        for name in ("stop_with_signal", "restart_with_signal", "try_restart_with_signal"):
            for grace in (60, 100):
                for child in CHILD_CLASSES:
                    for mids in ([("to_wait", 0.5)], [("to_wait", 0.3), ("to_wait", 0.8)], [("to_wait", 0.2), ("to_wait", 0.5), ("to_wait", 0.9)], [("to_wait", 0.5), ("run", 0.6)]):
                        ops = [{"at": 0, "op": "start", "yield": True}, {"at": 20, "op": name, "sig": "Terminate", "grace": grace, "yield": True}]
                        for k, (m, frac) in enumerate(mids):
                            op = {"at": 20 + int(grace * frac), "op": m, "yield": True}
                            if m == "run":
                                op["mark"] = k + 1
                            ops.append(op)
                        ops.append({"at": 20 + grace + 150, "op": "run", "mark": 9, "yield": True})
                        extra.append({"id": 0, "script": {"children": [dict(child), dict(child)], "spawn_fail": [], "signal_fail": [], "kill_fail": []},
                                      "ops": ops, "waiters": 1, "tail": 1000})
        # a graceful control on a job without a running process (never started, finished by itself, stopped): nothing to signal, nothing to
        # wait for -- what is sent afterwards runs at once (and a graceful restart starts the command at once)
        for name in ("stop_with_signal", "restart_with_signal", "try_restart_with_signal"):
            for grace in (50, 100):
                for state in ("never", "finished", "stopped"):
                    ops = []
                    if state != "never":
                        ops.append({"at": 0, "op": "start", "yield": True})
                    if state == "stopped":
                        ops.append({"at": 20, "op": "stop", "yield": True})
                    ops += [{"at": 60, "op": name, "sig": "Terminate", "grace": grace, "yield": True}, {"at": 70, "op": "run", "mark": 1, "yield": True},
                            {"at": 75, "op": "run", "mark": 2, "yield": True}]
                    child = {"self_exit": 30, "ignore_all": True} if state == "finished" else {"self_exit": None, "ignore_all": True}
                    extra.append({"id": 0, "idle_graceful": True, "script": {"children": [dict(child), {"self_exit": None, "ignore_all": True}], "spawn_fail": [], "signal_fail": [], "kill_fail": []},
                                  "ops": ops, "waiters": 1, "tail": 1000})
        # a graceful stop whose signal cannot be delivered fails as a whole: nothing is armed, the normal lane is not held, nothing is killed
        for name in ("stop_with_signal", "try_restart_with_signal"):
            for grace in (50, 100):
                ops = [{"at": 0, "op": "start", "yield": True}, {"at": 60, "op": name, "sig": "Terminate", "grace": grace, "yield": True},
                       {"at": 70, "op": "run", "mark": 1, "yield": True}, {"at": 75, "op": "run", "mark": 2, "yield": True}]
                extra.append({"id": 0, "idle_graceful": True, "no_kill": True,
                              "script": {"children": [{"self_exit": None, "ignore_all": True}, {"self_exit": None, "ignore_all": True}], "spawn_fail": [], "signal_fail": [0], "kill_fail": []},
                              "ops": ops, "waiters": 1, "tail": 1000})
        return job_check(self, "thorough" if deep else tier, seed, monitor, extra)


PROP = C06()
