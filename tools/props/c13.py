"""C13 -- watcher registration converges to the configured path set."""
import itertools, json, os
from vlib import *

NAMES = ["a", "b", "c"]
IDS = {"a": 1, "b": 2, "c": 3}


def wp(ps):
    return [{"p": n, "rec": rec} for n, rec in ps]


class C13(Prop):
    pid = "C13"
    generators = ["confignext", "changeable"]
    coq_targets = ["Run/EvalC13.vo"]
    bins = ["h_fs"]
    trusted = [
        "partial: the real notify backends (inotify, poll) are replaced by a recording watcher that implements notify's watch/unwatch "
        "contract (installed through the cfg(watchexec_verif) factory hook in sources/fs.rs); which events a backend reports is OS behaviour",
        "modelled, not verified: tokio::sync::Notify (notify_waiters wakes only registered waiters), RwLock-based Changeable (reads clone the value, "
        "no lock is held across a handler call or a watcher call); registration is modelled per (path, mode) entry, equal to notify's per-path "
        "registration for configurations that do not name one path with two modes",
        "keyboard / throttle / handler replacements do not touch the registration (read from sources/fs.rs) and are exercised only as interleaved "
        "no-op changes",
    ]

    def gen(self, r, tier):
        cases = []
        subsets = [[]] + [list(c) for k in (1, 2, 3) for c in itertools.combinations(NAMES, k)]

        def rand_ps():
            return [(n, r.random() < 0.7) for n in r.choice(subsets)]
        # bounded-exhaustive: sequences of <= 2 path-set changes over the 8 subsets, x kind switch position
        if tier != "quick":
            for s1 in subsets:
                for s2 in subsets:
                    for sw in (None, 0, 1, 2):
                        chs = []
                        for j, s_ in enumerate((s1, s2)):
                            if sw == j:
                                chs.append({"watcher": "poll"})
                            chs.append({"pathset": wp([(n, True) for n in s_])})
                        if sw == 2:
                            chs.append({"watcher": "poll"})
                        cases.append({"changes": chs, "fail_watch": [], "fail_unwatch": [], "det": True})
        # corpus (always run): a poll watcher whose interval changes is a new kind; a watcher with nothing registered (every
        # watch() failed, or the unwatch succeeded and the watch failed) is released when the path set becomes empty
        for a, b in (("poll", "poll2"), ("poll2", "poll"), ("native", "poll2")):
            cases.append({"changes": [{"watcher": a}, {"pathset": wp([("a", True), ("b", False)])}, {"watcher": b}], "fail_watch": [], "fail_unwatch": [], "det": True})
        cases.append({"changes": [{"pathset": wp([("a", True)])}, {"pathset": wp([])}], "fail_watch": ["a"], "fail_unwatch": [], "det": True})
        cases.append({"changes": [{"pathset": wp([("a", True), ("b", True)])}, {"pathset": wp([])}], "fail_watch": ["a", "b"], "fail_unwatch": [], "det": True})
        cases.append({"changes": [{"pathset": wp([("a", True)])}, {"pathset": wp([("b", True)])}, {"pathset": wp([])}], "fail_watch": ["b"], "fail_unwatch": [], "det": True})
        n = 120 if tier == "quick" else 1500
        for i in range(n):
            chs = []
            for _ in range(r.randint(1, 4)):
                c = r.random()
                if c < 0.65:
                    chs.append({"pathset": wp(rand_ps())})
                elif c < 0.85:
                    chs.append({"watcher": r.choice(["poll", "native", "poll2"])})
                else:
                    # replacements that do not concern the fs worker: throttle, keyboard, action handler, error handler
                    chs.append(r.choice([{"throttle": r.choice([10, 50])}, {"keyboard": r.random() < 0.5}, {"handler": True}, {"error_handler": True}]))
            fw = [r.choice(NAMES)] if r.random() < 0.2 else []
            # unregistering can fail too (generic failure, or the back-end says it has no such watch): reported like any other failure
            fu = [r.choice(NAMES)] if r.random() < 0.25 else []
            cases.append({"changes": chs, "fail_watch": fw, "fail_unwatch": fu, "det": True, "unwatch_kind": r.choice(["generic", "notfound"])})
        # changes in the middle of an apply phase and rapid successions: the final state must still converge
        for i in range(60 if tier == "quick" else 800):
            chs = [{"pathset": wp(rand_ps() or [("a", True)])}]
            for _ in range(r.randint(1, 3)):
                ch = {"pathset": wp(rand_ps())} if r.random() < 0.7 else {"watcher": r.choice(["poll", "native", "poll2"])}
                if r.random() < 0.6:
                    ch["inside_call"] = r.randint(0, 5)
                else:
                    ch["gap_ms"] = 0
                chs.append(ch)
            cases.append({"changes": chs, "fail_watch": [], "fail_unwatch": [], "det": False})
        # a change issued from within the error handler: applied when the first runtime error (a failing watch()) is received
        for i in range(10 if tier == "quick" else 120):
            bad = r.choice(NAMES)
            first = [(bad, True)] + [(n, r.random() < 0.7) for n in NAMES if n != bad and r.random() < 0.5]
            chs = [{"pathset": wp(first)}, dict({"pathset": wp(rand_ps())} if r.random() < 0.7 else {"watcher": r.choice(["poll", "native", "poll2"])}, on_error=0)]
            cases.append({"changes": chs, "fail_watch": [bad], "fail_unwatch": [], "det": False})
        # the same path set configured again: every configured path that is not registered is attempted again (and reported again)
        for i in range(4 if tier == "quick" else 24):
            bad = NAMES[i % 3]
            ps = [(bad, True)] + [(n, r.random() < 0.7) for n in NAMES if n != bad and r.random() < 0.6]
            cases.append({"changes": [{"pathset": wp(ps)}, {"pathset": wp(ps)}, {"pathset": wp(ps)}][:2 + i % 2], "fail_watch": [bad], "fail_unwatch": [], "det": True, "repeat": True})
        # more failing registrations in one apply pass than the error queue has room for: each is still reported (the worker waits for room)
        for i in range(6 if tier == "quick" else 40):
            ps = [(n, r.random() < 0.7) for n in NAMES]
            chs = [{"pathset": wp(ps)}] + ([{"pathset": wp([(n, not rec) for n, rec in ps])}] if i % 2 else [])
            cases.append({"changes": chs, "fail_watch": list(NAMES) if i % 3 else list(NAMES[:2]), "fail_unwatch": [], "det": True, "errors_cap": r.choice([1, 1, 2])})
        # through a whole Watchexec instance: changes issued from within the instance's own error handler (when a failing watch() is
        # reported) and action handler (when an urgent event is handled), including a handler replacing itself; afterwards another
        # failing attempt and another event must still be reported / handled, and the registration must converge
        inner = [{"error_handler": True}, {"handler": True}, {"keyboard": True}, {"throttle": 10}, None, None, "watcher"]
        for i in range(16 if tier == "quick" else 160):
            bad = r.choice(NAMES)
            first = [(bad, True)] + [(n, r.random() < 0.7) for n in NAMES if n != bad and r.random() < 0.5]
            def pick(_n=[0]):
                _n[0] += 1
                if i < 4:                      # always run: each handler replacing itself, alone and together
                    return dict([{"error_handler": True}, {"keyboard": False}, {"handler": True}, {"throttle": 10}][(i + (_n[0] - 1) * 2) % 4]) if i < 2 else \
                        dict({"error_handler": True} if _n[0] == 1 else {"handler": True}) if i == 2 else dict({"throttle": 10} if _n[0] == 1 else {"handler": True})
                x = inner[i % len(inner)] if r.random() < 0.7 else r.choice(inner)
                if x is None:
                    return {"pathset": wp([(bad, True)] + [(n, True) for n in NAMES if n != bad and r.random() < 0.5])}
                if x == "watcher":
                    return {"watcher": r.choice(["poll", "native", "poll2"])}
                return dict(x)
            chs = [{"pathset": wp(first), "gap_ms": 40}, dict(pick(), on_error=0), {"event": True, "gap_ms": 40}, dict(pick(), on_action=0),
                   {"pathset": wp([(bad, False)] + [(n, True) for n in NAMES if n != bad and r.random() < 0.5]), "gap_ms": 40},
                   {"event": True, "gap_ms": 40}]
            cases.append({"changes": chs, "fail_watch": [bad], "fail_unwatch": [], "det": False, "via": "wx"})
        for i, c in enumerate(cases):
            c["id"] = i
            # some watcher back-ends name the path in the error they return: still one runtime error per failing attempt
            if c["fail_watch"] and r.random() < 0.5:
                c["fail_with_path"] = True
                c["fail_path_other"] = r.random() < 0.5       # the error names a path below the requested one
            # ... and some fail for lack of resources (the inotify watch limit): a runtime error like the others
            if c["fail_watch"]:
                c["fail_kind"] = ["generic", "maxfiles", "enospc"][i % 3]
        return cases

    def correspond(self, tier, seed, deep=False):
        tier = "thorough" if deep else tier
        c = Corr()
        c.rule = ("sequences of 1-4 configuration changes (path sets over a 3-path universe with recursion modes, watcher kind switches, no-op "
                  "throttle changes), issued while the worker is idle (compared call-by-call with the model), from inside the n-th watch/unwatch call "
                  "of the previous apply phase, or in rapid succession (final registration must equal the final configuration), with injected watch "
                  "failures, or from within the error handler when the first failure is reported; replacements of the throttle, keyboard flag, action and error handlers interleaved as no-ops for the registration; thorough adds the bounded-exhaustive product of 8x8 path sets x kind-switch position. non-trivial = distinct cases with >= 2 changes")
        r = rng(seed, "c13")
        cases = self.gen(r, tier)
        d = scratch("c13")
        write_jsonl(os.path.join(d, "cases.jsonl"), cases)
        rc, obs, out = run_harness("h_fs", ["run", os.path.join(d, "cases.jsonl"), os.path.join(d, "fs")], timeout=1800)
        if rc != 0 or len(obs) != len(cases):
            c.errors.append(f"h_fs failed rc={rc}: {out[-800:]}")
            return c
        det = [(cs_, o) for cs_, o in zip(cases, obs) if cs_["det"]]
        terms = []
        for case, o in det:
            chs = []
            for ch in case["changes"]:
                ps = "None"
                if "pathset" in ch:
                    ps = "(Some " + coq_list([f"({IDS[p['p']]}, {'true' if p['rec'] else 'false'})" for p in ch["pathset"]]) + ")"
                k = "None"
                if "watcher" in ch:
                    k = f"(Some {dict(poll=1, poll2=2).get(ch['watcher'], 0)})"
                chs.append(f"({ps}, {k})")
            fw = coq_list([str(IDS[x]) for x in case["fail_watch"]])
            fu = coq_list([str(IDS[x]) for x in case["fail_unwatch"]])
            terms.append(f"(eval_fs {fw} {fu} {coq_list(chs)})%N")
        res, err = coq_eval("c13", ["Fs.FsWorker", "Run.EvalC13"], terms)
        if err:
            c.errors.append("model evaluation failed: " + err[-800:])
            return c
        rid = {v: k for k, v in IDS.items()}

        def final_cfg(case, o):
            ps, kind = [], "native"
            order = [int(x[7:-1]) for x in o["calls"] if x.startswith("change(")]
            for k in order:
                ch = case["changes"][k]
                if "pathset" in ch:
                    ps = ch["pathset"]
                if "watcher" in ch:
                    kind = ch["watcher"]
            return ps, kind

        def impl_final(o):
            if not o["alive"]:
                return "none"
            a = o["alive"][-1]
            return a["kind"] + "[" + ",".join(sorted(a["registered"])) + "]"
        mi = 0
        for case, o in zip(cases, obs):
            c.evaluations += 1
            c.count("deterministic" if case["det"] else "mid-apply/rapid")
            if o.get("hung"):
                c.failing.append({"case": case, "impl": "no progress for 10 s", "clause": "C13_handler_reconfig: the instance stopped making progress "
                                  "(every runtime thread blocked) after a change made from within a handler"})
                if case["det"]:
                    mi += 1
                continue
            ps, kind = final_cfg(case, o)
            want = "none" if not ps else kind + "[" + ",".join(sorted(f"{p['p']}:{'r' if p['rec'] else 'n'}" for p in ps if p["p"] not in case["fail_watch"])) + "]"
            got = impl_final(o)
            if len(o["alive"]) > 1:
                c.failing.append({"case": case, "impl": o["alive"], "clause": "C13: more than one live watcher"})
            if got != want and not case["fail_unwatch"]:      # (a path whose unregistration is made to fail stays registered: judged by the model)
                c.failing.append({"case": case, "impl": got, "expected": want,
                                  "clause": "C13_converges: after the last change the registered paths differ from the configured path set"})
            if case["det"]:
                m = res[mi]
                mi += 1
                calls = []
                for x in o["calls"]:
                    if x.startswith("change("):
                        continue
                    name, args = x.split("(", 1)
                    args = args.rstrip(")").split(",")
                    if name == "create":
                        calls.append(f"create({args[1]})")
                    elif name == "drop":
                        calls.append("drop")
                    elif name == "watch":
                        ok = args[1] not in case["fail_watch"]
                        calls.append(f"watch({IDS[args[1]]}:{args[2]})" + ("" if ok else "!"))
                    else:
                        calls.append(f"unwatch({IDS[args[1]]}:?)" + ("!" if args[1] in case["fail_unwatch"] else ""))
                mcalls, mfinal, merr = m.split(" | ")
                mcalls_n = mcalls.replace(":r)", ":?)").replace(":n)", ":?)") if False else mcalls
                # the harness does not see the mode of an unwatch call: erase it on the model side
                import re
                mcalls_n = re.sub(r"unwatch\((\d+):[rn]\)", r"unwatch(\1:?)", mcalls)
                # drop + create order: the code creates the new watcher before the old one is dropped
                def norm(cl):
                    out, run = [], []
                    for x in cl:
                        if x.startswith("unwatch("):
                            run.append(x)
                        else:
                            out += sorted(run)
                            run = []
                            out.append(x)
                    return out + sorted(run)
                calls = norm(calls)
                mcalls_n = "[" + ",".join(norm(mcalls_n.strip("[]").split(",") if mcalls_n != "[]" else [])) + "]"
                impl_calls = "[" + ",".join(calls) + "]"
                impl_calls_n = impl_calls
                mf = mfinal
                for k_, v_ in rid.items():
                    mf = mf.replace(f"{k_}:", f"{v_}:")
                mf_sorted = mf
                if "[" in mf:
                    kind_, rest = mf.split("[", 1)
                    mf_sorted = kind_ + "[" + ",".join(sorted(x for x in rest.rstrip("]").split(",") if x)) + "]"
                nerr = len(o["errors"])
                # (a path whose unregistration is made to fail: the recording watcher, like notify, keys registrations by path, the model by
                #  path and mode -- the final sets are compared only when no unregistration fails; calls and errors always)
                if impl_calls_n == mcalls_n and (got == mf_sorted or case["fail_unwatch"]) and merr == f"errors={nerr}":
                    c.validated += 1
                else:
                    c.disagreements.append({"case": case, "impl": {"calls": impl_calls, "final": got, "errors": nerr}, "model": m, "what": "fs worker calls / registration"})
                if case.get("repeat"):
                    attempts = sum(1 for x in o["calls"] if x.startswith("watch(") and x.split(",")[1] in case["fail_watch"])
                    if attempts != len(case["changes"]):
                        c.failing.append({"case": case, "impl": {"attempts_on_the_failing_path": attempts, "calls": o["calls"]}, "expected": len(case["changes"]),
                                          "clause": "C13_converges: configuring the same path set again did not retry the path that is not registered"})
                nfail = sum(1 for x in o["calls"] if x.startswith("watch(") and x.split(",")[1] in case["fail_watch"]) + \
                    sum(1 for x in o["calls"] if x.startswith("unwatch(") and x.split(",")[1].rstrip(")") in case["fail_unwatch"])
                if nerr != nfail:
                    c.failing.append({"case": case, "impl": {"errors": nerr, "failing_attempts": nfail},
                                      "clause": "C13_error_per_attempt: runtime errors differ from the number of failing registration attempts"})
            else:
                c.validated += (got == want)
            if case.get("via") == "wx":
                c.count("through Watchexec::main, changes from within its handlers")
                nfail = sum(1 for x in o["calls"] if x.startswith("watch(") and x.split(",")[1] in case["fail_watch"])
                if len(o["errors"]) != nfail:
                    c.failing.append({"case": case, "impl": {"errors": o["errors"], "failing_attempts": nfail, "calls": o["calls"]},
                                      "clause": "C13_handler_reconfig: a failing registration attempt was not reported to the error handler (in force) "
                                                "after a change made from within a handler -- dead-locked or lost"})
                kb = any(ch.get("keyboard") for ch in case["changes"])      # the keyboard source reports the end of the harness's stdin: one more event
                if len(o["actions"]) < o["events_sent"] or (len(o["actions"]) > o["events_sent"] + (1 if kb else 0)):
                    c.failing.append({"case": case, "impl": {"actions": o["actions"], "events_sent": o["events_sent"]},
                                      "clause": "C13_handler_reconfig: an event sent after a change made from within a handler was not handled by the "
                                                "action handler (in force) -- dead-locked or lost"})
                # a handler replaced from within itself: the invocation in progress is the old one's, every later one the new one's
                for kind, key, log in (("error_handler", "on_error", o["errors"]), ("handler", "on_action", o["actions"])):
                    reps = [ch for ch in case["changes"] if ch.get(kind)]
                    if reps and all(key in ch for ch in reps) and not (kind == "handler" and kb) and not any("gap_ms" in ch and ch.get(kind) for ch in case["changes"]):
                        gen = 0
                        for i, entry in enumerate(log):
                            g = int(entry.split(":")[0][1:])
                            if g != gen:
                                c.failing.append({"case": case, "impl": {"log": log}, "expected": f"invocation {i} handled by generation {gen}",
                                                  "clause": "C13_handler_reconfig: a handler replaced from within a handler did not take over from the next "
                                                            "invocation on (or took over the invocation in progress)"})
                                break
                            gen += sum(1 for ch in reps if ch[key] == i)
                # ... and whoever replaced it, the error reported for the last change (made after every replacement) goes to the newest handler
                nrep = sum(1 for ch in case["changes"] if ch.get("error_handler"))
                if len(o["errors"]) >= 2 and int(o["errors"][-1].split(":")[0][1:]) != nrep:
                    c.failing.append({"case": case, "impl": {"errors": o["errors"]}, "expected": f"last error handled by generation {nrep}",
                                      "clause": "C13_handler_reconfig: an error handler installed at run time does not receive the later errors"})
                # a replacement takes effect for the next invocation, not for the one in progress
                gens = [int(a.split(":")[0][1:]) for a in o["actions"]] + [int(e.split(":")[0][1:]) for e in o["errors"]]
                if any(g >= 100 for g in gens):
                    c.failing.append({"case": case, "impl": {"actions": o["actions"], "errors": o["errors"]}, "clause": "C13: handler generation out of range"})
            if len(case["changes"]) >= 2:
                c.nontrivial.add(json.dumps(case, sort_keys=True))
            if len(c.samples) < 4 and len(case["changes"]) >= 3:
                c.samples.append({"case": case, "impl_calls": o["calls"], "impl_final": got})
        changeable_check(c, seed, 60 if tier == "quick" else 600)
        return c


def changeable_check(c, seed, n):
    """scripts of replace / clone / call (the called function replacing handlers -- its own too --, cloning and calling in turn, nested up
    to three deep) run against the real ChangeableFn and against Fs/Changeable.v in the modes translated from changeable.rs"""
    r = rng(seed, "changeable")
    cases = []
    for i in range(n):
        known, nf, nh = [0], [1], [1]

        def gen_ops(depth, k):
            ops = []
            for _ in range(k):
                x = r.random()
                if x < 0.35:
                    ops.append({"r": [r.choice(known), nf[0]]})
                    nf[0] += 1
                elif x < 0.5:
                    ops.append({"c": [r.choice(known), nh[0]]})
                    known.append(nh[0])
                    nh[0] += 1
                elif x < 0.53:
                    ops.append({"call": [99, []]})              # a handle that does not exist
                else:
                    ops.append({"call": [r.choice(known), gen_ops(depth + 1, r.randint(0, 3)) if depth < 3 else []]})
            return ops
        cases.append({"id": i, "ops": gen_ops(0, r.randint(2, 7))})
    # the two shapes the refutations are about, always
    cases.append({"id": n, "ops": [{"call": [0, [{"r": [0, 1]}]]}, {"call": [0, []]}]})
    cases.append({"id": n + 1, "ops": [{"c": [0, 7]}, {"r": [0, 1]}, {"call": [7, []]}, {"call": [0, [{"r": [7, 2]}, {"call": [0, []]}]]}, {"call": [7, []]}]})
    d = scratch("c13ch")
    write_jsonl(os.path.join(d, "cases.jsonl"), cases)
    rc, obs, out = run_harness("h_fs", ["changeable", os.path.join(d, "cases.jsonl")], timeout=600)
    if rc != 0 or len(obs) != len(cases):
        c.errors.append(f"h_fs changeable failed rc={rc}: {out[-600:]}")
        return

    def term(ops):
        out_ = []
        for op in ops:
            if "r" in op:
                out_.append(f"Replace {op['r'][0]} {op['r'][1]}")
            elif "c" in op:
                out_.append(f"Clone {op['c'][0]} {op['c'][1]}")
            else:
                out_.append(f"Call {op['call'][0]} {term(op['call'][1])}")
        return coq_list(out_)
    res, err = coq_eval("c13ch", ["Fs.Changeable", "Run.EvalC13"], [f"(eval_changeable {term(cs_['ops'])})%N" for cs_ in cases] +
                        [f"(eval_changeable_spec {term(cs_['ops'])})%N" for cs_ in cases])
    if err:
        c.errors.append("model evaluation failed: " + err[-800:])
        return
    for case, o, mt, m in zip(cases, obs, res[:len(cases)], res[len(cases):]):
        c.evaluations += 1
        c.count("changeable script")
        mres, mtr = m.split(" ", 1)
        impl = o["res"] + " " + ("[]" if o["res"] == "badhandle" else "[" + ",".join(o["trace"]) + "]")
        if impl != mt:
            c.disagreements.append({"case": case, "impl": impl, "model": mt, "what": "ChangeableFn vs the model in the translated modes"})
        if impl == m:
            c.validated += 1
        else:
            c.disagreements.append({"case": case, "impl": impl, "model": m, "what": "ChangeableFn: invocations (handle:function) of a script"})
            if o["res"] == "deadlock":
                c.failing.append({"case": case, "impl": impl, "clause": "C13_reconfig_never_deadlocks: a handler replaced from within a call dead-locked"})
            elif mres == "done" and o["res"] == "done":
                c.failing.append({"case": case, "impl": impl, "expected": m,
                                  "clause": "C13_reconfig_from_within / C13_reconfig_reaches_clones: a call did not run the function installed when it started"})
        if any("call" in op and op["call"][1] for op in case["ops"]):
            c.nontrivial.add(json.dumps(case["ops"]))


PROP = C13()
