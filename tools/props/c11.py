"""C11 -- path filter verdicts follow the documented glob, ignore and extension rules."""
import json, os
from vlib import *
from props.c03 import PATTERNS, DIRS, FILES, cs, opt, coq_files

POS = [p for p in PATTERNS if not p.startswith("!") and not p.startswith("#") and p.strip()]
FNAMES = ["a.rs", "b.txt", "x.log", "Cargo.toml", "Makefile", ".hidden", "a.tar.gz", "noext", "c.", "d.RS", "foo", "target"]


class C11(Prop):
    pid = "C11"
    generators = ["fskinds", "clifilter"]
    coq_targets = ["Run/EvalC11.vo"]
    bins = ["h_globset"]
    trusted = [
        "modelled, not verified: globset/ignore semantics as for C03; Path::extension / file_name / PathBuf == on clean "
        "absolute paths; the 1.x double-slash compatibility match is transcribed",
        "CLI layer: the fs-event-kind normalisation table is translated from cli/src/filterer.rs; filter programs (jaq) are not modelled",
    ]

    def gen(self, r, n):
        cases = []
        for i in range(n):
            origin = r.choice(["p", "p", "p/src", ""])
            def pats(k, neg_ok):
                out = []
                for _ in range(k):
                    pat = r.choice(PATTERNS if neg_ok else POS)
                    if r.random() < 0.25:
                        pat = r.choice(["/", ""]) + pat.strip("/") + r.choice(["/", ""])
                    out.append({"pat": pat, "in": r.choice([None, origin, origin, "p/test"])})
                return out
            filters = pats(r.choice([0, 0, 1, 2, 3]), True)
            ignores = pats(r.choice([0, 0, 1, 2, 4]), True)
            if r.random() < 0.15:
                # a pattern restated after a negation (the last matching pattern decides), or simply repeated
                pos, neg = r.choice([("*.log", "!*.log"), ("*.txt", "!*.txt"), ("foo", "!foo"), ("target/", "!target/"), ("*", "!*"), ("x.log", "!*.log")])
                where = r.choice([None, origin])
                ignores = [{"pat": x, "in": where} for x in r.choice([[pos, neg, pos], [neg, pos, neg], [pos, pos, neg], [pos, neg, pos, neg]])] + ignores[:1]
            if r.random() < 0.08:
                pos, neg = r.choice([("*.log", "!*.log"), ("src/**", "!src/**"), ("*", "!*")])
                filters = [{"pat": x, "in": None} for x in [pos, neg, pos]]
            exts = [r.choice(["rs", "txt", "log", "toml", "gz", "", "RS"]) for _ in range(r.choice([0, 0, 0, 1, 2, 3]))]
            files = []
            for _ in range(r.choice([0, 0, 1, 2])):
                sub = "/".join(r.choice(DIRS) for _ in range(r.randint(0, 2)))
                files.append({"applies_in": r.choice([None, (origin + "/" + sub).strip("/") or None]),
                              "lines": [r.choice(PATTERNS) for _ in range(r.randint(1, 3))]})
            events, allpaths = [], []
            for _ in range(12):
                ev = []
                for _ in range(r.choice([0, 1, 1, 1, 1, 2, 3]) if len(events) else 0):
                    base = r.choice([origin, origin, origin + "/" + r.choice(DIRS), "q", "p/test", "p/tests"]).strip("/")
                    tail = [r.choice(DIRS) for _ in range(r.choice([0, 0, 1]))] + [r.choice(FNAMES + FILES)]
                    p = (base + "/" + "/".join(tail)).strip("/")
                    ev.append({"path": p, "ft": r.choice(["file", "file", "dir", None])})
                    allpaths.append(p)
                events.append(ev)
            whitelist = [r.choice(allpaths)] if allpaths and r.random() < 0.25 else []
            cases.append({"id": i, "origin": origin, "filters": filters, "ignores": ignores, "exts": exts, "files": files,
                          "whitelist": whitelist, "events": events})
        return cases

    def correspond(self, tier, seed, deep=False):
        c = Corr()
        c.rule = ("generated configurations: 0-3 filter patterns, 0-4 ignore patterns (pattern grammar of C03 with leading/trailing "
                  "slash variants, in_path None/origin/other), 0-3 extensions, 0-2 ignore files, optional whitelisted file; 12 probe "
                  "events each with 0-3 paths of type file/dir/unknown inside and outside the origin. Both the model's check_event and "
                  "the property's formula are evaluated. non-trivial = distinct (config, event) with at least one configured source and a path")
        r = rng(seed, "c11")
        cases = self.gen(r, 250 if tier == "quick" else 4000)
        d = scratch("c11")
        write_jsonl(os.path.join(d, "cases.jsonl"), cases)
        rc, obs, out = run_harness("h_globset", ["check", os.path.join(d, "cases.jsonl"), os.path.join(d, "fs")], timeout=1200)
        if rc != 0 or len(obs) != len(cases):
            c.errors.append(f"h_globset failed rc={rc}: {out[-800:]}")
            return c
        terms, keep = [], []
        for case, o in zip(cases, obs):
            if "error" in o:
                c.count("construction_error")
                continue
            root = o["root"]
            absf = lambda rel: root if rel == "" else root + "/" + rel
            pl = lambda ps: coq_list([f"({cs(p['pat'])}, {opt(absf(p['in']) if p['in'] is not None else None)})" for p in ps])
            evs = coq_list([coq_list([f"({cs(absf(p['path']))}, {'true' if p['ft'] == 'dir' else 'false'})" for p in ev]) for ev in case["events"]])
            terms.append(f"eval_globset {cs(o['origin'])} {pl(case['filters'])} {pl(case['ignores'])} "
                         f"{coq_list([cs(absf(w)) for w in case['whitelist']])} {coq_files(case['files'], absf)} "
                         f"{coq_list([cs(e) for e in case['exts']])} {evs}")
            keep.append((case, o))
        res, err = coq_eval("c11", ["Glob.Glob", "Glob.Gitignore", "Ignore.IgnoreFilter", "Globset.Globset", "Run.EvalC11"], terms)
        if err:
            c.errors.append("model evaluation failed: " + err[-800:])
            return c
        for (case, o), m in zip(keep, res):
            c.evaluations += 1
            mod = m.strip("[]").split(",") if m != "[]" else []
            impl = ["T" if v else "F" for v in o["verdicts"]]
            model_v = [x[0] for x in mod]
            spec_v = [x[1] for x in mod]
            conf = bool(case["filters"] or case["ignores"] or case["exts"] or case["files"] or case["whitelist"])
            for ev, iv in zip(case["events"], impl):
                c.count("verdict=" + iv)
                if conf and ev:
                    c.nontrivial.add(json.dumps([case["filters"], case["ignores"], case["exts"], case["files"], case["whitelist"], ev]))
            if impl == model_v:
                c.validated += 1
            else:
                c.disagreements.append({"case": case, "impl": impl, "model": model_v, "what": "GlobsetFilterer model vs code"})
            if impl != spec_v:
                bad = [ev for ev, a, b in zip(case["events"], impl, spec_v) if a != b]
                c.failing.append({"case": {k: case[k] for k in ("origin", "filters", "ignores", "exts", "files", "whitelist")},
                                  "events": bad[:3], "impl": impl, "expected": spec_v,
                                  "clause": "C11_verdict_formula: verdict differs from the documented rule"})
            if not all(v for ev, v in zip(case["events"], o["verdicts"]) if not ev):
                c.failing.append({"case": case, "impl": impl, "clause": "C11_no_path_passes"})
            if len(c.samples) < 3 and conf:
                c.samples.append({"case": case, "impl": impl, "model": model_v, "formula": spec_v})
        return c


PROP = C11()
