"""C20 -- project origins are exactly the marked ancestors."""
import json, os
from vlib import *
import translate


def cs(s):
    return coq_term_string(s)


def coq_listing(l):
    return coq_list([f"({cs(n)}, {t}%N)" for n, t in l])


class C20(Prop):
    pid = "C20"
    generators = ["origins"]
    coq_targets = ["Run/EvalC20.vo"]
    bins = ["h_codec"]
    trusted = [
        "modelled, not verified: tokio read_dir / DirEntry::file_type (a directory listing is a name->type map), std::path::Path::parent",
        "documented marker table doc_type_markers is hand-written from the rustdoc of ProjectType",
    ]

    def gen_cases(self, r, n):
        t = translate.TABLES.get("origins")
        if t:
            om, tm = t["omarkers"], [(a, b) for a, b, _ in t["tmarkers"]]
        else:  # translator broken: fall back to a fixed list so the search can still run
            om = [("file", "Cargo.toml"), ("dir", ".git"), ("file", "go.mod"), ("file", "build.zig")]
            tm = om
        kinds = {"file": 0, "dir": 1}
        cases = []
        for i in range(n):
            depth = r.randint(1, 5)
            levels = []
            for _ in range(depth):
                ents = {}
                mode = r.random()
                k = 0 if mode < 0.35 else r.randint(1, 3)
                for _ in range(k):
                    c = r.random()
                    kind, name = r.choice(tm if r.random() < 0.6 else om)
                    if c < 0.55:
                        ents[name] = kinds[kind]                     # a real marker
                    elif c < 0.75:
                        ents[name] = 1 - kinds[kind]                 # wrong node type
                    elif c < 0.85:
                        ents[name] = 2                               # symlink named like a marker
                    else:
                        ents[r.choice(["README", "src", "x.txt", "cargo.toml", ".gitignore"])] = r.randint(0, 1)
                levels.append(sorted(ents.items()))
            case = {"id": i, "levels": [[list(e) for e in l] for l in levels], "start": r.randint(0, depth - 1)}
            k = r.random()
            if k < 0.12:
                case["chroot"] = True            # the chain starts at the file system root itself (level 0 is "/")
            elif k < 0.30 and depth >= 2:
                case["link"] = r.randint(1, depth - 1)      # that level is a symbolic link to a directory elsewhere
                case["start"] = r.randint(case["link"], depth - 1)
            cases.append(case)
        # very large directories: a marker among several thousand other entries is still seen (the whole directory is listed)
        for j in range(4 if n < 1000 else 12):
            kind, name = (tm + om)[(7 * j) % len(tm + om)]
            cases.append({"id": n + j, "levels": [[], [[name, kinds[kind]]]], "start": 1, "filler": 3000})
        # very deep start paths: a marker 35-60 levels above the start directory is still found
        for j, depth in enumerate((36, 48, 61)):
            kind, name = (tm + om)[(5 * j + 1) % len(tm + om)]
            levels = [[] for _ in range(depth)]
            levels[0] = [[name, kinds[kind]]]
            levels[depth // 2] = [[(tm + om)[(3 * j) % len(tm + om)][1], kinds[(tm + om)[(3 * j) % len(tm + om)][0]]]]
            cases.append({"id": len(cases) + 10000, "levels": levels, "start": depth - 1})
        return cases

    def correspond(self, tier, seed, deep=False):
        c = Corr()
        c.rule = ("random directory chains of depth 1-5 under a scratch dir; each level gets 0-3 entries drawn from "
                  "the source's marker tables with the right node type, the wrong node type, as a symlink, or a "
                  "non-marker name; start at any depth; 12% of the chains start at the file system root itself (run in a chroot), 18% pass through a "
                  "symbolic link to a directory elsewhere whose parent carries a marker. non-trivial = distinct (levels,start) with at least one "
                  "marker-named entry on the chain. Plus the exhaustive ProjectType classification.")
        r = rng(seed, "c20")
        n = 150 if tier == "quick" else 1500
        cases = self.gen_cases(r, n)
        d = scratch("c20")
        write_jsonl(os.path.join(d, "cases.jsonl"), cases)
        rc, obs, out = run_harness("h_codec", ["origins", os.path.join(d, "cases.jsonl"), os.path.join(d, "fs")])
        if rc != 0 or len(obs) != len(cases):
            c.errors.append(f"h_codec origins failed rc={rc}: {out[-800:]}")
            return c
        rc, cl, out = run_harness("h_codec", ["origins-class"])
        if rc != 0 or not cl:
            c.errors.append(f"h_codec origins-class failed: {out[-500:]}")
            return c
        rows = cl[0]["class"]
        skipped = [o for o in obs if "skipped" in o]
        if skipped:
            c.extra["skipped_chroot_cases"] = len(skipped)
            keep = [(cs_, o) for cs_, o in zip(cases, obs) if "skipped" not in o]
            cases, obs = [k[0] for k in keep], [k[1] for k in keep]
        # ---- model evaluation
        terms, mons = [], []
        for case, o in zip(cases, obs):
            fs = coq_list([f"({coq_list([cs(x) for x in reversed(e['comps'])])}, {coq_listing(e['listing'])})"
                           for e in o["chain"]])
            tl = coq_list([coq_listing(e["listing"]) for e in o["dirs"]])
            start = coq_list([cs(x) for x in reversed(o["start"])])
            terms.append(f"eval_case {start} {fs} {tl}")
            ch = coq_list([f"({len(e['comps'])}, {coq_listing(e['listing'])})" for e in o["chain"]])
            rep = coq_list([str(len(x)) for x in sorted(o["origins"], key=len, reverse=True)])
            mons.append(f"mon_origins {ch} {rep}")
            for e in o["dirs"]:
                mons.append(f"mon_types {coq_listing(e['listing'])} {coq_list([cs(x) for x in e['types']])}")
        terms.append("eval_class")
        mons.append("mon_class " + coq_list(
            [f"({cs(n)}, {str(v).lower()}, {str(s).lower()})" for n, v, s in rows]))
        res, err = coq_eval("c20", ["Run.EvalC20"], terms + mons)
        if err:
            c.errors.append("model evaluation failed: " + err[-800:])
            return c
        mres = res[len(terms):]
        # ---- diff
        mi = 0
        for case, o, mod in zip(cases, obs, res):
            c.evaluations += 1
            inside = [x for x in o["origins"]]
            impl = "O[" + ",".join(str(len(x)) for x in sorted(inside, key=len, reverse=True)) + "] T[" + \
                ",".join("[" + ",".join(sorted(e["types"])) + "]" for e in o["dirs"]) + "]"
            names = {n for l in case["levels"] for n, _ in l}
            c.count(f"depth={len(case['levels'])}" + (" (3000 filler entries)" if case.get("filler") else ""))
            c.count("chain from the file system root (chroot)" if case.get("chroot") else ("symlinked level" if "link" in case else "plain chain"))
            c.count(f"origins_in_case={sum(1 for x in o['origins'] if len(x) >= len(o['start']) - case['start'])}")
            if names - {"README", "src", "x.txt", "cargo.toml", ".gitignore"}:
                c.nontrivial.add(json.dumps([case["levels"], case["start"]]))
            if impl == mod:
                c.validated += 1
            else:
                c.disagreements.append({"case": case, "impl": impl, "model": mod, "what": "origins/types"})
            if len(c.samples) < 3:
                c.samples.append({"case": case, "impl": impl, "model": mod})
            # monitors
            if mres[mi] != "T":
                c.failing.append({"case": case, "impl": o["origins"], "clause": "C20_origins_exact (monitor mon_origins)"})
            mi += 1
            for e in o["dirs"]:
                if mres[mi] != "T":
                    c.failing.append({"case": case, "impl": e, "clause": "C20_types_exact vs documented markers (mon_types)"})
                mi += 1
        # classification (exhaustive)
        c.evaluations += 1
        impl = "[" + ",".join(f"{n}:{'T' if v else 'F'}{'T' if s else 'F'}" for n, v, s in rows) + "]"
        if impl == res[len(cases)]:
            c.validated += 1
        else:
            c.disagreements.append({"case": "classification", "impl": impl, "model": res[len(cases)]})
        c.nontrivial.add("classification")
        c.samples.append({"case": "classification of every ProjectType", "impl": impl})
        c.extra["classification_exhaustive"] = True
        bad = mres[mi]
        if bad != "[]":
            for n in bad.strip("[]").split(","):
                c.failing.append({"case": {"project_type": n}, "impl": [x for x in rows if x[0] == n],
                                  "clause": "C20_classification: is_vcs xor is_soft", "klass": f"unclassified:{n}"})
        return c


PROP = C20()
