"""C15 -- runtime errors reach the error handler once and stop nothing unless elevated."""
import json
from vlib import *
from props.workercommon import *
from props.c01 import C01, worker_check

BEH = {"ignore": 0, "elevate": 1, "critical": 2, "keepref": 3, "replace": 0}     # (a handler that replaces itself: as ignore, the
# later errors go to the replacement -- exactly once each, whichever generation handles them)


def wx_scen(r, i):
    th = r.choice([0, 30, 60])
    evs, t, nid, behs = [], 40, 1, {}
    n = r.randint(2, 10)
    burst = r.random() < 0.25
    for k in range(n if not burst else 80):
        v = r.choice(["pass", "pass", "err", "err", "reject"]) if not burst else "err"
        evs.append({"id": nid, "at_ms": t, "verdict": v, "prio": r.choice(["normal", "normal", "high", "low"])})
        if v == "err":
            c = r.random()
            if not burst and c < 0.18:
                behs[str(nid)] = r.choice(["elevate", "critical"])
            elif c < 0.3:
                behs[str(nid)] = "keepref"
            elif c < 0.45:
                behs[str(nid)] = "replace"
        nid += 1
        t += 0 if burst else r.choice([3, 10, 40, 90])
    case = {"id": i, "throttle_ms": th, "events": evs, "error_behaviours": behs, "handler": {}, "tail_ms": 250 + th,
            "errors_cap": r.choice([2, 64]) if burst else 64}
    if r.random() < 0.25 and "keepref" not in behs.values():
        case["rt"] = "current"
    if burst:
        case["error_slow_ms"] = 2
        case["tail_ms"] = 600
    return case


def corpus_wx():
    """always run: the handler replaces itself and more errors follow; a slow handler elevates while the action worker is blocked
    sending the next error of a burst (error queue of one)"""
    out = []
    evs = [{"id": k, "at_ms": 40 + 30 * k, "verdict": "err" if k in (1, 2, 4) else "pass", "prio": "normal"} for k in range(1, 6)]
    out.append({"throttle_ms": 0, "events": evs, "error_behaviours": {"1": "replace", "2": "replace"}, "handler": {}, "tail_ms": 400, "errors_cap": 64})
    out.append({"throttle_ms": 0, "events": evs, "error_behaviours": {"1": "replace", "4": "elevate"}, "handler": {}, "tail_ms": 400, "errors_cap": 64})
    burst = [{"id": k, "at_ms": 40, "verdict": "err", "prio": "normal"} for k in range(1, 5)]
    out.append({"throttle_ms": 0, "events": burst, "error_behaviours": {"1": "elevate"}, "handler": {}, "tail_ms": 1200, "errors_cap": 1, "error_slow_ms": 200})
    out.append({"throttle_ms": 0, "events": burst, "error_behaviours": {"2": "critical"}, "handler": {}, "tail_ms": 1200, "errors_cap": 1, "error_slow_ms": 150})
    # several errors queued while a slow handler works on the first; the one in the middle is elevated
    out.append({"throttle_ms": 0, "events": burst, "error_behaviours": {"2": "elevate"}, "handler": {}, "tail_ms": 1500, "errors_cap": 64, "error_slow_ms": 120})
    out.append({"throttle_ms": 0, "events": burst, "error_behaviours": {"3": "critical"}, "handler": {}, "tail_ms": 1500, "errors_cap": 64, "error_slow_ms": 120})
    # the same on a current-thread runtime
    for cs_ in [json.loads(json.dumps(x)) for x in out[:2]]:
        cs_["rt"] = "current"
        out.append(cs_)
    for k, cs_ in enumerate(out):
        cs_["id"] = 200000 + k
    return out


def overflow_check(c, n):
    """the event queue overflows (queue of 4, an action handler that takes 300 ms, 150 files created at once, real watcher): that is a
    runtime error like any other -- it reaches the error handler, main keeps running and a file created later is still delivered"""
    import os
    cases = []
    for i in range(n):
        cases.append({"id": i, "watcher": "native" if i % 2 == 0 else "poll", "throttle_ms": 20, "event_channel_size": 4, "handler_slow_ms": 300,
                      "tail_ms": 1500, "ops": [{"at_ms": 300, "op": "create", "path": "first.txt"}, {"at_ms": 500, "op": "burst", "path": "x", "n": 150},
                                                {"at_ms": 3800, "op": "create", "path": "late.txt"}]})
    d = scratch("c15overflow")
    f = os.path.join(d, "cases.jsonl")
    write_jsonl(f, cases)
    from concurrent.futures import ThreadPoolExecutor

    def one(k):
        fk = os.path.join(d, f"case_{k}.jsonl")
        write_jsonl(fk, [cases[k]])
        return run_harness("h_worker", ["fsreal", fk, os.path.join(d, f"fs{k}")], timeout=300)
    with ThreadPoolExecutor(max_workers=n) as ex:
        outs = list(ex.map(one, range(n)))
    for case, (rc, objs, txt) in zip(cases, outs):
        if rc != 0 or len(objs) != 1:
            c.errors.append(f"h_worker fsreal (overflow) failed rc={rc}: {txt[-400:]}")
            return
        o = objs[0]
        c.evaluations += 1
        c.count("overflow:" + case["watcher"])
        errs = [l for l in o["log"] if l["k"] == "error"]
        late = any("late.txt" in k for l in o["log"] if l["k"] == "batch" for k in l["keys"])
        brief = {"watcher": case["watcher"], "event_channel_size": 4, "handler_slow_ms": 300, "burst": 150}
        ok = True
        if o["main_finished"]:
            ok = False
            c.failing.append({"case": brief, "impl": {"errors_handled": len(errs), "late_delivered": late},
                              "clause": "C15_no_elevation_continues: main ended although no error was elevated (event queue overflow)"})
        elif not late:
            ok = False
            c.failing.append({"case": brief, "impl": {"errors_handled": len(errs)},
                              "clause": "C15_no_elevation_continues: a file created after an event-queue overflow was never delivered"})
        if errs:
            c.nontrivial.add(json.dumps(brief))
        c.extra["overflow_errors_handled"] = c.extra.get("overflow_errors_handled", 0) + len(errs)
        c.validated += ok


class C15(C01):
    pid = "C15"
    trusted = C01.trusted + [
        "fs-watcher errors (watch/unwatch failures per path) are covered by C13's model and harness; errors raised from the watcher "
        "callback use try_send and may be dropped when the queue is full (at most once)",
    ]

    def correspond(self, tier, seed, deep=False):
        tier = "thorough" if deep else tier
        c = worker_check(self, tier, seed, "c15")
        if c.errors:
            return c
        r = rng(seed, "c15wx")
        cases = corpus_wx() + [wx_scen(r, 100000 + i) for i in range(40 if tier == "quick" else 500)]
        try:
            obs = run_parallel("wx", cases, "wx_" + self.pid)
        except RuntimeError as e:
            c.errors.append(str(e))
            return c
        overflow_check(c, 2 if tier == "quick" else 8)
        if c.errors:
            return c
        terms = []
        for case, o in zip(cases, obs):
            filt_err = [l["id"] for l in o["log"] if l["k"] == "filter" and l["v"] == "err"]
            tbl = coq_list([f"({k}, {BEH[v]})" for k, v in case["error_behaviours"].items()])
            terms.append(f"(eval_hook {tbl} {coq_list([str(x) for x in filt_err])})%N")
        res, err = coq_eval("wx_" + self.pid, ["Worker.ErrorHook", "Run.EvalWorker"], terms)
        if err:
            c.errors.append("model evaluation failed: " + err[-800:])
            return c
        for case, o, m in zip(cases, obs, res):
            c.evaluations += 1
            c.count("wx")
            handled = [l["id"] for l in o["log"] if l["k"] == "onerror"]
            mh, mres = m.split(" ")
            mh = [int(x) for x in mh.strip("[]").split(",") if x]
            if mres == "running":
                impl_res = "running" if not o["main_finished"] else "ended:" + o["main_result"]
            elif mres.startswith("elevated") or mres.startswith("critical"):
                impl_res = mres if (o["main_finished"] and "Err" in o["main_result"]) else "impl:" + o["main_result"]
            else:
                impl_res = o["main_result"]
            # the hook may not have drained the channel when main ended: handled must be a prefix-match up to the stop
            ok = handled == mh and impl_res == mres
            if ok:
                c.validated += 1
            else:
                c.disagreements.append({"case": case, "impl": {"handled": handled, "main": o["main_result"]}, "model": m, "what": "error hook"})
            if case["error_behaviours"] or len(handled) > 1:
                c.nontrivial.add(json.dumps(case, sort_keys=True))
            # monitors
            filt_err = [l["id"] for l in o["log"] if l["k"] == "filter" and l["v"] == "err"]
            stops = [i for i in filt_err if case["error_behaviours"].get(str(i)) in ("elevate", "critical")]
            upto = filt_err if not stops else filt_err[:filt_err.index(stops[0]) + 1]
            if handled != upto:
                c.failing.append({"case": case, "impl": handled, "expected": upto,
                                  "clause": "C15_exactly_once: errors passed to the handler are not exactly the raised ones, once each, in order"})
            if stops and not (o["main_finished"] and "Err" in o["main_result"]):
                c.failing.append({"case": case, "impl": o["main_result"], "clause": "C15_elevation_ends_main: main did not end with the critical error"})
            if not stops and o["main_finished"]:
                c.failing.append({"case": case, "impl": o["main_result"], "clause": "C15_no_elevation_continues: main ended although no error was elevated"})
            if not stops:
                passed = [e["id"] for e in case["events"] if e["verdict"] == "pass"]
                delivered = [i for l in o["log"] if l["k"] == "batch" for i in l["ids"]]
                if sorted(passed) != sorted(delivered):
                    c.failing.append({"case": case, "impl": delivered, "expected": passed,
                                      "clause": "C15_containment: ordinary events lost or duplicated around filter errors"})
            if len(c.samples) < 5 and case["error_behaviours"]:
                c.samples.append({"case": case, "impl_handled": handled, "impl_main": o["main_result"], "model": m})
        return c


PROP = C15()
