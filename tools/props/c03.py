"""C03 -- ignore files apply only inside their directory; the nearest match wins."""
import json, os
from vlib import *

DIRS = ["t", "te", "test", "tests", "test2", "src", "a", "target"]
FILES = ["x.log", "keep.log", "foo", "bar.txt", "target", "a.b", "test", "Makefile", ".hidden", "x.logx"]
PATTERNS = ["foo", "target", "x.log", "*.log", "*.txt", "*", "target/", "test/", "tests/", "/foo", "/target/", "/test",
            "test/x.log", "src/*.txt", "a/b", "**/foo", "**/x.log", "target/**", "src/**", "a/**/b", "test/**/x.log",
            "!keep.log", "!*.txt", "!/foo", "!test/", "!**/foo", "!target/**", "!*", "# comment", "", "foo   ", "t*", "te?t", "*.l?g",
            "/*.log", "!/*.log", "**", "/**/x.log", "tests/*.log", "!tests/keep.log", "x.*"]


def cs(s):
    return coq_term_string(s)


def opt(s):
    return f"(Some {cs(s)})" if s is not None else "None"


def coq_files(files, absf):
    return coq_list([f"({opt(absf(f['applies_in']) if f['applies_in'] is not None else None)}, "
                     f"{coq_list([cs(l) for l in f['lines']])})" for f in files])


GUARD_FLAG = "true"


class C03(Prop):
    pid = "C03"
    generators = []
    coq_targets = ["Run/EvalC03.vo"]
    bins = ["h_ignore"]
    trusted = [
        "modelled, not verified: globset glob semantics (token regexes of literal_separator mode; classes, alternates and "
        "backslash escapes outside the model), ignore::gitignore add_line / strip / matched* (transcribed), radix_trie "
        "get_ancestor = longest byte-prefix key, std::path parent/starts_with on clean absolute paths; canonicalize / dunce / "
        "normalize glue is exercised only",
        "the verdict for a directory w.r.t. an ignore file stored in that directory is unspecified by the property; model and "
        "code agree on it anyway",
    ]

    def rand_dir(self, r, maxdepth=3):
        return "/".join(r.choice(DIRS) for _ in range(r.randint(0, maxdepth)))

    def gen(self, r, n):
        cases = []
        for i in range(n):
            origin = r.choice(["p", "p", "p", "p/" + r.choice(DIRS), ""])
            nfiles = r.choice([0, 1, 1, 2, 2, 3, 4, 5])
            files = []
            for _ in range(nfiles):
                c = r.random()
                if c < 0.2:
                    ai = None
                else:
                    sub = self.rand_dir(r)
                    ai = (origin + "/" + sub).strip("/") if c < 0.9 else ("q/" + sub).strip("/")   # mostly inside the origin
                    if ai == "":
                        ai = origin
                lines = [r.choice(PATTERNS) for _ in range(r.randint(1, 4))]
                if r.random() < 0.2:
                    # a pattern restated after a negation (last match wins within a file), or simply repeated
                    pos, neg = r.choice([("*.log", "!keep.log"), ("*.txt", "!*.txt"), ("foo", "!/foo"), ("target/", "!target/"), ("*", "!*"),
                                         ("x.log", "!*.log"), ("test/", "!test/")])
                    lines = r.choice([[pos, neg, pos], [neg, pos, neg], [pos, neg, pos, neg], [pos, pos, neg]]) + lines[:1]
                files.append({"applies_in": ai, "lines": lines})
            globs = []
            if r.random() < 0.25:
                globs.append({"applies_in": r.choice([None, None, origin or None]), "lines": [r.choice(PATTERNS) for _ in range(r.randint(1, 3))]})
            # probes biased towards directories that have ignore files and their prefix-related siblings
            bases = [f["applies_in"] for f in files if f["applies_in"]] + [origin]
            probes = []
            for _ in range(12 if n < 1000 else 8):
                base = r.choice(bases) if r.random() < 0.7 else (origin + "/" + self.rand_dir(r, 2)).strip("/")
                c = r.random()
                if c < 0.3 and base:
                    parts = base.split("/")
                    sib = r.choice(DIRS + [parts[-1] + "s", parts[-1] + "2", parts[-1][:-1] or "z"])
                    base = "/".join(parts[:-1] + [sib])
                elif c < 0.4:
                    base = ("q/" + self.rand_dir(r, 2)).strip("/")
                tail = [r.choice(DIRS) for _ in range(r.choice([0, 0, 1, 2]))] + [r.choice(FILES + DIRS)]
                p = (base + "/" + "/".join(tail)).strip("/").replace("//", "/")
                probes.append({"path": p, "dir": r.random() < 0.35})
            cases.append({"id": i, "origin": origin, "files": files, "globs": globs, "probes": probes,
                          "mode": r.choice(["new", "new", "add", "empty_add"]) if not globs else r.choice(["new", "add"]),
                          "reps": 1})
        return cases

    def correspond(self, tier, seed, deep=False):
        c = Corr()
        c.rule = ("generated trees over prefix-related directory names (t, te, test, tests, test2, ...), 0-5 ignore files placed in "
                  "random directories (inside / outside the origin, or global) with 1-4 lines from the pattern grammar (names, *.ext, "
                  "dir/, /rooted, a/b, **/x, x/**, a/**/b, negations, comments, blanks, trailing spaces, ? wildcards), built with "
                  "new / add_file / empty+add_file (+ add_globs), probed with 12 file and directory paths biased to directories "
                  "holding ignore files and their string-prefix siblings, through match_path, check_dir and IgnoreFilterer. "
                  "non-trivial = distinct (case, probe) where some pattern matches (verdict not none)")
        r = rng(seed, "c03")
        n = 250 if tier == "quick" else 4000
        cases = self.gen(r, n)
        # read-order determinism: contradictory same-directory files, constructed repeatedly
        for j in range(6 if tier == "quick" else 40):
            cases.append({"id": n + j, "origin": "p", "files": [
                {"applies_in": "p", "lines": ["*.log"] + [f"pad{k}" for k in range(r.randint(0, 400))]},
                {"applies_in": "p", "lines": ["!*.log"]}] + ([{"applies_in": "p", "lines": ["x.log"] * 50}] if j % 2 else []),
                "globs": [], "probes": [{"path": "p/x.log", "dir": False}, {"path": "p/a/y.log", "dir": False}],
                "mode": "new", "reps": 25})
        d = scratch("c03")
        write_jsonl(os.path.join(d, "cases.jsonl"), cases)
        rc, obs, out = run_harness("h_ignore", ["filter", os.path.join(d, "cases.jsonl"), os.path.join(d, "fs")], timeout=1200)
        if rc != 0 or len(obs) != len(cases):
            c.errors.append(f"h_ignore failed rc={rc}: {out[-800:]}")
            return c
        terms = []
        for case, o in zip(cases, obs):
            root = o["root"]
            absf = lambda rel: root if rel == "" else root + "/" + rel
            origin = o["origin"]
            files, globs = coq_files(case["files"], absf), coq_files(case["globs"], absf)
            probes = coq_list([f"({cs(absf(p['path']))}, {str(p['dir']).lower()})" for p in case["probes"]])
            mode = {"new": 0, "add": 1, "empty_add": 2}[case["mode"]]
            for spec in ("false", "true"):
                terms.append(f"eval_filter {spec} {GUARD_FLAG} {mode}%N {cs(origin)} {files} {globs} {probes}")
        res, err = coq_eval("c03", ["Glob.Glob", "Glob.Gitignore", "Ignore.IgnoreFilter", "Run.EvalC03"], terms)
        if err:
            c.errors.append("model evaluation failed: " + err[-800:])
            return c
        for k, (case, o) in enumerate(zip(cases, obs)):
            model, spec = res[2 * k], res[2 * k + 1]
            c.evaluations += 1
            c.count("mode=" + case["mode"])
            c.count(f"files={len(case['files'])}")
            if len(o["variants"]) != 1:
                c.failing.append({"case": case, "impl": o["variants"],
                                  "clause": "C03_deterministic_construction: repeated construction from identical inputs gives different verdicts"})
                c.disagreements.append({"case": case, "impl": o["variants"], "model": model, "what": "nondeterministic construction"})
                continue
            v = o["variants"][0]
            if "error" in v:
                c.disagreements.append({"case": case, "impl": v, "model": model, "what": "construction error"})
                continue
            impl = "[" + ",".join(v["probes"]) + "] multi=" + ("T" if v["multi"] else "F")
            for pr, s in zip(case["probes"], v["probes"]):
                if not s.startswith("none"):
                    c.nontrivial.add(json.dumps([case["files"], case["origin"], pr]))
            if impl == model:
                c.validated += 1
            else:
                c.disagreements.append({"case": case, "impl": impl, "model": model, "what": "IgnoreFilter model vs code"})
            if impl != spec and case["mode"] != "empty_add":
                c.failing.append({"case": case, "impl": impl, "expected": spec,
                                  "clause": "C03_equiv_spec: verdict differs from nearest-directory-first git-style evaluation"})
            if len(c.samples) < 3 and len(case["files"]) >= 2:
                c.samples.append({"case": case, "impl": impl, "model": model, "spec": spec})
        return c


PROP = C03()
