"""C08 -- quit always terminates and leaves no supervised process behind."""
import json, os
from concurrent.futures import ThreadPoolExecutor
from vlib import *
from props.jobcommon import *

MARGIN = 300          # ms of real-time latency allowed on top of the model's bound (process spawn, reaping, scheduling)
SIG = {"Terminate": 15, "Interrupt": 2, "Hangup": 1, "User1": 10}


# ------------------------------------------------------------------ part A: job task, paused clock

def quit_history(r, i):
    h = gen_history(r, i, maxops=6)
    ops = [op for op in h["ops"] if not op["op"].startswith("delete") and op["op"] != "drop_handle"] or [{"at": 0, "op": "start", "yield": True}]
    t = ops[-1]["at"] + r.choice([0, 0, 5, 10, 20, 50, 60, 100])
    grace = r.choice([0, 7, 50, 100, 250])
    sig = r.choice(["Terminate", "Interrupt", "Hangup"])
    ops.append({"at": t, "op": "stop_with_signal", "sig": sig, "grace": grace, "yield": False})
    ops.append({"at": t, "op": "delete", "yield": True})
    h["ops"] = ops
    h["quit"] = {"at": t, "sig": sig, "grace": grace}
    return h


# ------------------------------------------------------------------ part B: whole Watchexec instance, real processes

CHILD = [  # (label, simchild script, model child tuple)
    ("exit-on-signal", "exit_after=20000,on_term=exit:0,on_int=exit:0,on_hup=exit:0", "(None, [], Some 0, false)"),
    ("exit-40ms-after-signal", "exit_after=20000,on_term=exit:40,on_int=exit:40,on_hup=exit:40", "(None, [], Some 40, false)"),
    ("ignores", "exit_after=20000,on_term=ignore,on_int=ignore,on_hup=ignore", "(None, [], None, true)"),
    ("short-lived", "exit_after=60,on_term=exit:0,on_int=exit:0,on_hup=exit:0", "(Some 60, [], Some 0, false)"),
]


def gen_scenario(r, i):
    njobs = r.choice([1, 1, 2, 3])
    manner = r.choice(["abort", "graceful", "graceful", "graceful"])
    qsig = r.choice(["Terminate", "Interrupt", "Hangup"])
    qgrace = r.choice([0, 100, 250, 400])
    tq = 400
    same_action = r.random() < 0.15
    steps = {}
    jobs = []
    for j in range(njobs):
        kind = r.randrange(len(CHILD))
        grouped = r.random() < 0.5
        forker = grouped and r.random() < 0.35
        script = CHILD[kind][1] + (",fork_ignorer=1" if forker else "")
        state = r.choice(["running", "running", "running", "never-started", "mid-restart", "mid-stop", "deleted", "delete-pending", "cloned", "queued-controls", "finished"])
        t_create = tq if same_action else 30
        # a command in a session of its own (setsid) is killed on drop like any other
        session = (not grouped) and r.random() < 0.3
        acts = [(t_create, {"job": j, "op": "create", "script": script, "grouped": grouped, "session": session})]
        mops = []      # model ops (job API calls) with their times
        def add(t, op, **kw):
            acts.append((t, dict({"job": j, "op": op}, **kw)))
            mops.append(dict({"at": t, "op": op, "yield": t != tq}, **({"sig": kw["sig"], "grace": kw["grace_ms"]} if "grace_ms" in kw else ({"sig": kw["sig"]} if "sig" in kw else {}))))
        if state != "never-started":
            add(t_create, "start")
        if not same_action:
            if state == "mid-restart":
                add(tq - r.choice([50, 150]), "restart_with_signal", sig="Terminate", grace_ms=r.choice([200, 300]))
            elif state == "mid-stop":
                add(tq - r.choice([50, 150]), "stop_with_signal", sig="Terminate", grace_ms=r.choice([200, 300]))
            elif state == "deleted":
                add(tq - 150, "delete")
            elif state == "delete-pending":
                add(tq, "delete")            # an unawaited delete() in the very action that quits: the quit's own controls queue up behind it
            elif state == "finished":
                add(tq - 200, "stop")
        if state == "cloned":
            acts.append((t_create, {"job": j, "op": "clone_keep"}))      # (also when the job is created in the quitting action)
        if state == "queued-controls":
            add(tq, "restart_with_signal", sig="Terminate", grace_ms=100)
            add(tq, "signal", sig="User1")
        jobs.append({"kind": kind, "grouped": grouped, "forker": forker, "state": state, "mops": mops})
        for t, a in acts:
            steps.setdefault(t, []).append(a)
    quit = {"manner": "abort"} if manner == "abort" else {"manner": "graceful", "sig": qsig, "grace_ms": qgrace}
    sl = []
    for t in sorted(set(list(steps) + [tq])):
        st = {"at_ms": t, "acts": steps.get(t, [])}
        if t == tq:
            st["quit"] = quit
        sl.append(st)
    return {"id": i, "steps": sl, "wait_ms": 2500, "settle_ms": 200, "jobs": jobs, "tq": tq, "manner": manner, "qsig": qsig, "qgrace": qgrace,
            "same_action": same_action}


def _three_ignoring(grace):
    acts = []
    for j in range(3):
        acts += [{"job": j, "op": "create", "script": CHILD[2][1], "grouped": j == 1}, {"job": j, "op": "start"}]
    return {"steps": [{"at_ms": 30, "acts": acts}, {"at_ms": 400, "acts": [], "quit": {"manner": "graceful", "sig": "Terminate", "grace_ms": grace}}],
            "wait_ms": 3000, "settle_ms": 200, "tq": 400, "manner": "graceful", "qsig": "Terminate", "qgrace": grace, "same_action": False,
            "jobs": [{"kind": 2, "grouped": j == 1, "forker": False, "state": "running", "mops": [{"at": 30, "op": "start", "yield": True}]} for j in range(3)]}


def _same_action_cloned(manner):
    q = {"manner": "abort"} if manner == "abort" else {"manner": "graceful", "sig": "Terminate", "grace_ms": 100}
    return {"steps": [{"at_ms": 400, "acts": [{"job": 0, "op": "create", "script": CHILD[0][1], "grouped": False}, {"job": 0, "op": "start"},
                                               {"job": 0, "op": "clone_keep"}], "quit": q}],
            "wait_ms": 2500, "settle_ms": 200, "tq": 400, "manner": manner, "qsig": "Terminate", "qgrace": 100, "same_action": True,
            "jobs": [{"kind": 0, "grouped": False, "forker": False, "state": "cloned", "mops": [{"at": 400, "op": "start", "yield": False}]}]}


def _session_abort():
    return {"steps": [{"at_ms": 30, "acts": [{"job": 0, "op": "create", "script": CHILD[2][1], "grouped": False, "session": True}, {"job": 0, "op": "start"}]},
                      {"at_ms": 400, "acts": [], "quit": {"manner": "abort"}}],
            "wait_ms": 2500, "settle_ms": 200, "tq": 400, "manner": "abort", "qsig": "Terminate", "qgrace": 100, "same_action": False,
            "jobs": [{"kind": 2, "grouped": False, "forker": False, "state": "running", "mops": [{"at": 30, "op": "start", "yield": True}]}]}


def _delete_pending(manner):
    q = {"manner": "abort"} if manner == "abort" else {"manner": "graceful", "sig": "Terminate", "grace_ms": 100}
    return {"steps": [{"at_ms": 30, "acts": [{"job": 0, "op": "create", "script": CHILD[0][1], "grouped": False}, {"job": 0, "op": "start"}]},
                      {"at_ms": 400, "acts": [{"job": 0, "op": "delete"}], "quit": q}],
            "wait_ms": 2500, "settle_ms": 200, "tq": 400, "manner": manner, "qsig": "Terminate", "qgrace": 100, "same_action": False,
            "jobs": [{"kind": 0, "grouped": False, "forker": False, "state": "delete-pending", "mops": [{"at": 30, "op": "start", "yield": True}, {"at": 400, "op": "delete", "yield": False}]}]}


def _pending_long_restart():
    """a graceful restart with a long grace period is pending when a graceful quit with a short one is requested: the quit lasts the remainder
    of the pending grace plus its own, and the whole group is gone afterwards"""
    return {"steps": [{"at_ms": 30, "acts": [{"job": 0, "op": "create", "script": CHILD[2][1] + ",fork_ignorer=1", "grouped": True}, {"job": 0, "op": "start"}]},
                      {"at_ms": 300, "acts": [{"job": 0, "op": "restart_with_signal", "sig": "Terminate", "grace_ms": 1700}]},
                      {"at_ms": 400, "acts": [], "quit": {"manner": "graceful", "sig": "Terminate", "grace_ms": 100}}],
            "wait_ms": 3500, "settle_ms": 200, "tq": 400, "manner": "graceful", "qsig": "Terminate", "qgrace": 100, "same_action": False,
            "jobs": [{"kind": 2, "grouped": True, "forker": True, "state": "mid-restart",
                      "mops": [{"at": 30, "op": "start", "yield": True}, {"at": 300, "op": "restart_with_signal", "sig": "Terminate", "grace": 1700, "yield": True}]}]}


def _two_threads():
    """two jobs created in two actions, the second from another OS thread, a clone of the first handle kept by the application"""
    return {"steps": [{"at_ms": 30, "acts": [{"job": 0, "op": "create", "script": CHILD[0][1], "grouped": False}, {"job": 0, "op": "start"}, {"job": 0, "op": "clone_keep"}]},
                      {"at_ms": 120, "acts": [{"job": 1, "op": "create", "script": CHILD[0][1], "grouped": False, "thread": True}, {"job": 1, "op": "start"}]},
                      {"at_ms": 400, "acts": [], "quit": {"manner": "graceful", "sig": "Terminate", "grace_ms": 200}}],
            "wait_ms": 2500, "settle_ms": 200, "tq": 400, "manner": "graceful", "qsig": "Terminate", "qgrace": 200, "same_action": False,
            "jobs": [{"kind": 0, "grouped": False, "forker": False, "state": "cloned", "mops": [{"at": 30, "op": "start", "yield": True}]},
                     {"kind": 0, "grouped": False, "forker": False, "state": "running", "mops": [{"at": 120, "op": "start", "yield": True}]}]}


def _escalated_quit():
    """quit_gracefully(long grace) then quit() in the same action: an abort, prompt whatever the command does"""
    return {"steps": [{"at_ms": 30, "acts": [{"job": 0, "op": "create", "script": CHILD[2][1], "grouped": False}, {"job": 0, "op": "start"}]},
                      {"at_ms": 400, "acts": [], "quit": {"manner": "graceful-then-abort", "sig": "Terminate", "grace_ms": 1500}}],
            "wait_ms": 2500, "settle_ms": 200, "tq": 400, "manner": "abort", "qsig": "Terminate", "qgrace": 1500, "same_action": False,
            "jobs": [{"kind": 2, "grouped": False, "forker": False, "state": "running", "mops": [{"at": 30, "op": "start", "yield": True}]}]}


SCEN_CORPUS = [
    # several jobs whose commands all ignore the signal: they are stopped concurrently, one grace period in total
    _three_ignoring(400),
    # a job created and started in the action that quits, its handle cloned and kept elsewhere
    _same_action_cloned("graceful"), _same_action_cloned("abort"), _session_abort(), _delete_pending("graceful"), _delete_pending("abort"), _pending_long_restart(), _two_threads(), _escalated_quit(),
    # known finding: grouped command, leader exits on the signal, another member ignores it
    {"steps": [{"at_ms": 30, "acts": [{"job": 0, "op": "create", "script": CHILD[0][1] + ",fork_ignorer=1", "grouped": True}, {"job": 0, "op": "start"}]},
               {"at_ms": 400, "acts": [], "quit": {"manner": "graceful", "sig": "Terminate", "grace_ms": 250}}],
     "wait_ms": 2500, "settle_ms": 200, "tq": 400, "manner": "graceful", "qsig": "Terminate", "qgrace": 250, "same_action": False,
     "jobs": [{"kind": 0, "grouped": True, "forker": True, "state": "running", "mops": [{"at": 30, "op": "start", "yield": True}]}]},
    # the whole group ignores the signal: killed at the deadline, nothing survives
    {"steps": [{"at_ms": 30, "acts": [{"job": 0, "op": "create", "script": CHILD[2][1] + ",fork_ignorer=1", "grouped": True}, {"job": 0, "op": "start"}]},
               {"at_ms": 400, "acts": [], "quit": {"manner": "graceful", "sig": "Terminate", "grace_ms": 250}}],
     "wait_ms": 2500, "settle_ms": 200, "tq": 400, "manner": "graceful", "qsig": "Terminate", "qgrace": 250, "same_action": False,
     "jobs": [{"kind": 2, "grouped": True, "forker": True, "state": "running", "mops": [{"at": 30, "op": "start", "yield": True}]}]},
]


def run_parallel(binname, sub, cases, tag, procs=16):
    d = scratch(tag)
    chunks = [cases[i::procs] for i in range(procs)]

    def one(k):
        if not chunks[k]:
            return 0, [], ""
        f = os.path.join(d, f"cases_{k}.jsonl")
        write_jsonl(f, chunks[k])
        objs = []
        while len(objs) < len(chunks[k]):          # (h_cli onbusy) a hung case ends the process: resume after it
            rc, part, txt = run_harness(binname, [sub, f, os.path.join(d, f"fs{k}"), str(len(objs))], timeout=900)
            if binname == "h_cli":      # (--only-emit-events makes the instance under test print events on the same stdout)
                part = [x for x in part if isinstance(x, dict) and "id" in x and ("main" in x or "hung" in x or "error" in x)]
            if rc != 0 or not part or (len(objs) + len(part) < len(chunks[k]) and not part[-1].get("hung")):
                return rc or 1, objs + part, txt
            objs += part
        return 0, objs, ""
    out = {}
    with ThreadPoolExecutor(max_workers=procs) as ex:
        for k, (rc, objs, txt) in enumerate(ex.map(one, range(procs))):
            if rc != 0 or len(objs) != len(chunks[k]):
                raise RuntimeError(f"{binname} {sub} failed rc={rc}: {txt[-600:]}")
            for o in objs:
                out[o["id"]] = o
    return [out[c["id"]] for c in cases]


class C08(Prop):
    pid = "C08"
    generators = ["jobapi", "sourceprio"]
    coq_targets = ["Run/EvalJob.vo", "Run/EvalC08.vo"]
    bins = ["h_job", "h_quit", "h_cli", "simchild"]
    level = "proof"
    trusted = [
        "job task model (Job/JobModel.v) tied to task.rs by the membership correspondence of C04; the eager scheduler of Job/JobQuit.v "
        "is proved to take only transitions of that model; its time is the model clock: the runtime's wake-up latency is the property's "
        "'small margin' and is measured, not proved (margin allowed on real-time runs: 300 ms)",
        "worker level (Worker/Quit.v) written by hand from action/worker.rs: graceful = stop_with_signal + delete per job then join_all, "
        "abort = break and drop of the LateJoinSet; dropping a job task drops its child (kill_on_drop) -- modelled, observed by h_quit",
        "process groups: killpg for signals and kills, kill_on_drop and leader exit do not touch other members (read from process-wrap "
        "8.2.0 process_group.rs, tokio kill_on_drop); modelled by `killed`/`group_survivors`",
        "async user hooks that never return and spawn hooks that block are outside the model (slack counts the sleep of queued run_async "
        "hooks as given)",
    ]

    def correspond(self, tier, seed, deep=False):
        c = Corr()
        big = tier != "quick" or deep
        c.rule = ("A: random Job-API histories (as C04) followed by the graceful quit's stop_with_signal(sig, grace); delete on the real job "
                  "task under a paused clock: the trace must be an outcome of the model and the Delete ticket must resolve no later than "
                  "the bound of C08_graceful_job_bounded evaluated in Coq at the quit instant; no simulated child may be left unreaped and "
                  "undropped. B: a real Watchexec instance with 1-3 jobs of real processes (exit on the signal / 40 ms later / ignore it / "
                  "short-lived; grouped with a signal-ignoring forked member or not) in states running, never started, finished, deleted, mid "
                  "graceful restart or stop with an armed timer, handle clone kept, controls queued in the quitting action, quit in the "
                  "creating action; abort or graceful with grace 0..400 ms: main must finish within the model's bound + 300 ms and no "
                  "recorded pid may be alive afterwards. C: the CLI handler in-process with injected SIGTERM/SIGINT/EOF/mapped signals. "
                  "non-trivial = scenario with a live process at the quit")
        r = rng(seed, "c08" + ("deep" if deep else ""))
        # ---------------- A
        cases = [quit_history(r, i) for i in range(1500 if big else 150)]
        for i, cs_ in enumerate(cases):
            cs_["id"] = i
        try:
            res = run_histories("job_C08", cases, "fixed")
        except RuntimeError as e:
            c.errors.append(str(e))
            return c
        terms = [f"(eval_quit_bound {env_term(cs_['script'])} {hops_term(cs_['ops'][:-2])} {cs_['quit']['at']} "
                 f"{signum(cs_['quit']['sig'])} {cs_['quit']['grace']})%N" for cs_ in cases]
        bres, err = coq_eval("c08a", ["Gen.Signals_gen", "Codec.Signals", "Job.JobModel", "Run.EvalJob", "Run.EvalC08"], terms)
        if err:
            c.errors.append("model evaluation failed: " + err[-800:])
            return c
        for (case, o, impl, ms), b in zip(res, bres):
            if ms is None or b == MODEL_TIMEOUT:
                c.count("A:model-exploration-too-expensive(skipped)")
                continue
            c.evaluations += 1
            c.count("A:histories")
            bound, ok = b.split(";")
            brief = {"script": case["script"], "ops": case["ops"]}
            if o.get("harness_panic"):
                c.errors.append("harness panicked on " + json.dumps(case)[:300])
                continue
            if o.get("hung"):
                c.failing.append({"case": brief, "impl": "no progress for 10 s of real time with the clock paused",
                                  "clause": "C08_graceful_job_bounded: the job task spins without making progress after the quit"})
                continue
            if ok != "T":
                c.disagreements.append({"case": brief, "model": b, "what": "eager scheduler exceeded the proved bound (model evaluation)"})
            if impl in ms:
                c.validated += 1
            else:
                c.disagreements.append({"case": brief, "impl": impl, "model": ms[:4], "what": "job task trace not among the model's outcomes"})
            tdel = o["tickets"][-1][0]
            if not o["task_finished"] or tdel is None:
                c.failing.append({"case": brief, "impl": impl, "clause": "C08_graceful_job_bounded: job task still running after stop_with_signal + delete"})
            elif tdel > int(bound):
                c.failing.append({"case": brief, "impl": impl, "clause": f"C08_graceful_job_bounded: job ended at {tdel}, bound {bound}"})
            # every simulated child reaped or dropped
            evs = parse_log(o)
            sp = {a[0] for _, k, a in evs if k == "spawn"}
            gone = {a[0] for _, k, a in evs if k in ("reap", "drop")}
            if sp - gone:
                c.failing.append({"case": brief, "impl": impl, "clause": f"C08_no_leader_survives: children {sorted(sp - gone)} neither reaped nor dropped"})
            if sp and any("with_signal" in op["op"] for op in case["ops"][:-2]):
                c.nontrivial.add(json.dumps(brief, sort_keys=True))
        # ---------------- B
        scen = []
        for k, s in enumerate(SCEN_CORPUS):
            s = json.loads(json.dumps(s))
            s["id"] = k
            scen.append(s)
        scen += [gen_scenario(r, 100 + i) for i in range(400 if big else 48)]
        c.absorb(confirm_realtime(self.judge_b, scen))
        if c.errors:
            return c
        # ---------------- C
        cli = []
        for k, (args, ev, sigs, mapped, sq, eof, script) in enumerate([
                ([], {"k": "signal", "sig": "Terminate"}, [15], [], False, False, "exit_after=20000,on_term=exit:0"),
                ([], {"k": "signal", "sig": "Interrupt"}, [2], [], False, False, "exit_after=20000,on_term=exit:0"),
                (["--stop-signal=HUP", "--stop-timeout=300ms"], {"k": "signal", "sig": "Terminate"}, [15], [], False, False, "exit_after=20000,on_hup=ignore"),
                (["--stop-timeout=200ms"], {"k": "signal", "sig": "Interrupt"}, [2], [], False, False, "exit_after=20000,on_term=ignore"),
                (["--stop-timeout=1"], {"k": "signal", "sig": "Terminate"}, [15], [], False, False, "exit_after=20000,on_term=ignore"),   # unit-less = seconds
                (["--stdin-quit"], {"k": "eof"}, [], [], True, True, "exit_after=20000,on_term=exit:0"),
                # signal mode: --signal is what a change sends; the quit still sends the stop signal
                (["--signal=HUP", "--stop-timeout=300ms"], {"k": "signal", "sig": "Interrupt"}, [2], [], False, False, "exit_after=20000,on_hup=ignore,on_term=exit:0"),
                (["--signal=USR1", "--stop-signal=HUP", "--stop-timeout=300ms"], {"k": "signal", "sig": "Terminate"}, [15], [], False, False, "exit_after=20000,on_usr1=ignore,on_hup=exit:0"),
                (["--map-signal=TERM:HUP"], {"k": "signal", "sig": "Terminate"}, [15], [15], False, False, "exit_after=20000,on_hup=ignore"),
                (["--map-signal=INT:USR1"], {"k": "signal", "sig": "Interrupt"}, [2], [2], False, False, "exit_after=20000,on_usr1=ignore"),
                ([], {"k": "signal", "sig": "Hangup"}, [1], [], False, False, "exit_after=20000,on_hup=ignore"),
                # only one of the two quit signals is mapped: the other one still quits
                (["--map-signal=INT:USR1"], {"k": "signal", "sig": "Terminate"}, [15], [2], False, False, "exit_after=20000,on_term=exit:0,on_usr1=ignore"),
                (["--map-signal=TERM:USR1"], {"k": "signal", "sig": "Interrupt"}, [2], [15], False, False, "exit_after=20000,on_term=exit:0,on_usr1=ignore"),
                (["--map-signal=INT:INT"], {"k": "signal", "sig": "Terminate"}, [15], [2], False, False, "exit_after=20000,on_term=exit:0,on_int=ignore")]):
            cli.append({"id": k, "args": args, "child_script": script, "events": [dict(ev, at_ms=300)], "wait_ms": 1500,
                        "m": (sigs, mapped, sq, eof, args)})
        # real OS signals to the process hosting the instance: they travel through the signal source (its priorities included), the
        # filterer the CLI installs and the debounce window.  One process per case (signal dispositions are process-wide).
        FP = 'any(.tags[] | select(.kind == "fs"); .simple == "create")'
        oscli = []
        for args, sig, sigs, mapped, script in [
                (["--debounce=1s", "--stop-timeout=300ms"], "Terminate", [15], [], "exit_after=20000,on_term=exit:0"),
                (["--debounce=1s", "--stop-timeout=300ms"], "Interrupt", [2], [], "exit_after=20000,on_term=exit:0"),
                (["--filter-prog", FP, "--stop-timeout=300ms"], "Terminate", [15], [], "exit_after=20000,on_term=exit:0"),
                (["--filter-prog", FP, "--stop-timeout=300ms"], "Interrupt", [2], [], "exit_after=20000,on_term=ignore"),
                (["--map-signal=TERM:HUP"], "Terminate", [15], [15], "exit_after=20000,on_hup=ignore"),
                # --only-emit-events: a throttled signal opens the debounce window, the terminate signal arrives inside it and closes it at once:
                # the action carries both, and it quits
                (["--only-emit-events", "--debounce=1s"], ["User1", "Terminate"], [10, 15], [], "exit_after=20000,on_term=exit:0")]:
            evl = [{"k": "os_signal", "sig": sg, "at_ms": 400 + 200 * j} for j, sg in enumerate(sig if isinstance(sig, list) else [sig])]
            oscli.append({"id": len(cli) + len(oscli), "args": args, "child_script": script, "events": evl,
                          "wait_ms": 2800, "m": (sigs, mapped, False, False, args),
                          # the property bounds the time from the handler's quit request; how long the signal takes to reach the
                          # handler is not bounded by it, so a debounce window is allowed for (the filter must not stop it, though)
                          "slack_ms": 1000 if "--debounce=1s" in args else 0, "no_command": "--only-emit-events" in args})
        for cc in cli + oscli:
            cc["m"] = list(cc["m"])
        c.absorb(confirm_realtime(self.judge_c, cli + oscli))
        return c

    def judge_c(self, cases, procs):
        """C: the CLI's own quit handling (in-process instance of the CLI's action handler, simulated and real OS signals)"""
        c = Corr()
        cli = [x for x in cases if x["events"][0]["k"] != "os_signal"]
        oscli = [x for x in cases if x["events"][0]["k"] == "os_signal"]
        try:
            cobs = run_parallel("h_cli", "onbusy", cli, "c08c", procs=min(8, procs)) if cli else []
            if oscli:
                cobs += run_parallel("h_cli", "onbusy", oscli, "c08cos", procs=len(oscli))
        except RuntimeError as e:
            c.errors.append(str(e))
            return c
        cli = cli + oscli
        terms = []
        for cc in cli:
            sigs, mapped, sq, eof, args = cc["m"]
            ss = next((a.split("=")[1] for a in args if a.startswith("--stop-signal=")), None)
            stv = next((a.split("=")[1] for a in args if a.startswith("--stop-timeout=")), "10000ms")
            st = int(stv[:-2]) if stv.endswith("ms") else int(float(stv) * 1000)
            ssn = {"HUP": 1}.get(ss)
            terms.append(f"(eval_cli_quit {coq_list([str(x) for x in sigs])} {coq_list([str(x) for x in mapped])} {str(sq).lower()} {str(eof).lower()} "
                         f"0%nat {('(Some %d)' % ssn) if ssn else 'None'} {st})%N")
        cres, err = coq_eval("c08c", ["Worker.Quit", "Run.EvalC08"], terms)
        if err:
            c.errors.append("model evaluation failed: " + err[-800:])
            return c
        for cc, o, m in zip(cli, cobs, cres):
            c.evaluations += 1
            c.count("C:cli-os-signal" if cc["events"][0]["k"] == "os_signal" else "C:cli")
            brief = {"id": cc["id"], "args": cc["args"], "event": cc["events"][0], "child": cc["child_script"]}
            if "error" in o:
                c.errors.append(f"h_cli: {o['error']}")
                continue
            if o.get("hung"):
                c.failing.append({"case": brief, "impl": "the instance made no progress for 10 s past the end of the scenario",
                                  "clause": "C08_cli_signal_quits: interrupt/terminate/EOF did not shut the CLI down (the instance stalled)"})
                continue
            sent = [s for s in o["sent"] if s["k"] != "startup"]
            dur = o["t_end"] - sent[-1]["t"] if sent else None          # (measured from the last signal sent)
            only_emit = "--only-emit-events" in cc["args"]                  # no command is run in that mode
            got = [l["sig"] for l in o["child_log"] if l["ev"] == "signal"]
            if m == "no":
                if o["main"] != "timeout":
                    c.disagreements.append({"case": brief, "impl": o["main"], "model": m, "what": "CLI quit although the signal is mapped / not a quit signal"})
                else:
                    c.validated += 1
                continue
            sig, grace = [int(x) for x in m[len("graceful("):-1].split(",")]
            ok = True
            if o["main"] == "timeout":
                ok = False
                c.failing.append({"case": brief, "impl": o["main"], "clause": "C08_cli_signal_quits: interrupt/terminate/EOF did not shut the CLI down"})
            else:
                if dur > grace + MARGIN + 60 + cc.get("slack_ms", 0):
                    ok = False
                    c.failing.append({"case": brief, "impl": {"ms": dur}, "expected": {"grace": grace}, "clause": "C08: CLI shutdown later than the stop timeout"})
                signame = {15: "term", 2: "int", 1: "hup", 10: "usr1", 3: "quit"}.get(sig, "?")
                if f"on_{signame}=ignore" in cc["child_script"] and got[:1] == [sig] and dur < grace - 60:
                    ok = False
                    c.failing.append({"case": brief, "impl": {"ms": dur}, "expected": {"grace": grace},
                                      "clause": "C08: the command ignoring the stop signal was killed before the stop timeout (the graceful quit was not graceful)"})
                if got[:1] != [sig] and not only_emit:
                    ok = False
                    c.failing.append({"case": brief, "impl": {"signals": got}, "expected": sig, "clause": "C08_cli_first_quit_is_graceful: the command did not receive the stop signal"})
                if o["alive_after"]:
                    ok = False
                    c.failing.append({"case": brief, "impl": {"alive": o["alive_after"]}, "clause": "C08_no_leader_survives: the command survived the CLI shutdown"})
            c.validated += ok
            c.nontrivial.add(json.dumps(brief))
        return c

    def judge_b(self, scen, procs):
        c = Corr()
        try:
            obs = run_parallel("h_quit", "run", scen, "c08b", procs=procs)
        except RuntimeError as e:
            c.errors.append(str(e))
            return c
        terms, idx = [], []
        for s in scen:
            for j, jb in enumerate(s["jobs"]):
                env = f"(mk_env [{CHILD[jb['kind']][2]}] [] [] [])"
                terms.append(f"(eval_quit_job {env} {hops_term(jb['mops'])} {s['tq']} {'true' if s['manner'] == 'graceful' else 'false'} "
                             f"{SIG[s['qsig']]} {s['qgrace']} {'true' if jb['forker'] else 'false'})%N")
                idx.append((s["id"], j))
        mres, err = coq_eval("c08b", ["Gen.Signals_gen", "Codec.Signals", "Job.JobModel", "Run.EvalJob", "Run.EvalC08"], terms)
        if err:
            c.errors.append("model evaluation failed: " + err[-800:])
            return c
        per = {}
        for (sid, j), m in zip(idx, mres):
            per.setdefault(sid, []).append(dict(kv.split("=") for kv in m.split(";")))
        for s, o in zip(scen, obs):
            c.evaluations += 1
            c.count("B:" + s["manner"])
            for jb in s["jobs"]:
                c.count("B:state=" + jb["state"])
            brief = {"id": s["id"], "steps": s["steps"]}
            tq = [h["t"] for h in o["hlog"] if h["k"] == "quit"]
            ms_ = per[s["id"]]
            if not tq:
                c.errors.append(f"scenario {s['id']}: the quit step was never reached: {o['main']}")
                continue
            dur = o["t_main"] - tq[0]
            bound = max(int(m["bound"]) for m in ms_) - s["tq"]
            model_ok = all(m["ended"] == "T" and m["leaders"] == "0" for m in ms_)
            if not model_ok:
                c.disagreements.append({"case": brief, "model": ms_, "what": "model evaluation contradicts C08_quit_always_terminates"})
            starts = {l["pid"] for l in o["child_log"] if l["ev"] == "start"}
            grand = {l["pid"]: l["pgid"] for l in o["child_log"] if l["ev"] == "grandchild"}
            ended_self = {l["pid"] for l in o["child_log"] if l["ev"] == "end"}
            alive = set(o["alive_after"])
            ok = True
            if o["main"] == "timeout":
                ok = False
                c.failing.append({"case": brief, "impl": o["main"], "clause": "C08_quit_always_terminates: main did not finish after the quit"})
            elif dur > bound + MARGIN:
                ok = False
                c.failing.append({"case": brief, "impl": {"quit_to_main_ms": dur}, "expected": {"bound_ms": bound, "margin": MARGIN},
                                  "clause": "C08_quit_always_terminates: main finished later than the grace periods in effect"})
            if alive & starts:
                ok = False
                c.failing.append({"case": brief, "impl": {"alive": sorted(alive & starts)}, "clause": "C08_no_leader_survives: a process started by a job survived the shutdown"})
            gs = alive & set(grand)
            want_group = any(m["group"] == "1" for m in ms_) and s["manner"] == "graceful"
            if s["manner"] == "graceful":
                if gs:
                    # identify the known class precisely: the member's leader exited by itself (was not killed)
                    # (or was ended by the unhandled SIGUSR1 that a "queued-controls" job sends to its command in the quitting action,
                    #  before the stop signal's grace period has run out -- the simulated child cannot log its own death then)
                    usr1 = any(jb["forker"] and jb["state"] == "queued-controls" for jb in s["jobs"])
                    known = all(grand[p] in ended_self or (usr1 and grand[p] not in alive) for p in gs)
                    c.failing.append({"case": brief, "impl": {"alive_group_members": sorted(gs)},
                                      "clause": "C08: a member of the command's process group survived the graceful quit",
                                      "klass": "group-straggler" if known else None})
                # with a zero grace period the leader's exit on the stop signal and the kill of the group at expiry fall on the same instant
                # (a tie in the model's virtual time; in real time the kill usually wins): either outcome is accepted
                tie = s["qgrace"] == 0 and any(jb["forker"] for jb in s["jobs"])
                if bool(gs) != want_group and not any(m["group"] == "?" for m in ms_) and not s["same_action"] and not tie:   # (a child signalled at birth has not forked yet)
                    ok = False
                    c.disagreements.append({"case": brief, "impl": {"alive_group_members": sorted(gs)}, "model": ms_, "what": "group survivors"})
            if ok:
                c.validated += 1
            if starts:
                c.nontrivial.add(json.dumps([s["manner"], s["qgrace"], s["same_action"], [(j["kind"], j["grouped"], j["forker"], j["state"]) for j in s["jobs"]]]))
            if len(c.samples) < 3 and starts and s["manner"] == "graceful":
                c.samples.append({"case": brief, "impl": {"quit_to_main_ms": dur, "alive": sorted(alive)}, "model": ms_})
        return c


PROP = C08()
