"""C09 -- job lifecycle follows the documented state machine."""
from vlib import *
from props.jobcommon import *
from props.c04 import C04

SIMPLE = ("start", "stop", "restart", "try_restart", "signal", "to_wait", "run", "set_hook", "unset_hook", "delete")


def reference(case):
    """Sequential reference interpreter of the documented API for settled histories of simple controls with a
    long-running child that only dies when killed.  Returns (event list without times, ticket-resolved flags)."""
    cur, prev, hook, spawned, evs, res, over = "P", "-", None, 0, [], [], False
    fails = set(case["script"].get("spawn_fail", []))
    attempts = 0

    def spawn():
        nonlocal cur, prev, spawned, attempts
        prev = cur if cur != "R" else "F:Continued"
        cur = "P"
        if hook is not None:
            evs.append(f"hook({hook},{cur},{prev})")
        a = attempts
        attempts += 1
        if a in fails:
            evs.append(f"spawnfail({a})")
            evs.append("err")
        else:
            evs.append(f"spawn({spawned})")
            spawned += 1
            cur = "R"

    waiting, ended_at = [], {}

    def kill():
        nonlocal cur
        for w in waiting:
            ended_at[w] = case["ops"][len(res)]["at"]       # the run a pending to_wait waits for ends during this op
        waiting.clear()
        evs.append(f"kill({spawned - 1})")
        evs.append(f"reap({spawned - 1},9)")
        cur = "F:ExitSignal(ForceStop)"
    for op in case["ops"]:
        n = op["op"]
        if over:
            res.append(True)
            continue
        if n == "start":
            if cur != "R":
                spawn()
        elif n == "stop":
            if cur == "R":
                kill()
        elif n == "restart":
            if cur == "R":
                kill()
            spawn()
        elif n == "try_restart":
            if cur == "R":
                kill()
                spawn()
        elif n == "signal":
            if cur == "R":
                evs.append(f"signal({spawned - 1},{signum(op['sig'])})")
                if signum(op["sig"]) == 9:
                    # SIGKILL cannot be ignored: the process ends and is reaped by the task's wait branch
                    for w in waiting:
                        ended_at[w] = op["at"]
                    waiting.clear()
                    evs.append(f"reap({spawned - 1},9)")
                    cur = "F:ExitSignal(ForceStop)"
        elif n == "run":
            evs.append(f"mark({op['mark']},{cur},{prev})")
        elif n == "set_hook":
            hook = op["mark"]
        elif n == "unset_hook":
            hook = None
        elif n == "delete":
            if cur == "R":
                kill()
            over = True
        if n == "to_wait" and cur == "R":
            waiting.append(len(res))
        res.append(not (n == "to_wait" and cur == "R"))
    case["_ended_at"] = ended_at
    return evs, res


def monitor_wait(case, o):
    """wait-for-end: a to_wait() issued while a process is running resolves at the instant THAT process is reaped (also when
    a graceful stop or restart is in progress); issued while nothing runs it resolves at once"""
    out = []
    ops = case["ops"]
    if any(op["op"] in ("raw", "run_async", "delete", "delete_now") for op in ops):
        return out
    evs = parse_log(o)
    for k, (op, ws) in enumerate(zip(ops, o["tickets"])):
        if op["op"] != "to_wait" or not op.get("yield", True):
            continue
        T = op["at"]
        if any(x["at"] == T for i, x in enumerate(ops) if i != k) or any(t == T for t, ev, a in evs):
            continue                # something else happens at that very instant: not decidable from the log
        if k > 0 and not ops[k - 1].get("yield", True):
            continue                # sent in a burst: the task may still be busy with earlier controls
        spawned = [a[0] for t, ev, a in evs if ev == "spawn" and t < T]
        reaped = {a[0]: t for t, ev, a in evs if ev == "reap"}
        running = [c for c in spawned if c not in reaped or reaped[c] > T]
        if not running:
            if ws[0] != T:
                out.append(("C09_wait_idle_immediate: to_wait() with nothing running did not resolve at once", f"op {k} at {T}: {ws}"))
        elif running[-1] in reaped and ws[0] != reaped[running[-1]]:
            out.append(("C09_wait_for_end: the ticket did not resolve when the process that was running at the call ended",
                        f"op {k} at {T}: process {running[-1]} reaped at {reaped[running[-1]]}, ticket {ws}"))
    return out


def monitor_spawn_causes(case, o):
    """every spawn is asked for: start and restart always may spawn, a try-restart only when a process was running when it was
    issued (a try-restart of an idle job does nothing, now or later)"""
    out = []
    ops = case["ops"]
    if any(op["op"] in ("raw", "run_async", "drop_handle") for op in ops) or not all(op.get("yield", True) for op in ops):
        return out
    evs = parse_log(o)
    allowed = 0
    for k, op in enumerate(ops):
        n = op["op"]
        if n in ("start", "restart", "restart_with_signal"):
            allowed += 1
        elif n in ("try_restart", "try_restart_with_signal"):
            T = op["at"]
            if any(x["at"] == T for i, x in enumerate(ops) if i != k) or any(t == T and ev in ("spawn", "reap") for t, ev, a in evs):
                return out           # not decidable from the log
            spawned = [a[0] for t, ev, a in evs if ev == "spawn" and t < T]
            reaped = {a[0]: t for t, ev, a in evs if ev == "reap"}
            if any(c not in reaped or reaped[c] > T for c in spawned):
                allowed += 1
    attempts = len([1 for t, ev, a in evs if ev in ("spawn", "spawnfail")])
    if attempts > allowed:
        out.append(("C09_try_restart_never_starts_idle / C06_restart_once: a process was spawned that no control asked for",
                    f"{attempts} spawn attempts, {allowed} controls that may spawn"))
    return out


def monitor_slow_hook(case, o):
    """an async spawn hook that takes 40 ms: the ticket of a control that ends with a spawn (start, restart, ...) resolves after that spawn"""
    out = []
    evs = parse_log(o)
    spawns = [t for t, ev, a in evs if ev == "spawn"]
    k_spawn = 0
    for k, op in enumerate(case["ops"]):
        if op["op"] in ("start", "restart", "restart_with_signal"):
            if k_spawn >= len(spawns):
                break
            tk = o["tickets"][k][0]
            if tk is None or tk < spawns[k_spawn]:
                out.append(("C09_ticket_after_effect: the ticket of a control that spawns resolved before the spawn hook had finished and the process was spawned",
                            f"{op['op']} sent at {op['at']}: ticket at {tk}, spawn at {spawns[k_spawn]}"))
            k_spawn += 1
    return out


def monitor(case, o):
    if case.get("monitor_only") == "slow-hook":
        return monitor_slow_hook(case, o)
    out = monitor_wait(case, o) + monitor_spawn_causes(case, o)
    ops = case["ops"]
    child = case["script"]["children"]
    settled = all(op.get("yield", True) for op in ops) and all(op["op"] in SIMPLE for op in ops) \
        and all(c.get("ignore_all") and c.get("self_exit") is None for c in child) and not case["script"].get("kill_fail") \
        and not case["script"].get("signal_fail")
    if settled:
        want, res = reference(case)
        got = []
        for line in o["log"]:
            ev = line.split(":", 1)[1]
            if ev.startswith("drop("):
                continue
            got.append("err" if ev.startswith("err(") else ev)
        if got != want:
            out.append(("C09_refines: events differ from the documented sequential semantics", {"expected": want, "got": got}))
        for k, (op, ws, r) in enumerate(zip(ops, o["tickets"], res)):
            if r and (ws[0] is None or ws[0] != op["at"]):
                out.append(("C09: ticket of a completed control not resolved at the time it ran", f"op {k} {op['op']} at {op['at']}: {ws}"))
            if not r and ws[0] is not None and ws[0] == op["at"] and not o["dead"] and not any(x["at"] == op["at"] for x in ops[k + 1:]):
                out.append(("C09_wait_for_end: resolved although a process is running", f"op {k}"))
            if not r and k in case.get("_ended_at", {}) and ws[0] != case["_ended_at"][k]:
                out.append(("C09_wait_for_end: the run ended but the wait-for-end ticket did not resolve at that instant",
                            f"op {k} to_wait at {op['at']}, run ended at {case['_ended_at'][k]}, ticket {ws}"))
    return out


class C09(C04):
    pid = "C09"

    def correspond(self, tier, seed, deep=False):
        r = rng(seed, "c09x")
        extra = []
        for i in range(150 if tier == "quick" else 2000):
            n = r.randint(1, 10)
            ops, t, mark = [], 0, 1
            for k in range(n):
                t += r.choice([0, 5, 10, 50])
                name = r.choice(SIMPLE[:-1] if k < n - 1 else SIMPLE)
                op = {"at": t, "op": name, "yield": True}
                if name == "signal":
                    op["sig"] = r.choice(["Terminate", "Hangup", "User1", 40])
                if name in ("run", "set_hook"):
                    op["mark"] = mark
                    mark += 1
                ops.append(op)
            extra.append({"id": 0, "script": {"children": [{"self_exit": None, "ignore_all": True}],
                                              "spawn_fail": sorted({r.randint(0, 4)}) if r.random() < 0.3 else [], "signal_fail": [], "kill_fail": []},
                          "ops": ops, "waiters": 1, "tail": 1000})
        # a respawn that fails (at grace expiry, at the process end within the grace period, at a plain restart), then a start that succeeds
        # and a process that ends by itself or is stopped: nothing is spawned that no control asked for
        ign = {"self_exit": None, "ignore_all": True}
        for first in ("try_restart_with_signal", "restart_with_signal", "try_restart", "restart"):
            for c0 in (ign, {"self_exit": None, "react": [[15, 20]], "default": None}):
                for later in ({"self_exit": 40, "ignore_all": True}, ign):
                    for fail in ([1], [1, 2]):
                        op1 = {"at": 20, "op": first, "yield": True}
                        if "with_signal" in first:
                            op1.update(sig="Terminate", grace=50)
                        ops = [{"at": 0, "op": "start", "yield": True}, op1, {"at": 150, "op": "start", "yield": True},
                               {"at": 170, "op": "start", "yield": True}, {"at": 300, "op": "stop", "yield": True}, {"at": 400, "op": "run", "mark": 1, "yield": True}]
                        extra.append({"id": 0, "script": {"children": [dict(c0), dict(later), dict(later), dict(later)], "spawn_fail": fail, "signal_fail": [], "kill_fail": []},
                                      "ops": ops, "waiters": 1, "tail": 1000})
        # an async spawn hook that awaits: the two-control calls (restart = stop + start) resolve when the last of their controls has run
        for seq in (["restart"], ["restart_with_signal"], ["restart", "restart"], ["stop", "start", "restart"]):
            for c0 in (ign, {"self_exit": None, "react": [[15, 5]], "default": None}):
                ops = [{"at": 0, "op": "start", "yield": True}]
                for k, nm in enumerate(seq):
                    op = {"at": 100 + 150 * k, "op": nm, "yield": True}
                    if "with_signal" in nm:
                        op.update(sig="Terminate", grace=20)
                    ops.append(op)
                extra.append({"id": 0, "monitor_only": "slow-hook", "hook_delay": 40, "script": {"children": [dict(c0)], "spawn_fail": [], "signal_fail": [], "kill_fail": []},
                              "ops": ops, "waiters": 1, "tail": 1000})
        return job_check(self, "thorough" if deep else tier, seed, monitor, extra)


PROP = C09()
