"""C19 -- signal names and exit statuses convert consistently."""
import itertools, json, os, re
from vlib import *
import translate

NIX = ["HUP", "INT", "QUIT", "ILL", "TRAP", "ABRT", "BUS", "FPE", "KILL", "USR1", "SEGV", "USR2", "PIPE", "ALRM",
       "TERM", "STKFLT", "CHLD", "CONT", "STOP", "TSTP", "TTIN", "TTOU", "URG", "XCPU", "XFSZ", "VTALRM", "PROF",
       "WINCH", "IO", "PWR", "SYS"]


def ascii_upper(s):
    return "".join(chr(ord(c) - 32) if "a" <= c <= "z" else c for c in s)


def case_variants(s, r, limit):
    letters = [i for i, c in enumerate(s) if c.isalpha() and c.isascii()]
    if len(letters) <= limit:
        for mask in range(1 << len(letters)):
            t = list(s.upper())
            for j, i in enumerate(letters):
                if mask >> j & 1:
                    t[i] = t[i].lower()
            yield "".join(t)
    else:
        yield s.upper()
        yield s.lower()
        for _ in range(6):
            yield "".join(c.lower() if r.random() < 0.5 else c.upper() for c in s)


# the Windows control names as the rustdoc of Signal::from_windows_str lists them (used when the table cannot be translated)
DOC_WINDOWS = {"CTRL-CLOSE": "Hangup", "CTRL+CLOSE": "Hangup", "CLOSE": "Hangup", "CTRL-BREAK": "Terminate", "CTRL+BREAK": "Terminate",
               "BREAK": "Terminate", "CTRL-C": "Interrupt", "CTRL+C": "Interrupt", "C": "Interrupt", "STOP": "ForceStop",
               "FORCE-STOP": "ForceStop", "KILL": "ForceStop", "SIGKILL": "ForceStop"}


class C19(Prop):
    pid = "C19"
    generators = ["signals"]
    coq_targets = ["Run/EvalC19.vo"]
    bins = ["h_codec"]
    trusted = [
        "modelled, not verified: nix 0.29 Signal table on Linux (31 names/numbers, hand-written, compared exhaustively "
        "with the crate on every run), i32::from_str, str::to_ascii_uppercase, std ExitStatusExt wait-status decoding on Linux",
        "--map-signal parser: model of str::split_once(':'); the clap glue is exercised by C05/C12's CLI harness only",
    ]

    def strings(self, r, tier):
        t = translate.TABLES.get("signals")
        win = [w for w, _ in t["windows"]] if t else sorted(DOC_WINDOWS)
        lim = 4 if tier == "quick" else 7
        out = []
        for i, nm in enumerate(NIX):
            for base in (nm, "SIG" + nm):
                out += list(case_variants(base, r, lim))
            out.append(str(i + 1))
        for w in win:
            out += list(case_variants(w, r, lim))
        out += ["", "+", "-", "+9", "-9", "009", "+015", " 9", "9 ", "SIGSIGHUP", "SIG", "sig", "SIG9", "sig15",
                "2147483647", "2147483648", "-2147483648", "99999999999999999999", "1e1", "0x9", "٩", "ｓighup",
                "ſighup", "hu̇p", "ctrl-c", "CTRL+c", "ctrl_c", "Force-Stop", "force stop", "kıll", "0", "32",
                "64", "SIGRTMIN", "rtmin", "SIGIOT", "iot", "poll", "SIGPOLL", "cld", "INFO", "EMT", "UNUSED", "sys", "32767",
                "hup:", ":", "a:b", "\x00", "9\n", "\tTERM"]
        n = 60 if tier == "quick" else 600
        alphabet = "sigSIGhupHUPkKiIlL0123456789+- :cC-"
        for _ in range(n):
            out.append("".join(r.choice(alphabet) for _ in range(r.randint(1, 7))))
        seen, res = set(), []
        for s in out:
            if s not in seen and "\x00" not in s:
                seen.add(s)
                res.append(s)
        return res, win

    def correspond(self, tier, seed, deep=False):
        c = Corr()
        c.rule = ("every nix signal name in short and SIG-prefixed spelling in all letter-case patterns (names up to "
                  "4 letters in quick, 7 in thorough; random patterns beyond), every number -3..140 and the i32 extremes, "
                  "the Windows control names in all cases, a malformed/boundary list and random short strings over a "
                  "signal-ish alphabet; exit statuses: all codes 0-255, all signals 1-127 with and without core bit, stop/"
                  "continue statuses. non-trivial = distinct inputs whose parse is Ok, or a table/wait-status row")
        r = rng(seed, "c19")
        strings, win = self.strings(r, tier)
        d = scratch("c19")
        write_jsonl(os.path.join(d, "strs.jsonl"), [{"s": s} for s in strings])
        rc, obs, out = run_harness("h_codec", ["signals", os.path.join(d, "strs.jsonl")])
        if rc != 0 or len(obs) != len(strings):
            c.errors.append(f"h_codec signals failed rc={rc}: {out[-600:]}")
            return c
        rc, tab, out = run_harness("h_codec", ["signals-table"])
        if rc != 0 or len(tab) < 100:
            c.errors.append(f"h_codec signals-table failed: {out[-600:]}")
            return c
        ws = [cc << 8 for cc in range(256)] + [s + core for s in range(1, 128) for core in (0, 128)] + \
             [0x7f | (s << 8) for s in (1, 19, 20)] + [0xffff, 0x0100 | 0x80]
        write_jsonl(os.path.join(d, "ws.jsonl"), [{"w": w} for w in ws])
        rc, es, out = run_harness("h_codec", ["exitstatus", os.path.join(d, "ws.jsonl")])
        if rc != 0 or len(es) != len(ws):
            c.errors.append(f"h_codec exitstatus failed: {out[-600:]}")
            return c
        # model
        terms = [f"eval_parse {coq_term_string(s)}" for s in strings]
        rows = [t for t in tab if "n" in t]
        terms += [f"eval_num ({t['n']})%Z" for t in rows]
        terms += ["eval_first"]
        terms += [f"eval_wait {w}%N" for w in ws]
        res, err = coq_eval("c19", ["Run.EvalC19"], terms)
        if err:
            c.errors.append("model evaluation failed: " + err[-800:])
            return c
        impl = [o["parse"] for o in obs] + [t["obs"] for t in rows] + [tab[-1]["first"]] + [e["obs"] for e in es]
        labels = [{"parse": s} for s in strings] + [{"number": t["n"]} for t in rows] + [{"first_class": True}] + \
                 [{"wait_status": w} for w in ws]
        for lab, i, m in zip(labels, impl, res):
            c.evaluations += 1
            kind = next(iter(lab))
            c.count(kind)
            if i == m:
                c.validated += 1
            else:
                c.disagreements.append({"case": lab, "impl": i, "model": m})
            if kind != "parse" or i.startswith("Ok"):
                c.nontrivial.add(json.dumps(lab))
        c.samples = [{"case": labels[k], "impl": impl[k], "model": res[k]} for k in (3, len(strings) + 12, len(strings) + len(rows) + 1 + 300)]
        c.extra["numbers_exhaustive"] = "-3..140 + extremes"
        c.extra["exit_status_exhaustive"] = "codes 0-255; signals 1-127 x core bit"
        # ---- monitors on the implementation's observations
        parse = {s: o["parse"] for s, o in zip(strings, obs)}
        groups = {}
        for s in strings:
            groups.setdefault(ascii_upper(s), []).append(s)
        for u, g in groups.items():
            vals = {parse[s] for s in g}
            if len(vals) > 1:
                c.failing.append({"case": {"strings": g[:8]}, "impl": sorted(vals),
                                  "clause": "C19_case_insensitive: same letters, different case, different result"})
        for i, nm in enumerate(NIX):
            a, b, n = parse.get(nm), parse.get("SIG" + nm), parse.get(str(i + 1))
            want = f"n=+{i + 1}"
            if not (b and b.startswith("Ok") and b.endswith(want)) or b != n or (nm not in win and a != b):
                c.failing.append({"case": {"name": nm, "number": i + 1}, "impl": {"short": a, "sig": b, "num": n},
                                  "clause": "C19_spellings_agree"})
        wtab = dict((translate.TABLES.get("signals") or {}).get("windows") or []) or DOC_WINDOWS
        for w in sorted(set(win) | set(wtab)):
            if w not in parse:
                continue
            got = parse[w]
            want_sig = wtab.get(w)
            if not got.startswith("Ok") or (want_sig and not got.startswith("Ok:" + want_sig + " ")):
                c.failing.append({"case": {"windows_name": w}, "impl": got, "expected": want_sig,
                                  "clause": "C19_windows_precedence: a Windows control name did not parse to its Windows meaning"})
        for t in rows:
            m = re.match(r"try=(\S+) from=(.*) custom=(\S+) d=(\S+) n=(\S+) reparse=(.*)$", t["obs"])
            if not m:
                continue
            n_custom, rep = m.group(5), m.group(6)
            if n_custom != "-" and not rep.endswith("n=" + n_custom):
                c.failing.append({"case": {"signal": f"Custom({t['n']})"}, "impl": t["obs"], "clause": "C19_display_parse"})
            mf = re.match(r"(\S+) d=(\S+) n=(\S+)$", m.group(2))
            if m.group(1) != "-" and (not mf or mf.group(3) != f"+{t['n']}"):
                c.failing.append({"case": {"number": t["n"]}, "impl": t["obs"], "clause": "C19_from_i32_same_os_signal"})
        for f in tab[-1]["first"].strip("[]").split(","):
            m = re.match(r"(\S+) d=(\S+) n=(\S+) serde=\S+ reparse=Ok:(\S+) d=\S+ n=(\S+)$", f)
            if not m or m.group(3) != m.group(5) or m.group(3) == "-":
                c.failing.append({"case": {"signal": f.split(" ")[0]}, "impl": f, "clause": "C19_display_parse"})
        posix = {"Hangup": 1, "Interrupt": 2, "Quit": 3, "ForceStop": 9, "User1": 10, "User2": 12, "Terminate": 15}
        for f in tab[-1]["first"].strip("[]").split(","):
            nm = f.split(" ")[0]
            if nm in posix and f" n=+{posix[nm]} " not in f:
                c.failing.append({"case": {"signal": nm}, "impl": f, "clause": "C19_posix_numbers"})
        for w, e in zip(ws, es):
            o = e["obs"].split(" ")[0]
            if w & 0x7f == 0 and w < 65536:
                code = w >> 8
                want = "Success" if code == 0 else f"ExitError({code})"
                if o != want:
                    c.failing.append({"case": {"wait_status": w, "exit_code": code}, "impl": e["obs"], "clause": "C19_exit_codes"})
            elif 1 <= (w & 0x7f) < 127 and w < 256:
                sg = w & 0x7f
                num = [t for t in rows if t["n"] == sg][0]["obs"]
                frm = re.match(r"try=\S+ from=(\S+) ", num).group(1)
                if o != f"ExitSignal({frm})":
                    c.failing.append({"case": {"wait_status": w, "signal": sg}, "impl": e["obs"], "clause": "C19_exit_signals"})
        return c


PROP = C19()
