"""C14 -- ignore-file discovery finds exactly the applicable files and prunes ignored dirs."""
import json, os
from vlib import *
from props.c03 import cs, opt

DIRS = ["t", "te", "test", "tests", "test2", "src", "a", "target", "node_modules"]
PATS = ["test/", "tests", "/src", "t*", "**/a", "!test", "!tests/", "target/", "*.log", "foo", "/t", "a/", "src/**", "te?t",
        "node_modules", "!node_modules", "# c", "", "*", "!*/", "/test2/", "**/target", ".git", "!.git"]
IGN = [".gitignore", ".ignore", ".hgignore"]


class C14(Prop):
    pid = "C14"
    generators = ["origins"]
    coq_targets = ["Run/EvalC14.vo"]
    bins = ["h_ignore"]
    trusted = [
        "completeness, termination, exactness and independence from the listing order are proved for listings with absolute, distinct paths "
        "whose origin is a directory; the model is additionally run under two listing orders against the real crate (which sees the kernel's order)",
        "modelled, not verified: tokio read_dir/metadata (flat listing), gix_config parsing of .git/config (core.excludesFile is an input), "
        "IgnoreFilter model of C03",
    ]

    def gen(self, r, n):
        cases = []
        for i in range(n):
            origin = r.choice(["", "", "p"])
            pre = (origin + "/") if origin else ""
            entries, dirs = [], [origin] if origin else [""]
            if origin:
                entries.append({"path": origin, "kind": "dir"})
            # directories
            for _ in range(r.randint(1, 9)):
                parent = r.choice(dirs)
                if parent.count("/") - origin.count("/") >= 4:
                    continue
                name = r.choice(DIRS)
                p = (parent + "/" + name).strip("/")
                if p not in dirs:
                    dirs.append(p)
                    entries.append({"path": p, "kind": "dir"})
            # VCS metadata dirs, at the origin and nested
            for _ in range(r.choice([0, 1, 1, 2])):
                parent = r.choice(dirs[:1] * 3 + dirs)
                p = (parent + "/" + r.choice([".git", ".hg", ".svn"])).strip("/")
                if p not in dirs:
                    dirs.append(p)
                    entries.append({"path": p, "kind": "dir"})
            # ignore files
            for dd in dirs:
                for name in IGN:
                    c = r.random()
                    if c < 0.22:
                        entries.append({"path": (dd + "/" + name).strip("/"), "kind": "file",
                                        "lines": [r.choice(PATS) for _ in range(r.randint(1, 3))]})
                    elif c < 0.27:
                        entries.append({"path": (dd + "/" + name).strip("/"), "kind": "empty"})
                    elif c < 0.29:
                        entries.append({"path": (dd + "/" + name).strip("/"), "kind": "dir"})
            # other files, symlinks
            for _ in range(r.randint(0, 3)):
                entries.append({"path": (r.choice(dirs) + "/" + r.choice(["x.log", "foo", "README"])).strip("/"), "kind": "file"})
            if r.random() < 0.2:
                entries.append({"path": (r.choice(dirs) + "/link").strip("/"), "kind": "symlink", "target": "."})
            # origin-level VCS files
            for name in [".bzrignore", "_darcs/prefs/boring", ".fossil-settings/ignore-glob", ".git/info/exclude"]:
                if r.random() < 0.15:
                    for anc in [pre + "/".join(name.split("/")[:k]) for k in range(1, name.count("/") + 1)]:
                        if anc not in dirs:
                            dirs.append(anc)
                            entries.append({"path": anc, "kind": "dir"})
                    entries.append({"path": pre + name, "kind": "file", "lines": [r.choice(PATS) for _ in range(2)]})
            excludes = None
            if r.random() < 0.12:
                if pre + ".git" not in dirs:
                    dirs.append(pre + ".git")
                    entries.append({"path": pre + ".git", "kind": "dir"})
                entries.append({"path": "global_excl", "kind": "file", "lines": [r.choice(PATS)]})
                entries.append({"path": pre + ".git/config", "kind": "file", "lines": ["[core]", "\texcludesFile = @ROOT@/global_excl"]})
                excludes = "global_excl"
            seen, uniq = set(), []
            for e in entries:
                if e["path"] not in seen and e["path"] != "":
                    seen.add(e["path"])
                    uniq.append(e)
            r.shuffle(uniq)
            uniq.sort(key=lambda e: e["path"].count("/"))       # parents before children, siblings shuffled
            real_dirs = [d for d in dirs if d]
            watches = []
            if r.random() < 0.3 and real_dirs:
                watches = [r.choice(real_dirs + [origin]) for _ in range(r.randint(1, 2))]
                watches = [w for w in watches if w] or []
            explicit = []
            if r.random() < 0.2:
                uniq.append({"path": "extra.ign", "kind": "file", "lines": [r.choice(PATS) for _ in range(2)]})
                explicit = ["extra.ign"]
            # an explicit ignore file that is also one the walk finds by itself (the project's own .gitignore passed with --ignore-file)
            own = [e["path"] for e in uniq if e["kind"] == "file" and e["path"].split("/")[-1] in IGN and (e["path"] + "/").startswith(pre)]
            if r.random() < 0.15 and own:
                explicit = explicit + [r.choice(own)]
            cases.append({"id": i, "origin": origin, "entries": uniq, "watches": watches, "explicit": explicit, "excludes": excludes})
        return cases

    def correspond(self, tier, seed, deep=False):
        c = Corr()
        c.rule = ("generated trees (depth <= 4, prefix-related sibling names), ignore files (.gitignore/.ignore/.hgignore; non-empty, empty, "
                  "or a directory of that name) whose patterns ignore directories / files / nothing, with negations; VCS metadata directories at "
                  "the origin and nested; origin-level VCS files; core.excludesFile; symlinks; explicit watch lists and explicit ignore files; "
                  "materialised on disk with shuffled creation order. The model is run under the generated listing order and its reverse. "
                  "non-trivial = distinct cases where at least one directory is pruned or one ignore file is found below the origin")
        r = rng(seed, "c14")
        cases = self.gen(r, 200 if tier == "quick" else 3000)
        # regression corpus (runs first): trees that once exposed a defect
        cp = os.path.join(VERIF, "corpus", "discover")
        corpus = []
        for fn in sorted(os.listdir(cp)) if os.path.isdir(cp) else []:
            corpus += [json.loads(l) for l in open(os.path.join(cp, fn)) if l.strip()]
        for k, cc in enumerate(corpus):
            cc["id"] = 900000 + k
        cases = corpus + cases
        d = scratch("c14")
        write_jsonl(os.path.join(d, "cases.jsonl"), cases)
        rc, obs, out = run_harness("h_ignore", ["discover", os.path.join(d, "cases.jsonl"), os.path.join(d, "fs")], timeout=1200)
        if rc != 0 or len(obs) != len(cases):
            c.errors.append(f"h_ignore discover failed rc={rc}: {out[-800:]}")
            return c
        terms = []
        kinds = {"dir": 0, "file": 1, "empty": 2, "symlink": 3}
        for case, o in zip(cases, obs):
            root = o["root"]
            absf = lambda rel: root if rel == "" else root + "/" + rel
            fs = [(root, 0)] + [(absf(e["path"]), kinds[e["kind"]]) for e in case["entries"]]
            contents = [(absf(e["path"]), e["lines"]) for e in case["entries"] if e["kind"] == "file" and "lines" in e]
            fst = coq_list([f"({cs(p)}, {k}%N)" for p, k in fs])
            cont = coq_list([f"({cs(p)}, {coq_list([cs(l) for l in ls])})" for p, ls in contents])
            args = (f"{fst} {cont} {cs(absf(case['origin']))} {coq_list([cs(absf(w)) for w in case['watches']])} "
                    f"{coq_list([cs(absf(w)) for w in case['explicit']])} {opt(absf(case['excludes']) if case['excludes'] else None)}")
            terms.append(f"eval_discover false {args}")
            terms.append(f"eval_discover true {args}")
            # the implementation's own result, for the closure check
            lines_of = {e["path"]: e.get("lines") or [] for e in case["entries"]}
            resl = []
            for x in o["ordered"]:
                pth, ain, _to = x.split("|")
                resl.append(f"({cs(absf(pth))}, {opt(absf(ain)) if ain != '-' else 'None'}, {coq_list([cs(l) for l in lines_of.get(pth, [])])})")
            terms.append(f"eval_closed {fst} {cs(absf(case['origin']))} {coq_list([cs(absf(w)) for w in case['watches']])} {coq_list(resl)}")
        res, err = coq_eval("c14", ["Glob.Glob", "Glob.Gitignore", "Ignore.IgnoreFilter", "Gen.Origins_gen", "Discover.Discover", "Run.EvalC14"], terms)
        if err:
            c.errors.append("model evaluation failed: " + err[-800:])
            return c
        for k, (case, o) in enumerate(zip(cases, obs)):
            c.evaluations += 1
            root = o["root"]

            def relz(s):
                items = s.strip("[]").split(",") if s != "[]" else []
                outl = []
                for it in items:
                    parts = it.split("|")
                    parts[0] = parts[0][len(root) + 1:] if parts[0].startswith(root + "/") else parts[0]
                    parts[1] = "" if parts[1] == root else (parts[1][len(root) + 1:] if parts[1].startswith(root + "/") else parts[1])
                    outl.append("|".join(parts))
                return sorted(outl)
            m1, m2 = relz(res[3 * k]), relz(res[3 * k + 1])
            closed = [x for x in res[3 * k + 2].strip('[]').split(',') if x]
            impl = sorted(o["files"])
            c.count(f"found={min(len(impl), 6)}")
            ign_dirs = {e["path"].rsplit("/", 1)[0] if "/" in e["path"] else "" for e in case["entries"]
                        if e["kind"] == "file" and e["path"].split("/")[-1] in IGN}
            found_dirs = {x.split("|")[1] for x in impl}
            if (ign_dirs - found_dirs) or any(x.split("|")[1] not in ("-", case["origin"]) for x in impl):
                c.nontrivial.add(json.dumps(case, sort_keys=True))
            if impl == m1 and impl == m2:
                c.validated += 1
            else:
                c.disagreements.append({"case": case, "impl": impl, "model": m1, "model_reversed_listing": m2,
                                        "what": "discovery result (as a set)" if m1 == m2 else "model depends on listing order"})
            if m1 != m2:
                c.failing.append({"case": case, "impl": impl, "expected": [m1, m2],
                                  "clause": "C14_order_independent: result depends on directory listing order"})
            # the result is closed under the filter it makes: nothing missing from a directory the returned files do not ignore,
            # nothing from a directory they do (evaluated in Coq by Run/EvalC14.v eval_closed on the implementation's list)
            for x in closed:
                kind, pth = x.split(":", 1)
                pth = pth[len(root) + 1:] if pth.startswith(root + "/") else pth
                c.failing.append({"case": case, "impl": impl, "detail": pth,
                                  "clause": ("C14_complete: a non-empty ignore file in a directory that is reachable without entering an ignored or VCS "
                                             "metadata directory was not returned (tagged with its directory)") if kind == "missing" else
                                            "C14_nothing_from_pruned: a returned file lies in a directory that the returned ignore files above it ignore, "
                                            "a VCS metadata directory, or a directory unrelated to the watch list"})
            # monitors on the implementation's result
            ents = {e["path"]: e for e in case["entries"]}
            for x in impl:
                p, ain, to = x.split("|")
                e = ents.get(p)
                if not e or e["kind"] != "file":
                    c.failing.append({"case": case, "impl": x, "clause": "C14: returned something that is not a non-empty regular file"})
                name = p.split("/")[-1]
                if p in case["explicit"] and ain == case["origin"] and to == "-":
                    continue        # the explicit entry (applies in the origin by definition), not the walk's
                if name in IGN and ain != "-":
                    want_dir = p.rsplit("/", 1)[0] if "/" in p else ""
                    if ain != want_dir:
                        c.failing.append({"case": case, "impl": x, "clause": "C14_tags: applies_in is not the containing directory"})
                    comps = want_dir.split("/") if want_dir else []
                    oc = case["origin"].split("/") if case["origin"] else []
                    below = comps[len(oc):]
                    vcsn = (".git", ".hg", ".bzr", "_darcs", ".fossil-settings", ".svn", ".pijul")
                    negs = [l for e2 in case["entries"] for l in (e2.get("lines") or []) if l.startswith("!")]
                    if any(b in vcsn for b in below) and not any(("*" in l) or any(v in l for v in vcsn) for l in negs):
                        c.failing.append({"case": case, "impl": x, "clause": "C14_nothing_from_pruned: file from inside a VCS metadata directory"})
                    if case["watches"]:
                        dd = want_dir
                        rel = any(dd == w or dd.startswith(w + "/") or w.startswith(dd + "/") or dd == "" for w in case["watches"])
                        if not rel:
                            c.failing.append({"case": case, "impl": x, "clause": "C14_explicit_watch: file from a directory unrelated to the watch list"})
            if len(c.samples) < 3 and len(impl) >= 3:
                c.samples.append({"case": case, "impl": impl, "model": m1})
        return c


PROP = C14()
