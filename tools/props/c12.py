"""C12 -- explicit CLI filters are honoured under every mix of ignore-discovery flags."""
import json, os
from vlib import *

FLAGS = ["--no-vcs-ignore", "--no-project-ignore", "--no-global-ignore", "--no-default-ignore", "--no-discover-ignore", "--ignore-nothing"]
# probe file -> id of the single source whose pattern matches it
SRC = {"from_gitignore": 1, "from_dotignore": 2, "from_hgignore": 3, "sub/from_sub_gitignore": 4, "from_git_exclude": 5,
       "from_global_git": 6, "from_global_app": 7, "from_explicit_file": 9}
PROJ = "[(5, 1, Some PT_Git); (2, 1, None); (1, 1, Some PT_Git); (3, 1, Some PT_Mercurial); (4, 1, Some PT_Git)]%N"
SRC_NOVCS = {"from_gitignore": 1, "from_dotignore": 2, "sub/from_hgignore": 3, "sub/from_sub_gitignore": 4, "from_global_git": 6, "from_global_app": 7,
             "from_explicit_file": 9}
PROJ_NOVCS = "[(2, 1, None); (1, 1, Some PT_Git); (3, 1, Some PT_Mercurial); (4, 1, Some PT_Git)]%N"     # the same tree without .git
# the git project with core.excludesFile set in its .git/config: from_origin lists that file (global scope, Git), and the user-level git ignore is skipped
SRC_EXCL = dict(SRC, from_custom_excl=8)
PROJ_EXCL = "[(8, 0, Some PT_Git); (5, 1, Some PT_Git); (2, 1, None); (1, 1, Some PT_Git); (3, 1, Some PT_Mercurial); (4, 1, Some PT_Git)]%N"
LAYOUTS = {"git": (SRC, PROJ), "novcs": (SRC_NOVCS, PROJ_NOVCS), "gitexcl": (SRC_EXCL, PROJ_EXCL)}
GLOB = "[(6, 0, Some PT_Git); (7, 0, None)]%N"
# explicit options under test: (name, args, probes it affects with the verdict it forces when alone)
OPTIONS = [
    ("none", [], {}),
    ("ignore-file", ["--ignore-file", "extra.ign"], {}),
    # the same file by its absolute path, and a probe outside the project origin (another watched directory): explicit files apply globally
    ("ignore-file-abs", ["--ignore-file", "@PROJ@/extra.ign"], {"OUT/from_explicit_file": False}),
    ("ignore", ["--ignore", "from_cli_ignore"], {"from_cli_ignore": False}),
    # a negated --ignore pattern re-includes what a built-in default ignores (explicit patterns come after the defaults)
    ("ignore-neg", ["--ignore", "!keep.pyc"], {"keep.pyc": True}),
    ("filter", ["--filter", "*.keep"], {"a.keep": True}),
    ("filter-file", ["--filter-file", "filters.txt"], {"b.keep": True}),
    ("exts", ["--exts", "ext1"], {"c.ext1": True}),
    ("fs-events", ["--fs-events", "create"], {"plain.txt@create": True, "plain.txt@modify": False}),
]


class C12(Prop):
    pid = "C12"
    generators = ["origins", "fskinds", "clifilter", "cliflags"]
    coq_targets = ["Run/EvalC12.vo"]
    bins = ["h_cli"]
    trusted = [
        "modelled, not verified: clap parsing, ignore_files::from_origin / from_environment (their results are inputs of the "
        "model: the project and global file lists), gix_config lookup; exercised by the harness in a sandbox project with HOME and "
        "XDG_CONFIG_HOME redirected",
        "--ignore/--filter/--filter-file/--exts/--fs-events are compiled into the globset filterer independently of the six flags "
        "(read from cli/src/filterer.rs); this independence is checked by the exhaustive 64 x 7 differential run, not by a theorem",
    ]

    def correspond(self, tier, seed, deep=False):
        c = Corr()
        c.exhaustive = True
        c.rule = ("exhaustive: all 64 combinations of the six ignore-source flags x 8 explicit options (none, --ignore-file by relative and by absolute path with a probe outside the origin, --ignore, "
                  "--filter, --filter-file, --exts, --fs-events) in a sandbox project with .gitignore, .ignore, .hgignore, nested "
                  ".gitignore, .git/info/exclude, global git ignore, global app ignore, built-in-default hits, and x 2 options in the same project without any VCS metadata directory; per case the list returned "
                  "by dirs::ignores and the verdicts of WatchexecFilterer for one probe per source are compared with the model. "
                  "non-trivial = every (flags, option) pair with at least one flag or option")
        cases = []
        for bits in range(64):
            fl = [FLAGS[i] for i in range(6) if bits >> i & 1]
            for name, args, extra in OPTIONS:
                probes = list(SRC) + ["x.pyc", ".git/HEAD", "sub/.hg/dirstate", "plain.txt"] + list(extra)
                cases.append({"bits": bits, "opt": name, "args": fl + args, "probes": probes, "extra": extra, "layout": "git"})
            # a project without any VCS metadata directory that still has VCS ignore files
            for name, args, extra in OPTIONS[:2]:
                cases.append({"bits": bits, "opt": name, "args": fl + args, "probes": list(SRC_NOVCS) + ["x.pyc", "plain.txt"], "extra": extra, "layout": "novcs"})
            for name, args, extra in OPTIONS[:2]:
                cases.append({"bits": bits, "opt": name, "args": fl + args, "probes": list(SRC_EXCL) + ["x.pyc", ".git/HEAD", "plain.txt"], "extra": extra, "layout": "gitexcl"})
        d = scratch("c12")
        write_jsonl(os.path.join(d, "cases.jsonl"), cases)
        rc, obs, out = run_harness("h_cli", ["ignores", os.path.join(d, "cases.jsonl"), os.path.join(d, "fs")], timeout=900)
        if rc != 0 or len(obs) != len(cases):
            c.errors.append(f"h_cli ignores failed rc={rc}: {out[-800:]}")
            return c
        terms = []
        for case, o in zip(cases, obs):
            expl = "[9]%N" if case["opt"].startswith("ignore-file") else "[]"
            vcs = coq_list(["PT_" + v for v in o.get("vcs", [])])          # the project types the CLI detected
            terms.append(f"eval_select true {case['bits']}%N {vcs} {LAYOUTS[case['layout']][1]} {GLOB} {expl}")
        res, err = coq_eval("c12", ["Gen.Origins_gen", "Cli.IgnoreSources", "Run.EvalC12"], terms)
        if err:
            c.errors.append("model evaluation failed: " + err[-800:])
            return c
        base = {}
        for case, o, m in zip(cases, obs, res):
            c.evaluations += 1
            if "error" in o:
                c.disagreements.append({"case": case, "impl": o, "model": m, "what": "harness error"})
                continue
            sel, dflag = m.split(" D=")
            sel_list = sel.strip("[]").split(",") if sel != "[]" else []
            sel_ids = {int("".join(ch for ch in x if ch.isdigit())) for x in sel_list}
            ok = True
            if o["listed"] != ["<no-discover>"]:
                if sorted(o["listed"]) != sorted(sel_list):
                    ok = False
                    c.disagreements.append({"case": case["args"], "impl": o["listed"], "model": sel_list, "what": "dirs::ignores list"})
            # expected verdicts from the model's selection
            exp = {}
            srcs = LAYOUTS[case["layout"]][0]
            filtered = case["opt"] in ("filter", "filter-file", "exts")
            for p in case["probes"]:
                name = p.split("@")[0]
                if p in case["extra"]:
                    exp[p] = case["extra"][p]
                elif p in srcs:
                    exp[p] = (srcs[p] not in sel_ids) and not filtered
                elif name in ("x.pyc", ".git/HEAD", "sub/.hg/dirstate"):      # ignored by the built-in defaults, and by nothing else
                    exp[p] = (dflag == "F") and not filtered
                else:
                    exp[p] = not filtered
                if case["opt"] == "fs-events" and "@" not in p:
                    exp[p] = False       # probe events are modify events, only create is allowed
            if exp != o["verdicts"]:
                ok = False
                bad = {p: (o["verdicts"].get(p), exp[p]) for p in exp if o["verdicts"].get(p) != exp[p]}
                c.disagreements.append({"case": case["args"], "impl_vs_expected": bad, "model": m, "what": "verdicts"})
            c.validated += ok
            if case["bits"] or case["opt"] != "none":
                c.nontrivial.add(json.dumps([case["bits"], case["opt"]]))
            c.count("opt=" + case["opt"])
            # ---- monitors: explicit options behave the same under every flag mix
            if case["opt"].startswith("ignore-file") and o["verdicts"].get("from_explicit_file") is not False:
                c.failing.append({"case": case["args"], "impl": o["verdicts"],
                                  "clause": "C12_explicit_files_kept: --ignore-file pattern not applied under these flags"})
            for p, want in case["extra"].items():
                if o["verdicts"].get(p) != want:
                    c.failing.append({"case": case["args"], "impl": {p: o["verdicts"].get(p)}, "expected": want,
                                      "clause": f"C12_explicit_patterns_kept: --{case['opt']} has a different effect under these flags"})
            if case["opt"] == "none":
                base[(case["layout"], case["bits"])] = o["verdicts"]
            if len(c.samples) < 3 and case["bits"] in (5, 48) and case["opt"] == "ignore-file":
                c.samples.append({"case": case["args"], "impl_list": o["listed"], "model": m, "impl_verdicts": o["verdicts"]})
        # flags remove exactly the sources they name: compare with the no-flag run
        for layout in ("git", "novcs", "gitexcl"):
            if (layout, 0) not in base:
                continue
            for (lay, bits), v in base.items():
                if lay != layout:
                    continue
                n_vcs, n_proj, n_glob, n_def, n_disc, n_all = [(bits >> i) & 1 for i in range(6)]
                if n_all:
                    n_vcs = n_proj = n_glob = n_def = n_disc = 1
                for p, sid in LAYOUTS[layout][0].items():
                    if p == "from_explicit_file" or (layout == "gitexcl" and sid == 6):
                        continue        # (the user-level git ignore stands in when the project's own excludes file is not read: not decided here)
                    vcsy = sid in (1, 3, 4, 5, 6, 8)
                    proj = sid in (1, 2, 3, 4, 5)
                    removed = n_disc or (n_proj and proj) or (n_glob and not proj) or (n_vcs and vcsy) or (sid == 8 and n_proj)
                    want = True if removed else base[(layout, 0)][p]
                    if v[p] != want:
                        c.failing.append({"case": {"layout": layout, "flags": [FLAGS[i] for i in range(6) if bits >> i & 1]}, "impl": {p: v[p]}, "expected": want,
                                          "clause": "C12_flag_exact: a flag removed a source it does not name, or kept one it names"})
                for dp in ("x.pyc", ".git/HEAD", "sub/.hg/dirstate"):
                    if dp in v and v[dp] != (True if n_def else False):
                        c.failing.append({"case": {"layout": layout, "flags": [FLAGS[i] for i in range(6) if bits >> i & 1]}, "impl": {dp: v[dp]},
                                          "clause": "C12_default_ignores_exact: the built-in defaults are removed by --no-default-ignore / --ignore-nothing and by nothing else"})
        return c


PROP = C12()
