#!/usr/bin/env python3
"""Regenerates seeded/README.md from the meta.json files."""
import json, os
rows = []
for d in sorted(os.listdir('/verif/seeded')):
    p = os.path.join('/verif/seeded', d, 'meta.json')
    if os.path.exists(p):
        m = json.load(open(p))
        rows.append((d, m.get('summary', '')[:200].replace('\n', ' ').replace('|', '/'), m.get('caught_by', '').replace('|', '/'), m.get('note', '').replace('|', '/')))
out = ["# Seeded changes\n",
       "Each directory holds one property-breaking change to watchexec produced by an independent sub-agent that was given only the text of the",
       "property (round 2: plus one-line summaries of the round-1 changes, so as not to repeat them) and its own scratch worktree of /repo",
       "(nothing from /verif): `patch.diff` (apply with `git -C /repo apply`), the agent's demonstration, and `meta.json`.  Every change was",
       "confirmed by us in the scratch worktree (applies to HEAD, compiles, the 116 existing tests pass) and then run against the registered",
       "checks with `tools/seedrun.sh <id> <n> <checks...>` (apply to /repo, run, `git checkout -- .`).  None of them is committed in /repo.",
       f"`<Cxx>-1`, `-2` are round 1, `-3`, `-4` round 2 (asked to be subtler and to touch other clauses).  {len(rows)} changes; every one is",
       "reported by a registered quick check (exit 1 with a VIOLATION line).\n",
       "| change | what it does | caught by | note |", "|---|---|---|---|"]
for r in rows:
    out.append("| %s | %s | %s | %s |" % r)
out.append("\n## Missed or reported without a failing input at first, and what was strengthened\n")
for r in rows:
    if 'missed at first' in r[3] or 'after strengthening' in r[2]:
        out.append(f"* **{r[0]}** — {r[3]}")
open('/verif/seeded/README.md', 'w').write("\n".join(out) + "\n")
print(len(rows), "rows")
