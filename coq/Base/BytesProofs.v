From Coq Require Import List NArith String Ascii Bool Lia.
From WX Require Import Base.Bytes.
Import ListNotations.
Open Scope list_scope.

Lemma ascii_ltb_irrefl a : ascii_ltb a a = false.
Proof. unfold ascii_ltb. apply N.ltb_irrefl. Qed.
Lemma ascii_ltb_asym a b : ascii_ltb a b = true -> ascii_ltb b a = false.
Proof. unfold ascii_ltb. intro H. apply N.ltb_lt in H. apply N.ltb_ge. lia. Qed.

Lemma ascii_ltb_total a b : ascii_ltb a b = false -> ascii_ltb b a = false -> a = b.
Proof.
  unfold ascii_ltb. intros H1 H2. apply N.ltb_ge in H1, H2.
  assert (N_of_ascii a = N_of_ascii b) as E by lia.
  rewrite <- (ascii_N_embedding a), <- (ascii_N_embedding b), E. reflexivity.
Qed.

Lemma str_ltb_asym a b : str_ltb a b = true -> str_ltb b a = false /\ String.eqb a b = false.
Proof.
  revert b. induction a as [|x a IH]; intros [|y b] H; simpl in *; try discriminate; try (split; reflexivity).
  destruct (ascii_ltb x y) eqn:E1.
  - rewrite (ascii_ltb_asym _ _ E1). split; [reflexivity|].
    destruct (Ascii.eqb_spec x y) as [->|_]; [rewrite ascii_ltb_irrefl in E1; discriminate | reflexivity].
  - destruct (ascii_ltb y x) eqn:E2; [discriminate|].
    pose proof (ascii_ltb_total _ _ E1 E2) as ->. rewrite Ascii.eqb_refl.
    apply IH. exact H.
Qed.


Lemma str_ltb_total a b : str_ltb a b = false -> str_ltb b a = false -> a = b.
Proof.
  revert b. induction a as [|x a IH]; intros [|y b] H1 H2; simpl in *; try discriminate; [reflexivity|].
  destruct (ascii_ltb x y) eqn:E1; [discriminate|].
  destruct (ascii_ltb y x) eqn:E2; [discriminate|].
  pose proof (ascii_ltb_total _ _ E1 E2) as ->. f_equal. apply IH; assumption.
Qed.

Lemma str_ltb_irrefl a : str_ltb a a = false.
Proof. induction a as [|x a IH]; simpl; [reflexivity|]. rewrite ascii_ltb_irrefl. exact IH. Qed.

(* strictly sorted, duplicate-free insertion sort *)
Fixpoint ins_dedup (x : string) (l : list string) : list string :=
  match l with
  | [] => [x]
  | y :: r => if str_ltb x y then x :: l else if String.eqb x y then l else y :: ins_dedup x r
  end.
Definition sort_dedup (l : list string) : list string := fold_right ins_dedup [] l.

Fixpoint ssorted (l : list string) : Prop :=
  match l with
  | [] => True
  | x :: r => match r with [] => True | y :: _ => str_ltb x y = true end /\ ssorted r
  end.

Lemma ins_dedup_In x y l : In y (ins_dedup x l) <-> y = x \/ In y l.
Proof.
  induction l as [|z r IH]; simpl; [intuition|].
  destruct (str_ltb x z); [simpl; intuition|].
  destruct (String.eqb_spec x z) as [->|_]; simpl; [intuition | rewrite IH; intuition].
Qed.

Lemma sort_dedup_In y l : In y (sort_dedup l) <-> In y l.
Proof.
  induction l as [|x r IH]; simpl; [tauto|]. rewrite ins_dedup_In, IH. intuition.
Qed.

Lemma ins_dedup_sorted x l : ssorted l -> ssorted (ins_dedup x l).
Proof.
  induction l as [|z r IH]; simpl; [tauto|]. intros [Hz Hr].
  destruct (str_ltb x z) eqn:E1; [simpl; tauto|].
  destruct (String.eqb_spec x z) as [->|Hne]; [simpl; tauto|].
  assert (str_ltb z x = true) as Hzx.
  { destruct (str_ltb z x) eqn:E2; [reflexivity|]. exfalso. apply Hne. apply str_ltb_total; assumption. }
  specialize (IH Hr). simpl. split; [|exact IH].
  destruct r as [|w r']; simpl; [exact Hzx|].
  destruct (str_ltb x w); [exact Hzx|].
  destruct (String.eqb x w); [exact Hz | exact Hz].
Qed.

Lemma sort_dedup_sorted l : ssorted (sort_dedup l).
Proof. induction l as [|x r IH]; simpl; [exact I | apply ins_dedup_sorted; exact IH]. Qed.
