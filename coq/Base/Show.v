(* Rendering of model observations as canonical strings, compared with the
   canonicalised observations of the implementation by the driver. *)
From Coq Require Import List NArith ZArith String Ascii DecimalString.
Import ListNotations.
Open Scope string_scope.

Definition show_N (n : N) : string := NilZero.string_of_uint (N.to_uint n).
Definition show_nat (n : nat) : string := show_N (N.of_nat n).
Definition show_Z (z : Z) : string :=
  match z with
  | Z0 => "0"
  | Zpos p => show_N (Npos p)
  | Zneg p => "-" ++ show_N (Npos p)
  end.
Definition show_bool (b : bool) : string := if b then "T" else "F".

Fixpoint sep_by (s : string) (l : list string) : string :=
  match l with
  | [] => ""
  | [x] => x
  | x :: xs => x ++ s ++ sep_by s xs
  end.
Definition show_list {A} (f : A -> string) (l : list A) : string :=
  "[" ++ sep_by "," (map f l) ++ "]".
Definition show_option {A} (f : A -> string) (o : option A) : string :=
  match o with None => "-" | Some x => "+" ++ f x end.

(* strings built from byte lists: used by generated case files for non-printable input *)
Fixpoint sb (l : list N) : string :=
  match l with
  | [] => EmptyString
  | n :: r => String (ascii_of_N n) (sb r)
  end.

(* hex rendering of a byte string, so that observations stay on one printable line *)
Definition hexdigit (n : N) : ascii :=
  ascii_of_N (if N.ltb n 10 then 48 + n else 87 + n).
Fixpoint show_hex (s : string) : string :=
  match s with
  | EmptyString => EmptyString
  | String c r =>
      let n := N_of_ascii c in
      String (hexdigit (N.div n 16)) (String (hexdigit (N.modulo n 16)) (show_hex r))
  end.
