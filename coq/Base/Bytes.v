(* Byte strings and paths: the two views (bytes / components) used by the models. *)
From Coq Require Import List NArith String Ascii Bool.
Import ListNotations.
Open Scope string_scope.

Definition ascii_ltb (a b : ascii) : bool := N.ltb (N_of_ascii a) (N_of_ascii b).

Fixpoint str_ltb (a b : string) : bool :=
  match a, b with
  | EmptyString, EmptyString => false
  | EmptyString, String _ _ => true
  | String _ _, EmptyString => false
  | String x a', String y b' =>
      if ascii_ltb x y then true else if ascii_ltb y x then false else str_ltb a' b'
  end.
Definition str_leb (a b : string) : bool := negb (str_ltb b a).

Definition to_upper_ascii (c : ascii) : ascii :=
  let n := N_of_ascii c in
  if andb (N.leb 97 n) (N.leb n 122) then ascii_of_N (n - 32) else c.
Fixpoint to_upper (s : string) : string :=
  match s with
  | EmptyString => EmptyString
  | String c r => String (to_upper_ascii c) (to_upper r)
  end.

Fixpoint prefixb (p s : string) : bool :=
  match p with
  | EmptyString => true
  | String c p' =>
      match s with
      | EmptyString => false
      | String d s' => if Ascii.eqb c d then prefixb p' s' else false
      end
  end.

Fixpoint strip_prefix (p s : string) : option string :=
  match p with
  | EmptyString => Some s
  | String c p' =>
      match s with
      | EmptyString => None
      | String d s' => if Ascii.eqb c d then strip_prefix p' s' else None
      end
  end.

(* split on a separator byte; "a//b" gives ["a";"";"b"] *)
Fixpoint split_on_aux (sep : ascii) (s : string) (cur : string) : list string :=
  match s with
  | EmptyString => [cur]
  | String c r =>
      if Ascii.eqb c sep then cur :: split_on_aux sep r EmptyString
      else split_on_aux sep r (cur ++ String c EmptyString)
  end.
Definition split_on (sep : ascii) (s : string) : list string := split_on_aux sep s EmptyString.

Definition str_eqb := String.eqb.

Fixpoint mem_str (x : string) (l : list string) : bool :=
  match l with [] => false | y :: r => if String.eqb x y then true else mem_str x r end.

Lemma mem_str_In x l : mem_str x l = true <-> In x l.
Proof.
  induction l as [|y r IH]; simpl.
  - split; [discriminate | tauto].
  - destruct (String.eqb_spec x y) as [->|Hn].
    + split; auto.
    + rewrite IH. split; [auto | intros [H|H]; [congruence | exact H]].
Qed.

(* insertion sort of byte strings (byte-wise order), used to canonicalise set-valued observations *)
Fixpoint insert_str (x : string) (l : list string) : list string :=
  match l with
  | [] => [x]
  | y :: r => if str_ltb y x then y :: insert_str x r else x :: l
  end.
Definition sort_str (l : list string) : list string := fold_right insert_str [] l.
