(* Small list/range helpers used to lift finite vm_compute sweeps to quantified statements. *)
From Coq Require Import List NArith ZArith Lia Bool.
Import ListNotations.

Fixpoint nrange (k : nat) : list N :=
  match k with O => [] | S k' => nrange k' ++ [N.of_nat k'] end.

Lemma nrange_In n k : (n < N.of_nat k)%N -> In n (nrange k).
Proof.
  induction k as [|k IH]; intro H; [lia|].
  simpl. apply in_or_app. destruct (N.eq_dec n (N.of_nat k)) as [->|Hne].
  - right. left. reflexivity.
  - left. apply IH. lia.
Qed.

Lemma forallb_nrange (P : N -> bool) k :
  forallb P (nrange k) = true -> forall n, (n < N.of_nat k)%N -> P n = true.
Proof. intros H n Hn. rewrite forallb_forall in H. apply H. apply nrange_In. exact Hn. Qed.
