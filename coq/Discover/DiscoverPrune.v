(* C14, pruning: once a directory has been skipped (ignored by the ignore files above it, a VCS metadata directory, or
   unrelated to the explicit watches), nothing from it or from anywhere below it is returned afterwards. *)
From Coq Require Import List Arith NArith String Ascii Bool Lia.
From WX Require Import Base.Bytes Glob.Glob Glob.Gitignore Glob.PathLemmas Ignore.IgnoreFilter Ignore.IgnoreEquiv Gen.Origins_gen
     Discover.Discover Discover.DiscoverProofs.
Import ListNotations.
Open Scope string_scope.
Open Scope list_scope.

Section Prune.
  Variable gm : string -> string -> bool.
  Variable content : string -> list string.
  Variable hard : bool.
  Variable defer : bool.
  Variable orig : bool.
  Variable fs : fsys.
  Variable base : string.
  Variable watches : list string.
  Hypothesis fs_abs : forall e, In e fs -> absolute (fst e).

  (* no directory waiting on the stack lies in a skipped subtree; all of them are absolute paths *)
  Definition PInv (t : tourist) : Prop :=
    (forall p q, In p (t_skip t) -> In q (t_visit t) -> is_under p q = false) /\
    (forall q, In q (t_visit t) -> absolute q) /\ (forall p, In p (t_skip t) -> absolute p).

  Lemma child_parent dir e : In e (children fs dir) -> path_parent (fst e) = Some dir /\ absolute (fst e).
  Proof.
    unfold children. rewrite filter_In. intros [Hin H]. split; [|apply fs_abs; exact Hin].
    destruct (path_parent (fst e)) as [q|]; [|discriminate]. apply String.eqb_eq in H. subst q. reflexivity.
  Qed.

  (* a proper ancestor of a path is an ancestor of its parent *)
  Lemma under_parent p c dir : absolute p -> is_under p c = true -> p <> c -> path_parent c = Some dir -> is_under p dir = true.
  Proof.
    intros Ap U Ne Pc. destruct (proper_ancestor_parent p c U Ne (absolute_nonempty p Ap)) as (q & Q & L). rewrite Pc in Q. injection Q as <-.
    assert (prefixb dir c = true) as Pd.
    { unfold path_parent in Pc. destruct c as [|x c]; [discriminate|]. destruct (String.eqb (String x c) "/"); [discriminate|].
      destruct (before_last_slash (String x c)) as [pre|] eqn:B.
      - destruct (before_last_slash_spec _ _ B) as (last & Hs & _). destruct pre as [|y pre]; injection Pc as <-.
        + apply is_under_prefix in U. apply (absolute_prefix p _) in U; [|idtac|apply absolute_nonempty; exact Ap].
          * exact (prefixb_trans _ _ _ (prefixb_refl "/") (eq_refl : prefixb "/" "/" = true)) || idtac.
            rewrite Hs. reflexivity.
          * rewrite Hs. reflexivity.
        + apply prefixb_spec. eexists. exact Hs.
      - injection Pc as <-. reflexivity. }
    destruct (Nat.eq_dec (String.length p) (String.length dir)) as [E|NE].
    - assert (p = dir) as -> by (apply prefixb_same_len; [apply (prefix_of_prefix p dir c); [apply is_under_prefix; exact U | exact Pd | lia] | exact E]).
      apply is_under_refl.
    - apply (ancestor_of_longer_prefix p dir c U Pd); [lia | apply absolute_nonempty; exact Ap].
  Qed.

  Lemma do_skip_pinv t p : PInv t -> absolute p -> PInv (do_skip t p).
  Proof.
    intros (A & B & C) Ap. unfold do_skip, PInv. cbn [t_skip t_visit]. split; [|split].
    - intros p' q [<-|Hp] Hq; apply filter_In in Hq; destruct Hq as [Hq Hn]; [apply negb_true_iff in Hn; exact Hn | apply A; assumption].
    - intros q Hq. apply filter_In in Hq. apply B. apply Hq.
    - intros p' [<-|Hp]; [exact Ap | apply C; exact Hp].
  Qed.

  Lemma enum_children_pinv dir t :
    PInv t -> (forall p, In p (t_skip t) -> is_under p dir = false) ->
    PInv (enum_children gm hard defer fs base dir t) /\ (forall p, In p (t_skip t) -> In p (t_skip (enum_children gm hard defer fs base dir t))) /\
    (forall p, In p (t_skip (enum_children gm hard defer fs base dir t)) -> is_under p dir = false \/ exists e, In e (children fs dir) /\ p = fst e).
  Proof.
    unfold enum_children. intros I D.
    assert (forall l t0, (forall e, In e l -> In e (children fs dir)) -> PInv t0 ->
              (forall p, In p (t_skip t0) -> is_under p dir = false \/ exists e, In e (children fs dir) /\ p = fst e) ->
              let t' := fold_left (fun t e =>
                 let c := fst e in
                 if must_skip base (t_skip t) c then t else
                 match snd e with
                 | KDir => if (hard && vcs_dir c) || (negb defer && negb (check_dir gm true (t_filter t) c)) then do_skip t c
                           else mkT (t_visit t ++ [c]) (t_skip t) (t_filter t) (t_files t)
                 | _ => t
                 end) l t0 in
              PInv t' /\ (forall p, In p (t_skip t0) -> In p (t_skip t')) /\
              (forall p, In p (t_skip t') -> is_under p dir = false \/ exists e, In e (children fs dir) /\ p = fst e)) as G.
    { induction l as [|e r IH]; intros t0 Sub I0 D0; cbn [fold_left]; [cbv zeta; split; [exact I0|]; split; [intros p H; exact H | exact D0]|].
      destruct (child_parent dir e (Sub e (or_introl eq_refl))) as [Pe Ae].
      assert (forall e', In e' r -> In e' (children fs dir)) as Sub' by (intros e' H; apply Sub; right; exact H).
      cbv zeta. destruct (must_skip base (t_skip t0) (fst e)) eqn:MS; [apply IH; assumption|].
      destruct (snd e); try (apply IH; assumption).
      destruct ((hard && vcs_dir (fst e)) || (negb defer && negb (check_dir gm true (t_filter t0) (fst e)))).
      - destruct (IH (do_skip t0 (fst e)) Sub' (do_skip_pinv t0 (fst e) I0 Ae)) as (X & Y & Z).
        + intros p [<-|Hp]; [right; exists e; split; [apply Sub; left; reflexivity | reflexivity] | apply D0; exact Hp].
        + split; [exact X|]. split; [intros p Hp; apply Y; right; exact Hp | exact Z].
      - apply (IH (mkT (t_visit t0 ++ [fst e]) (t_skip t0) (t_filter t0) (t_files t0)) Sub'); [|exact D0].
        destruct I0 as (A & B & C). split; [|split]; cbn [t_skip t_visit].
        + intros p q Hp Hq. apply in_app_or in Hq. destruct Hq as [Hq|[<-|[]]]; [apply A; assumption|].
          (* the new stack element: not skipped itself, and its parent dir is not in a skipped subtree *)
          destruct (is_under p (fst e)) eqn:U; [|reflexivity]. exfalso.
          assert (p <> fst e) as Ne.
          { intros ->. unfold must_skip in MS. apply orb_false_iff in MS. destruct MS as [M _].
            assert (mem_str (fst e) (t_skip t0) = true) as X by (apply mem_str_In; exact Hp). rewrite X in M. discriminate. }
          pose proof (under_parent p (fst e) dir (C p Hp) U Ne Pe) as Ud.
          destruct (D0 p Hp) as [F|(e' & He' & ->)]; [rewrite F in Ud; discriminate|].
          (* p is another child of dir: a sibling cannot be an ancestor of dir *)
          destruct (child_parent dir e' He') as [Pe' _]. pose proof (path_parent_shorter _ _ Pe') as Sh.
          apply is_under_prefix in Ud. apply prefixb_len in Ud. lia.
        + intros q Hq. apply in_app_or in Hq. destruct Hq as [Hq|[<-|[]]]; [apply B; exact Hq | exact Ae].
        + exact C. }
    destruct (G (children fs dir) t (fun e H => H) I (fun p Hp => or_introl (D p Hp))) as (X & Y & Z). split; [exact X|]. split; [exact Y | exact Z].
  Qed.

  Lemma discover_in_shape dir t :
    t_visit (discover_in content fs dir t) = t_visit t /\ t_skip (discover_in content fs dir t) = t_skip t /\
    forall f, In f (t_files (discover_in content fs dir t)) -> In f (t_files t) \/ d_in f = Some dir.
  Proof.
    unfold discover_in. generalize dir_files. intro l. revert t. induction l as [|nt r IH]; intro t; cbn [fold_left]; [repeat split; auto|].
    destruct (find_file fs (join dir (fst nt))).
    - destruct (IH (mkT (t_visit t) (t_skip t) (add_file (t_filter t) (as_ifile content (mkDf (join dir (fst nt)) (Some dir) (snd nt))))
                        (t_files t ++ [mkDf (join dir (fst nt)) (Some dir) (snd nt)]))) as (A & B & C).
      cbv zeta. split; [exact A|]. split; [exact B|]. intros f Hf. destruct (C f Hf) as [H|H]; [|right; exact H].
      cbn [t_files] in H. apply in_app_or in H. destruct H as [H|[<-|[]]]; [left; exact H | right; reflexivity].
    - apply IH.
  Qed.

  (* one turn of the loop *)
  Lemma step_prune t :
    PInv t ->
    let t' := step gm content hard defer orig fs base watches t in
    PInv t' /\ (forall p, In p (t_skip t) -> In p (t_skip t')) /\
    (forall f, In f (t_files t') -> In f (t_files t) \/ exists d, d_in f = Some d /\ forall p, In p (t_skip t) -> is_under p d = false).
  Proof.
    intros (A & B & C). unfold step. destruct (rev (t_visit t)) as [|p0 rr] eqn:R; [cbv zeta; repeat split; auto|].
    assert (t_visit t = rev rr ++ [p0]) as Vs by (rewrite <- (rev_involutive (t_visit t)), R; reflexivity).
    set (t1 := mkT (rev rr) (t_skip t) (t_filter t) (t_files t)).
    assert (PInv t1) as I1.
    { split; [|split]; cbn [t_skip t_visit t1]; [intros p q Hp Hq; apply A; [exact Hp | rewrite Vs; apply in_or_app; left; exact Hq]
                                                 | intros q Hq; apply B; rewrite Vs; apply in_or_app; left; exact Hq | exact C]. }
    assert (absolute p0) as Ap0 by (apply B; rewrite Vs; apply in_or_app; right; left; reflexivity).
    assert (forall p, In p (t_skip t) -> is_under p p0 = false) as NotUnder by (intros p Hp; apply A; [exact Hp | rewrite Vs; apply in_or_app; right; left; reflexivity]).
    assert (PInv t1 /\ (forall p, In p (t_skip t) -> In p (t_skip t1)) /\
            (forall f, In f (t_files t1) -> In f (t_files t) \/ exists d, d_in f = Some d /\ forall p, In p (t_skip t) -> is_under p d = false)) as Base
      by (split; [exact I1|]; split; [intros p Hp; exact Hp | intros f Hf; left; exact Hf]).
    cbv zeta. destruct (must_skip base (t_skip t1) p0); [exact Base|].
    destruct (negb (orig && String.eqb p0 base) && negb (check_dir gm true (t_filter t1) p0));
      [split; [apply do_skip_pinv; assumption|]; split; [intros p Hp; right; exact Hp | intros f Hf; left; exact Hf]|].
    destruct (negb (watch_related watches p0));
      [split; [apply do_skip_pinv; assumption|]; split; [intros p Hp; right; exact Hp | intros f Hf; left; exact Hf]|].
    destruct (fs_get fs p0) as [[| |]|]; [|exact Base|exact Base|exact Base].
    destruct (enum_children_pinv p0 t1 I1 NotUnder) as (I2 & Mono & _).
    destruct (discover_in_shape p0 (enum_children gm hard defer fs base p0 t1)) as (V3 & S3 & F3).
    split; [|split].
    - destruct I2 as (A2 & B2 & C2). split; [|split]; rewrite ?V3, ?S3; assumption.
    - intros p Hp. rewrite S3. apply Mono. exact Hp.
    - intros f Hf. destruct (F3 f Hf) as [H|H].
      + left. rewrite (enum_children_files gm hard defer fs base p0 t1) in H. exact H.
      + right. exists p0. split; [exact H | exact NotUnder].
  Qed.

  (* nothing is ever returned from a directory that was skipped earlier, nor from anywhere below it *)
  Theorem pruned_stays_out n : forall t,
    PInv t ->
    forall f, In f (t_files (run gm content hard defer orig n fs base watches t)) ->
    In f (t_files t) \/ exists d, d_in f = Some d /\ forall p, In p (t_skip t) -> is_under p d = false.
  Proof.
    induction n as [|n IH]; intros t I f Hf; cbn [run] in Hf; [left; exact Hf|].
    destruct (t_visit t) eqn:V; [left; exact Hf|].
    destruct (step_prune t I) as (I' & Mono & New). cbv zeta in *.
    destruct (IH _ I' f Hf) as [H|(d & Hd & Hu)].
    - apply New. exact H.
    - right. exists d. split; [exact Hd|]. intros p Hp. apply Hu. apply Mono. exact Hp.
  Qed.

  (* every state reached by the walk has the invariant, starting with from_origin's initial state *)
  Lemma run_pinv n : forall t, PInv t -> PInv (run gm content hard defer orig n fs base watches t).
  Proof.
    induction n as [|n IH]; intros t I; cbn [run]; [exact I|]. destruct (t_visit t) eqn:V; [exact I|].
    apply IH. destruct (step_prune t I) as (I' & _). exact I'.
  Qed.
  Lemma init_pinv filt files : absolute base -> PInv (mkT [base] [] filt files).
  Proof. intro A. split; [intros p q []|]. split; [intros q [<-|[]]; exact A | intros p []]. Qed.
End Prune.

(* VCS metadata directories: the repaired walk (hard = true) never puts one on its stack, so no returned file lives in one *)
Section Vcs.
  Variable gm : string -> string -> bool.
  Variable content : string -> list string.
  Variable defer : bool.
  Variable orig : bool.
  Variable fs : fsys.
  Variable base : string.
  Variable watches : list string.

  Definition NV (t : tourist) : Prop := forall q, In q (t_visit t) -> q = base \/ vcs_dir q = false.

  Lemma enum_children_nv dir t : NV t -> NV (enum_children gm true defer fs base dir t).
  Proof.
    unfold enum_children. generalize (children fs dir). intro l. revert t. induction l as [|e r IH]; intros t I; cbn [fold_left]; [exact I|].
    apply IH. cbv zeta. destruct (must_skip base (t_skip t) (fst e)); [exact I|]. destruct (snd e); try exact I.
    cbn [andb]. destruct (vcs_dir (fst e)) eqn:Vd; cbn [orb].
    - intros q Hq. unfold do_skip in Hq. cbn [t_visit] in Hq. apply filter_In in Hq. apply I. apply Hq.
    - destruct (negb defer && negb (check_dir gm true (t_filter t) (fst e))).
      + intros q Hq. unfold do_skip in Hq. cbn [t_visit] in Hq. apply filter_In in Hq. apply I. apply Hq.
      + intros q Hq. cbn [t_visit] in Hq. apply in_app_or in Hq. destruct Hq as [Hq|[<-|[]]]; [apply I; exact Hq | right; exact Vd].
  Qed.

  Lemma step_nv t : NV t ->
    NV (step gm content true defer orig fs base watches t) /\
    (forall f, In f (t_files (step gm content true defer orig fs base watches t)) -> In f (t_files t) \/ exists d, d_in f = Some d /\ (d = base \/ vcs_dir d = false)).
  Proof.
    intro I. unfold step. destruct (rev (t_visit t)) as [|p0 rr] eqn:R; [split; [exact I | intros f Hf; left; exact Hf]|].
    assert (t_visit t = rev rr ++ [p0]) as Vs by (rewrite <- (rev_involutive (t_visit t)), R; reflexivity).
    set (t1 := mkT (rev rr) (t_skip t) (t_filter t) (t_files t)).
    assert (NV t1) as I1 by (intros q Hq; apply I; rewrite Vs; apply in_or_app; left; exact Hq).
    assert (p0 = base \/ vcs_dir p0 = false) as P0 by (apply I; rewrite Vs; apply in_or_app; right; left; reflexivity).
    assert (forall x, NV x -> forall p, NV (do_skip x p)) as DS
      by (intros x Ix p q Hq; unfold do_skip in Hq; cbn [t_visit] in Hq; apply filter_In in Hq; apply Ix; apply Hq).
    assert (NV t1 /\ (forall f, In f (t_files t1) -> In f (t_files t) \/ exists d, d_in f = Some d /\ (d = base \/ vcs_dir d = false))) as Base
      by (split; [exact I1 | intros f Hf; left; exact Hf]).
    destruct (must_skip base (t_skip t1) p0); [exact Base|].
    destruct (negb (orig && String.eqb p0 base) && negb (check_dir gm true (t_filter t1) p0)); [split; [apply DS; exact I1 | intros f Hf; left; exact Hf]|].
    destruct (negb (watch_related watches p0)); [split; [apply DS; exact I1 | intros f Hf; left; exact Hf]|].
    destruct (fs_get fs p0) as [[| |]|]; [|exact Base|exact Base|exact Base].
    destruct (discover_in_shape content fs p0 (enum_children gm true defer fs base p0 t1)) as (V3 & S3 & F3).
    split.
    - intros q Hq. rewrite V3 in Hq. exact (enum_children_nv p0 t1 I1 q Hq).
    - intros f Hf. destruct (F3 f Hf) as [H|H]; [left; rewrite (enum_children_files gm true defer fs base p0 t1) in H; exact H | right; exists p0; split; [exact H | exact P0]].
  Qed.

  Theorem vcs_dirs_never_entered n : forall t, NV t ->
    forall f, In f (t_files (run gm content true defer orig n fs base watches t)) ->
    In f (t_files t) \/ exists d, d_in f = Some d /\ (d = base \/ vcs_dir d = false).
  Proof.
    induction n as [|n IH]; intros t I f Hf; cbn [run] in Hf; [left; exact Hf|].
    destruct (t_visit t) eqn:V; [left; exact Hf|].
    destruct (step_nv t I) as [I' New]. destruct (IH _ I' f Hf) as [H|H]; [apply New; exact H | right; exact H].
  Qed.
End Vcs.

(* as pinned (exclusion through the filter only) a negated pattern on a parent directory re-includes the VCS directory *)
Definition wfs : fsys := [("/o", KDir); ("/o/test2", KDir); ("/o/test2/.gitignore", KFile true); ("/o/test2/test", KDir);
  ("/o/test2/test/.hg", KDir); ("/o/test2/test/.hg/.ignore", KFile true)].
Definition wcontent (p : string) : list string := if String.eqb p "/o/test2/.gitignore" then ["!test"] else ["*.log"].
Lemma vcs_dir_entered_refuted :
  map show_dfile (from_origin gm_glob wcontent false false false wfs "/o" [] [] None) = ["/o/test2/.gitignore|/o/test2|Git"; "/o/test2/test/.hg/.ignore|/o/test2/test/.hg|-"] /\
  map show_dfile (from_origin gm_glob wcontent true false false wfs "/o" [] [] None) = ["/o/test2/.gitignore|/o/test2|Git"].
Proof. vm_compute. split; reflexivity. Qed.
