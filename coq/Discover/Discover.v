(* Model of ignore-files/src/discover.rs: from_origin and the DirTourist stack machine.
   The file system is a flat listing (path -> kind) whose order is the directory listing order. *)
From Coq Require Import List NArith String Ascii Bool.
From WX Require Import Base.Bytes Glob.Glob Glob.Gitignore Ignore.IgnoreFilter Gen.Origins_gen.
Import ListNotations.
Open Scope string_scope.
Open Scope list_scope.

Inductive fkind : Set := KDir | KFile (nonempty : bool) | KOther.
Definition fsys := list (string * fkind).

Fixpoint fs_get (fs : fsys) (p : string) : option fkind :=
  match fs with [] => None | (q, k) :: r => if String.eqb p q then Some k else fs_get r p end.

(* find_file: a regular, non-empty file *)
Definition find_file (fs : fsys) (p : string) : bool :=
  match fs_get fs p with Some (KFile true) => true | _ => false end.

Definition children (fs : fsys) (dir : string) : list (string * fkind) :=
  filter (fun e => match path_parent (fst e) with Some q => String.eqb q dir | None => false end) fs.

Record dfile : Type := mkDf { d_path : string; d_in : option string; d_to : option ptype }.

Definition join (dir name : string) : string := if String.eqb dir "/" then "/" ++ name else dir ++ "/" ++ name.

Section Discover.
  Variable gm : string -> string -> bool.
  Variable content : string -> list string.   (* lines of an ignore file *)
  Variable hard : bool.   (* true: VCS metadata directories are never entered, whatever the filter says (the repaired code);
                             false: they are excluded through the filter only (as pinned) *)
  Variable defer : bool.  (* true: whether a child directory is ignored is decided when it is visited, once its parent's own ignore
                             files are in the filter (the repaired code); false: already while its parent is listed (as pinned) *)
  Variable orig : bool.   (* true: the origin itself is never checked against the filter (the repaired code) *)

  Definition as_ifile (f : dfile) : ifile := (d_in f, content (d_path f)).

  Record tourist : Type := mkT {
    t_visit : list string;     (* stack: last element is popped first *)
    t_skip : list string;
    t_filter : ifilter;
    t_files : list dfile }.

  (* must_skip: the path or one of its ancestors strictly below the base is in the skip set *)
  Fixpoint skip_walk (fuel : nat) (base : string) (skip : list string) (p : string) : bool :=
    match fuel with
    | O => false
    | S f =>
        match path_parent p with
        | None => false
        | Some par => if String.eqb par base then false
                      else if mem_str par skip then true else skip_walk f base skip par
        end
    end.
  Definition must_skip (base : string) (skip : list string) (p : string) : bool :=
    mem_str p skip || skip_walk (S (String.length p)) base skip p.

  Definition do_skip (t : tourist) (p : string) : tourist :=
    mkT (filter (fun q => negb (is_under p q)) (t_visit t)) (p :: t_skip t) (t_filter t) (t_files t).

  Definition watch_related (watches : list string) (p : string) : bool :=
    match watches with
    | [] => true
    | _ => existsb (fun w => is_under w p || is_under p w) watches
    end.

  (* the per-directory lookups after Visit::Find, in source order *)
  Definition dir_files : list (string * option ptype) :=
    [(".ignore", None); (".gitignore", Some PT_Git); (".hgignore", Some PT_Mercurial)].

  Definition discover_in (fs : fsys) (dir : string) (t : tourist) : tourist :=
    fold_left (fun t nt =>
                 let p := join dir (fst nt) in
                 if find_file fs p then
                   let f := mkDf p (Some dir) (snd nt) in
                   mkT (t_visit t) (t_skip t) (add_file (t_filter t) (as_ifile f)) (t_files t ++ [f])
                 else t) dir_files t.

  (* is_vcs_metadata_dir: the last component is one of the VCS metadata directory names *)
  Fixpoint last_component (s cur : string) : string :=
    match s with
    | EmptyString => cur
    | String c r => if is_sep c then last_component r EmptyString else last_component r (cur ++ String c EmptyString)
    end.
  Definition vcs_dir (p : string) : bool :=
    mem_str (last_component p EmptyString) [".git"; ".hg"; ".bzr"; "_darcs"; ".fossil-settings"; ".svn"; ".pijul"].

  (* enumerate the children of a visited directory *)
  Definition enum_children (fs : fsys) (base : string) (dir : string) (t : tourist) : tourist :=
    fold_left (fun t e =>
                 let c := fst e in
                 if must_skip base (t_skip t) c then t else
                 match snd e with
                 | KDir => if (hard && vcs_dir c) || (negb defer && negb (check_dir gm true (t_filter t) c)) then do_skip t c
                           else mkT (t_visit t ++ [c]) (t_skip t) (t_filter t) (t_files t)
                 | _ => t
                 end) (children fs dir) t.

  (* one turn of the loop in from_origin: pop, visit_path, then the per-directory lookups *)
  Definition step (fs : fsys) (base : string) (watches : list string) (t : tourist) : tourist :=
    match rev (t_visit t) with
    | [] => t
    | p :: rest_rev =>
        let t1 := mkT (rev rest_rev) (t_skip t) (t_filter t) (t_files t) in
        if must_skip base (t_skip t1) p then t1
        else if negb (orig && String.eqb p base) && negb (check_dir gm true (t_filter t1) p) then do_skip t1 p
        else if negb (watch_related watches p) then do_skip t1 p
        else match fs_get fs p with
             | Some KDir => discover_in fs p (enum_children fs base p t1)
             | _ => t1                                    (* read_dir error: Visit::Skip *)
             end
    end.

  Fixpoint run (fuel : nat) (fs : fsys) (base : string) (watches : list string) (t : tourist) : tourist :=
    match fuel with
    | O => t
    | S f => match t_visit t with [] => t | _ => run f fs base watches (step fs base watches t) end
    end.

  Definition vcs_dir_globs : list string :=
    [".git"; ".hg"; ".bzr"; "_darcs"; ".fossil-settings"; ".svn"; ".pijul"].

  Definition origin_files : list (string * ptype) :=
    [(".bzrignore", PT_Bazaar); ("_darcs/prefs/boring", PT_Darcs);
     (".fossil-settings/ignore-glob", PT_Fossil); (".git/info/exclude", PT_Git)].

  (* from_origin.  `excludes` is the value of core.excludesFile in .git/config, if any (the parsing of
     .git/config is not modelled). *)
  Definition from_origin (fs : fsys) (origin : string) (watches explicit : list string) (excludes : option string)
    : list dfile :=
    let f0 := map (fun p => mkDf p (Some origin) None) explicit in
    let f1 := f0 ++ match excludes with
                    | Some e => if find_file fs e then [mkDf e None (Some PT_Git)] else []
                    | None => [] end in
    let f2 := f1 ++ flat_map (fun nt => let p := join origin (fst nt) in
                                        if find_file fs p then [mkDf p (Some origin) (Some (snd nt))] else [])
                             origin_files in
    let filt := add_file (filter_new origin (map as_ifile f2)) (Some origin, vcs_dir_globs) in
    let t := run (S (List.length fs)) fs origin watches (mkT [origin] [] filt f2) in
    t_files t.
End Discover.

Definition show_dfile (f : dfile) : string :=
  d_path f ++ "|" ++ (match d_in f with Some d => d | None => "-" end) ++ "|" ++
  (match d_to f with Some t => ptype_name t | None => "-" end).
