(* C14, completeness and termination of the walk: every directory that can be reached from the origin through directories is
   either visited -- each of its existing non-empty .ignore / .gitignore / .hgignore files is returned -- or lies in or below a
   directory that was pruned, and a directory is pruned only for one of the three reasons the code names (VCS metadata directory,
   unrelated to the explicit watches, ignored by the filter built so far).  The fuel from_origin gives the walk, one more than
   the number of entries of the listing, is enough for the stack to run empty. *)
From Coq Require Import List Arith NArith String Ascii Bool Lia Permutation.
From WX Require Import Base.Bytes Glob.Glob Glob.Gitignore Glob.PathLemmas Ignore.IgnoreFilter Ignore.IgnoreProofs Ignore.IgnoreEquiv Ignore.IgnoreKeys Gen.Origins_gen
     Discover.Discover Discover.DiscoverProofs Discover.DiscoverPrune.
Import ListNotations.
Open Scope string_scope.
Open Scope list_scope.

Lemma is_under_antisym a b : is_under a b = true -> is_under b a = true -> a = b.
Proof.
  intros H1 H2. apply is_under_prefix in H1. apply is_under_prefix in H2.
  apply prefixb_same_len; [exact H1|]. apply prefixb_len in H1. apply prefixb_len in H2. lia.
Qed.

Section Complete.
  Variable gm : string -> string -> bool.
  Variable content : string -> list string.
  Variable hard : bool.
  Variable defer : bool.
  Variable orig : bool.
  Variable fs : fsys.
  Variable base : string.
  Variable watches : list string.
  Hypothesis fs_abs : forall e, In e fs -> absolute (fst e).
  Hypothesis base_abs : absolute base.
  Hypothesis fs_nodup : NoDup (map fst fs).     (* a listing names each path once *)

  Notation step' := (step gm content hard defer orig fs base watches).
  Notation run' := (fun n => run gm content hard defer orig n fs base watches).

  (* directories reachable from the origin through directories *)
  Inductive rdir : string -> Prop :=
  | rd_base : fs_get fs base = Some KDir -> rdir base
  | rd_child d c : rdir d -> In (c, KDir) (children fs d) -> rdir c.

  Definition Done (t : tourist) (d : string) : Prop :=
    forall nt, In nt dir_files -> find_file fs (join d (fst nt)) = true -> In (mkDf (join d (fst nt)) (Some d) (snd nt)) (t_files t).
  Definition Skipped (t : tourist) (d : string) : Prop := exists p, In p (t_skip t) /\ is_under p d = true.
  Definition Pending (t : tourist) (d : string) : Prop := exists q, In q (t_visit t) /\ is_under q d = true.
  Definition Cov (t : tourist) (d : string) : Prop := Skipped t d \/ Pending t d.

  Definition CInv (t : tourist) : Prop :=
    (forall q, In q (t_visit t) -> q = base \/ rdir q) /\
    (forall p, In p (t_skip t) -> absolute p) /\
    forall d, rdir d -> Done t d \/ Cov t d.

  (* ---------- the listing *)
  Lemma nodup_get : forall p k, In (p, k) fs -> fs_get fs p = Some k.
  Proof.
    revert fs_nodup. clear. induction fs as [|[q k0] r IH]; intros ND p k H; [destruct H|].
    cbn [fs_get]. cbn [map fst] in ND. inversion ND as [|x l Hnot ND']; subst.
    destruct H as [H|H].
    - injection H as -> ->. rewrite String.eqb_refl. reflexivity.
    - destruct (String.eqb p q) eqn:E.
      + apply String.eqb_eq in E. subst q. exfalso. apply Hnot. apply in_map_iff. exists (p, k). split; [reflexivity | exact H].
      + apply IH; assumption.
  Qed.

  Lemma children_in dir e : In e (children fs dir) -> In e fs.
  Proof. unfold children. rewrite filter_In. intros [H _]. exact H. Qed.

  Lemma cp dir e : In e (children fs dir) -> path_parent (fst e) = Some dir /\ absolute (fst e).
  Proof. apply child_parent. exact fs_abs. Qed.

  Lemma rdir_is_dir d : rdir d -> fs_get fs d = Some KDir.
  Proof. intros [H|d0 c _ H]; [exact H|]. apply nodup_get. apply (children_in d0). exact H. Qed.

  Lemma rdir_abs d : rdir d -> absolute d.
  Proof. intros [H|d0 c _ H]; [exact base_abs|]. exact (proj2 (cp d0 _ H)). Qed.

  Lemma child_under dir e : absolute dir -> In e (children fs dir) -> is_under dir (fst e) = true /\ fst e <> dir.
  Proof.
    intros Ad H. destruct (cp dir e H) as [P _]. split.
    - apply is_under_parent; [exact P | apply absolute_nonempty; exact Ad].
    - intro E. apply path_parent_shorter in P. rewrite E in P. lia.
  Qed.

  Lemma rdir_under_base d : rdir d -> is_under base d = true.
  Proof.
    induction 1 as [|d c Hd IH Hc]; [apply is_under_refl|].
    apply (is_under_trans base d c); [apply absolute_nonempty; exact base_abs | exact IH|].
    exact (proj1 (child_under d (c, KDir) (rdir_abs d Hd) Hc)).
  Qed.

  (* below a directory p of the walk, every reachable directory is p itself or lies in or below a child directory of p *)
  Lemma rdir_descend p d :
    rdir d -> (p = base \/ rdir p) -> is_under p d = true -> p <> d ->
    exists c, In (c, KDir) (children fs p) /\ is_under c d = true.
  Proof.
    intros Hd Hp. assert (absolute p) as Ap by (destruct Hp as [->|Hp]; [exact base_abs | apply rdir_abs; exact Hp]).
    induction Hd as [Hb|d c Hd IH Hc]; intros U Ne.
    - exfalso. apply Ne. destruct Hp as [->|Hp]; [reflexivity|]. apply is_under_antisym; [exact U | apply rdir_under_base; exact Hp].
    - destruct (cp d (c, KDir) Hc) as [Pc _]. cbn [fst] in Pc.
      pose proof (under_parent p c d Ap U Ne Pc) as Ud.
      destruct (string_dec p d) as [->|Nd].
      + exists c. split; [exact Hc | apply is_under_refl].
      + destruct (IH Ud Nd) as (c0 & Hc0 & U0). exists c0. split; [exact Hc0|].
        destruct (cp p (c0, KDir) Hc0) as [_ A0]. cbn [fst] in A0.
        apply (is_under_trans c0 d c); [apply absolute_nonempty; exact A0 | exact U0|].
        exact (proj1 (child_under d (c, KDir) (rdir_abs d Hd) Hc)).
  Qed.

  (* ---------- must_skip only answers yes when the path lies in or below a skipped directory *)
  Lemma skip_walk_sound skip : (forall s, In s skip -> absolute s) ->
    forall fuel p, absolute p -> skip_walk fuel base skip p = true -> exists s, In s skip /\ is_under s p = true.
  Proof.
    intro As. induction fuel as [|f IH]; intros p Ap H; cbn [skip_walk] in H; [discriminate|].
    destruct (path_parent p) as [par|] eqn:P; [|discriminate].
    destruct (parent_absolute p par Ap P) as [Apar _].
    pose proof (is_under_parent p par P (absolute_nonempty par Apar)) as Up.
    destruct (String.eqb par base); [discriminate|].
    destruct (mem_str par skip) eqn:M.
    - exists par. split; [apply mem_str_In; exact M | exact Up].
    - destruct (IH par Apar H) as (s & Hs & Us). exists s. split; [exact Hs|].
      apply (is_under_trans s par p (absolute_nonempty s (As s Hs)) Us Up).
  Qed.

  Lemma must_skip_sound skip p : (forall s, In s skip -> absolute s) -> absolute p ->
    must_skip base skip p = true -> exists s, In s skip /\ is_under s p = true.
  Proof.
    intros As Ap H. unfold must_skip in H. apply orb_true_iff in H. destruct H as [H|H].
    - exists p. split; [apply mem_str_In; exact H | apply is_under_refl].
    - exact (skip_walk_sound skip As _ p Ap H).
  Qed.

  Lemma rdir_base_dir d : rdir d -> fs_get fs base = Some KDir.
  Proof. induction 1 as [H|d c _ IH _]; [exact H | exact IH]. Qed.

  (* ---------- coverage is kept by skipping and by pushing *)
  Lemma do_skip_cov t p d : absolute p -> Cov t d -> Cov (do_skip t p) d.
  Proof.
    intros Ap [(s & Hs & Us)|(q & Hq & Uq)].
    - left. exists s. split; [right; exact Hs | exact Us].
    - destruct (is_under p q) eqn:E.
      + left. exists p. split; [left; reflexivity|]. apply (is_under_trans p q d); [apply absolute_nonempty; exact Ap | exact E | exact Uq].
      + right. exists q. split; [|exact Uq]. unfold do_skip; cbn [t_visit]. apply filter_In. split; [exact Hq | rewrite E; reflexivity].
  Qed.

  Lemma cov_same t t' d : t_visit t' = t_visit t -> t_skip t' = t_skip t -> Cov t d -> Cov t' d.
  Proof. intros V S [(s & Hs & Us)|(q & Hq & Uq)]; [left; exists s; rewrite S | right; exists q; rewrite V]; split; assumption. Qed.

  Definition ec_body (t : tourist) (e : string * fkind) : tourist :=
    let c := fst e in
    if must_skip base (t_skip t) c then t else
    match snd e with
    | KDir => if (hard && vcs_dir c) || (negb defer && negb (check_dir gm true (t_filter t) c)) then do_skip t c
              else mkT (t_visit t ++ [c]) (t_skip t) (t_filter t) (t_files t)
    | _ => t
    end.

  Lemma enum_children_fold dir t : enum_children gm hard defer fs base dir t = fold_left ec_body (children fs dir) t.
  Proof. reflexivity. Qed.

  Lemma ec_body_step p t0 e :
    rdir p -> In e (children fs p) ->
    (forall s, In s (t_skip t0) -> absolute s) -> (forall q, In q (t_visit t0) -> q = base \/ rdir q) ->
    let t1 := ec_body t0 e in
    (forall s, In s (t_skip t1) -> absolute s) /\ (forall q, In q (t_visit t1) -> q = base \/ rdir q) /\
    t_files t1 = t_files t0 /\ t_filter t1 = t_filter t0 /\ (forall d, Cov t0 d -> Cov t1 d) /\
    (snd e = KDir -> forall d, is_under (fst e) d = true -> Cov t1 d).
  Proof.
    intros Hp He As Vr. destruct (cp p e He) as [Pe Ae]. unfold ec_body. cbv zeta.
    destruct (must_skip base (t_skip t0) (fst e)) eqn:MS.
    - split; [exact As|]. split; [exact Vr|]. split; [reflexivity|]. split; [reflexivity|]. split; [intros d H; exact H|].
      intros _ d U. destruct (must_skip_sound _ _ As Ae MS) as (s & Hs & Us). left. exists s. split; [exact Hs|].
      apply (is_under_trans s (fst e) d); [apply absolute_nonempty; apply As; exact Hs | exact Us | exact U].
    - destruct (snd e) eqn:K.
      + destruct ((hard && vcs_dir (fst e)) || (negb defer && negb (check_dir gm true (t_filter t0) (fst e)))).
        * split; [intros s [<-|Hs]; [exact Ae | apply As; exact Hs]|].
          split; [intros q Hq; unfold do_skip in Hq; cbn [t_visit] in Hq; apply filter_In in Hq; apply Vr; apply Hq|].
          split; [reflexivity|]. split; [reflexivity|]. split; [intros d H; apply do_skip_cov; assumption|].
          intros _ d U. left. exists (fst e). split; [left; reflexivity | exact U].
        * cbn [t_skip t_visit t_files t_filter]. split; [exact As|].
          split; [intros q Hq; apply in_app_or in Hq; destruct Hq as [Hq|[<-|[]]]; [apply Vr; exact Hq|];
                  right; apply (rd_child p); [exact Hp|]; rewrite <- K; destruct e; exact He|].
          split; [reflexivity|]. split; [reflexivity|].
          split; [intros d [Sk|(q & Hq & Uq)]; [left; exact Sk | right; exists q; split; [cbn [t_visit]; apply in_or_app; left; exact Hq | exact Uq]]|].
          intros _ d U. right. exists (fst e). split; [cbn [t_visit]; apply in_or_app; right; left; reflexivity | exact U].
      + split; [exact As|]. split; [exact Vr|]. split; [reflexivity|]. split; [reflexivity|]. split; [intros d H; exact H|]. intro X; discriminate X.
      + split; [exact As|]. split; [exact Vr|]. split; [reflexivity|]. split; [reflexivity|]. split; [intros d H; exact H|]. intro X; discriminate X.
  Qed.

  Lemma ec_fold p : rdir p ->
    forall l t0, (forall e, In e l -> In e (children fs p)) ->
      (forall s, In s (t_skip t0) -> absolute s) -> (forall q, In q (t_visit t0) -> q = base \/ rdir q) ->
      let t' := fold_left ec_body l t0 in
      (forall s, In s (t_skip t') -> absolute s) /\ (forall q, In q (t_visit t') -> q = base \/ rdir q) /\
      t_files t' = t_files t0 /\ t_filter t' = t_filter t0 /\ (forall d, Cov t0 d -> Cov t' d) /\
      (forall c d, In (c, KDir) l -> is_under c d = true -> Cov t' d).
  Proof.
    intro Hp. induction l as [|e r IH]; intros t0 Sub As Vr; cbn [fold_left]; cbv zeta.
    - split; [exact As|]. split; [exact Vr|]. split; [reflexivity|]. split; [reflexivity|]. split; [intros d H; exact H|]. intros c d [].
    - destruct (ec_body_step p t0 e Hp (Sub e (or_introl eq_refl)) As Vr) as (As1 & Vr1 & F1 & Fl1 & M1 & N1).
      destruct (IH (ec_body t0 e) (fun e' H => Sub e' (or_intror H)) As1 Vr1) as (As2 & Vr2 & F2 & Fl2 & M2 & N2).
      split; [exact As2|]. split; [exact Vr2|]. split; [rewrite F2; exact F1|]. split; [rewrite Fl2; exact Fl1|].
      split; [intros d H; apply M2; apply M1; exact H|].
      intros c d [E|Hc] U; [apply M2; apply N1; [rewrite E; reflexivity | rewrite E; exact U] | exact (N2 c d Hc U)].
  Qed.

  (* ---------- the per-directory lookups find everything there is *)
  Lemma discover_in_done dir t :
    Done (discover_in content fs dir t) dir /\ (forall f, In f (t_files t) -> In f (t_files (discover_in content fs dir t))).
  Proof.
    unfold discover_in, Done. generalize dir_files. intro l. revert t.
    induction l as [|nt r IH]; intro t; cbn [fold_left]; [split; [intros nt [] | intros f H; exact H]|].
    destruct (find_file fs (join dir (fst nt))) eqn:E.
    - destruct (IH (mkT (t_visit t) (t_skip t) (add_file (t_filter t) (as_ifile content (mkDf (join dir (fst nt)) (Some dir) (snd nt))))
                        (t_files t ++ [mkDf (join dir (fst nt)) (Some dir) (snd nt)]))) as (A & B).
      split.
      + intros nt' [<-|H] F; [apply B; cbn [t_files]; apply in_or_app; right; left; reflexivity | exact (A nt' H F)].
      + intros f H. apply B. cbn [t_files]. apply in_or_app. left. exact H.
    - destruct (IH t) as (A & B). split; [|exact B].
      intros nt' [<-|H] F; [rewrite F in E; discriminate E | exact (A nt' H F)].
  Qed.

  (* ---------- one turn of the loop keeps the completeness invariant *)
  Lemma step_cinv t : CInv t -> CInv (step' t).
  Proof.
    intros (V & S & C). unfold step. destruct (rev (t_visit t)) as [|p0 rr] eqn:R; [split; [exact V|]; split; [exact S | exact C]|].
    assert (t_visit t = rev rr ++ [p0]) as Vs by (rewrite <- (rev_involutive (t_visit t)), R; reflexivity).
    set (t1 := mkT (rev rr) (t_skip t) (t_filter t) (t_files t)).
    assert (p0 = base \/ rdir p0) as Hp0 by (apply V; rewrite Vs; apply in_or_app; right; left; reflexivity).
    assert (absolute p0) as Ap0 by (destruct Hp0 as [->|H]; [exact base_abs | apply rdir_abs; exact H]).
    assert (forall q, In q (t_visit t1) -> q = base \/ rdir q) as V1 by (intros q Hq; apply V; rewrite Vs; apply in_or_app; left; exact Hq).
    assert (forall d, rdir d -> Done t1 d \/ Cov t1 d \/ is_under p0 d = true) as C1.
    { intros d Hd. destruct (C d Hd) as [D|[Sk|(q & Hq & Uq)]]; [left; exact D | right; left; left; exact Sk|].
      rewrite Vs in Hq. apply in_app_or in Hq. destruct Hq as [Hq|[<-|[]]]; [right; left; right; exists q; split; assumption | right; right; exact Uq]. }
    assert (CInv (do_skip t1 p0)) as Skip.
    { split; [intros q Hq; unfold do_skip in Hq; cbn [t_visit] in Hq; apply filter_In in Hq; apply V1; apply Hq|].
      split; [intros s [<-|Hs]; [exact Ap0 | apply S; exact Hs]|].
      intros d Hd. destruct (C1 d Hd) as [D|[Cv|U]]; [left; exact D | right; apply do_skip_cov; assumption|].
      right. left. exists p0. split; [left; reflexivity | exact U]. }
    cbv zeta. destruct (must_skip base (t_skip t1) p0) eqn:MS.
    { split; [exact V1|]. split; [exact S|]. intros d Hd. destruct (C1 d Hd) as [D|[Cv|U]]; [left; exact D | right; exact Cv|].
      destruct (must_skip_sound _ _ S Ap0 MS) as (s & Hs & Us). right. left. exists s. split; [exact Hs|].
      apply (is_under_trans s p0 d); [apply absolute_nonempty; apply S; exact Hs | exact Us | exact U]. }
    destruct (negb (orig && String.eqb p0 base) && negb (check_dir gm true (t_filter t1) p0)); [exact Skip|].
    destruct (negb (watch_related watches p0)); [exact Skip|].
    destruct (fs_get fs p0) as [k|] eqn:G.
    2:{ split; [exact V1|]. split; [exact S|]. intros d Hd. destruct (C1 d Hd) as [D|[Cv|U]]; [left; exact D | right; exact Cv|].
        exfalso. destruct Hp0 as [->|H]; [rewrite (rdir_base_dir d Hd) in G | rewrite (rdir_is_dir p0 H) in G]; discriminate G. }
    destruct k.
    2:{ split; [exact V1|]. split; [exact S|]. intros d Hd. destruct (C1 d Hd) as [D|[Cv|U]]; [left; exact D | right; exact Cv|].
        exfalso. destruct Hp0 as [->|H]; [rewrite (rdir_base_dir d Hd) in G | rewrite (rdir_is_dir p0 H) in G]; discriminate G. }
    2:{ split; [exact V1|]. split; [exact S|]. intros d Hd. destruct (C1 d Hd) as [D|[Cv|U]]; [left; exact D | right; exact Cv|].
        exfalso. destruct Hp0 as [->|H]; [rewrite (rdir_base_dir d Hd) in G | rewrite (rdir_is_dir p0 H) in G]; discriminate G. }
    assert (rdir p0) as Rp0 by (destruct Hp0 as [->|H]; [apply rd_base; exact G | exact H]).
    rewrite enum_children_fold.
    destruct (ec_fold p0 Rp0 (children fs p0) t1 (fun e H => H) S V1) as (S2 & V2 & F2 & _ & M2 & N2).
    set (t2 := fold_left ec_body (children fs p0) t1) in *.
    destruct (discover_in_shape content fs p0 t2) as (V3 & S3 & _).
    destruct (discover_in_done p0 t2) as (D3 & Mono3).
    split; [rewrite V3; exact V2|]. split; [rewrite S3; exact S2|].
    intros d Hd. destruct (C1 d Hd) as [D|[Cv|U]].
    - left. intros nt Hnt F. apply Mono3. rewrite F2. exact (D nt Hnt F).
    - right. apply (cov_same t2); [exact V3 | exact S3 | apply M2; exact Cv].
    - destruct (string_dec p0 d) as [<-|Ne]; [left; exact D3|].
      destruct (rdir_descend p0 d Hd Hp0 U Ne) as (c & Hc & Uc).
      right. apply (cov_same t2); [exact V3 | exact S3 | exact (N2 c d Hc Uc)].
  Qed.

  Lemma run_cinv n : forall t, CInv t -> CInv (run' n t).
  Proof.
    induction n as [|n IH]; intros t I; cbn [run]; [exact I|]. destruct (t_visit t) eqn:V; [exact I|].
    apply IH. apply step_cinv. exact I.
  Qed.

  Lemma init_cinv filt files : CInv (mkT [base] [] filt files).
  Proof.
    split; [intros q [<-|[]]; left; reflexivity|]. split; [intros p []|].
    intros d Hd. right. right. exists base. split; [left; reflexivity | apply rdir_under_base; exact Hd].
  Qed.

  (* when the stack has run empty, every reachable directory was visited or lies in or below a pruned one *)
  Theorem walk_complete n filt files :
    let t := run' n (mkT [base] [] filt files) in
    t_visit t = [] -> forall d, rdir d -> Done t d \/ Skipped t d.
  Proof.
    intros t E d Hd. destruct (run_cinv n _ (init_cinv filt files)) as (_ & _ & C). fold t in C.
    destruct (C d Hd) as [D|[Sk|(q & Hq & _)]]; [left; exact D | right; exact Sk|]. rewrite E in Hq. destruct Hq.
  Qed.

  (* ---------- files only accumulate; the filter is the initial one plus the discovered files, in order *)
  Lemma discover_in_grows dir t :
    exists l, t_files (discover_in content fs dir t) = t_files t ++ l /\
              t_filter (discover_in content fs dir t) = fold_left add_file (map (as_ifile content) l) (t_filter t).
  Proof.
    unfold discover_in. generalize dir_files. intro l0. revert t.
    induction l0 as [|nt r IH]; intro t; cbn [fold_left]; [exists []; split; [rewrite app_nil_r; reflexivity | reflexivity]|].
    destruct (find_file fs (join dir (fst nt))); [|apply IH].
    destruct (IH (mkT (t_visit t) (t_skip t) (add_file (t_filter t) (as_ifile content (mkDf (join dir (fst nt)) (Some dir) (snd nt))))
                      (t_files t ++ [mkDf (join dir (fst nt)) (Some dir) (snd nt)]))) as (l & A & B).
    cbn [t_files t_filter] in A, B. exists (mkDf (join dir (fst nt)) (Some dir) (snd nt) :: l). split.
    - cbv zeta. rewrite A. rewrite <- app_assoc. reflexivity.
    - cbv zeta. rewrite B. reflexivity.
  Qed.

  Lemma ec_fold_same l : forall t0, t_files (fold_left ec_body l t0) = t_files t0 /\ t_filter (fold_left ec_body l t0) = t_filter t0.
  Proof.
    induction l as [|e r IH]; intro t0; cbn [fold_left]; [split; reflexivity|]. destruct (IH (ec_body t0 e)) as (A & B). rewrite A, B.
    unfold ec_body. cbv zeta. destruct (must_skip base (t_skip t0) (fst e)); [split; reflexivity|]. destruct (snd e); try (split; reflexivity).
    destruct ((hard && vcs_dir (fst e)) || (negb defer && negb (check_dir gm true (t_filter t0) (fst e)))); split; reflexivity.
  Qed.

  Lemma step_grows t :
    exists l, t_files (step' t) = t_files t ++ l /\ t_filter (step' t) = fold_left add_file (map (as_ifile content) l) (t_filter t).
  Proof.
    assert (forall x, t_files x = t_files t -> t_filter x = t_filter t ->
                      exists l, t_files x = t_files t ++ l /\ t_filter x = fold_left add_file (map (as_ifile content) l) (t_filter t)) as Same
      by (intros x A B; exists []; split; [rewrite app_nil_r; exact A | exact B]).
    unfold step. destruct (rev (t_visit t)) as [|p0 rr]; [apply Same; reflexivity|].
    set (t1 := mkT (rev rr) (t_skip t) (t_filter t) (t_files t)). cbv zeta.
    destruct (must_skip base (t_skip t1) p0); [apply Same; reflexivity|].
    destruct (negb (orig && String.eqb p0 base) && negb (check_dir gm true (t_filter t1) p0)); [apply Same; reflexivity|].
    destruct (negb (watch_related watches p0)); [apply Same; reflexivity|].
    destruct (fs_get fs p0) as [[| |]|]; [|apply Same; reflexivity|apply Same; reflexivity|apply Same; reflexivity].
    rewrite enum_children_fold. destruct (ec_fold_same (children fs p0) t1) as (A & B).
    destruct (discover_in_grows p0 (fold_left ec_body (children fs p0) t1)) as (l & C & D). rewrite A in C. rewrite B in D.
    exists l. split; assumption.
  Qed.

  Lemma step_done t d : Done t d -> Done (step' t) d.
  Proof. intros D nt Hnt F. destruct (step_grows t) as (l & A & _). rewrite A. apply in_or_app. left. exact (D nt Hnt F). Qed.

  Lemma ec_fold_visit l : forall t0 q, In q (t_visit (fold_left ec_body l t0)) -> In q (t_visit t0) \/ In (q, KDir) l.
  Proof.
    induction l as [|e r IH]; intros t0 q H; cbn [fold_left] in H; [left; exact H|].
    destruct (IH _ q H) as [H1|H1]; [|right; right; exact H1].
    unfold ec_body in H1. cbv zeta in H1. destruct (must_skip base (t_skip t0) (fst e)); [left; exact H1|].
    destruct (snd e) eqn:K; try (left; exact H1).
    destruct ((hard && vcs_dir (fst e)) || (negb defer && negb (check_dir gm true (t_filter t0) (fst e)))).
    - left. unfold do_skip in H1. cbn [t_visit] in H1. apply filter_In in H1. apply H1.
    - cbn [t_visit] in H1. apply in_app_or in H1. destruct H1 as [H1|[<-|[]]]; [left; exact H1|]. right. left. rewrite <- K. destruct e; reflexivity.
  Qed.

  (* every directory waiting on the stack has all the directories above it visited already *)
  Definition ADInv (t : tourist) : Prop :=
    forall q, In q (t_visit t) -> forall a, rdir a -> is_under a q = true -> a <> q -> Done t a.

  Lemma step_adinv t : CInv t -> ADInv t -> ADInv (step' t).
  Proof.
    intros (V & _ & _) AD.
    assert (forall a, Done t a -> Done (step' t) a) as Mono by (intros a; apply step_done).
    unfold ADInv. intros q Hq a Ra Ua Ne. revert Hq. unfold step at 1.
    destruct (rev (t_visit t)) as [|p0 rr] eqn:R; [intro Hq; apply Mono; exact (AD q Hq a Ra Ua Ne)|].
    assert (t_visit t = rev rr ++ [p0]) as Vs by (rewrite <- (rev_involutive (t_visit t)), R; reflexivity).
    set (t1 := mkT (rev rr) (t_skip t) (t_filter t) (t_files t)).
    assert (In q (rev rr) -> Done (step' t) a) as Old by (intro H; apply Mono; apply (AD q); [rewrite Vs; apply in_or_app; left; exact H | exact Ra | exact Ua | exact Ne]).
    assert (In q (t_visit (do_skip t1 p0)) -> Done (step' t) a) as Old2 by (intro H; unfold do_skip in H; cbn [t_visit t1] in H; apply filter_In in H; apply Old; apply H).
    cbv zeta. destruct (must_skip base (t_skip t1) p0) eqn:MS; [exact Old|].
    destruct (negb (orig && String.eqb p0 base) && negb (check_dir gm true (t_filter t1) p0)) eqn:Cd; [exact Old2|].
    destruct (negb (watch_related watches p0)) eqn:W; [exact Old2|].
    destruct (fs_get fs p0) as [[| |]|] eqn:G; [|exact Old|exact Old|exact Old].
    rewrite enum_children_fold. intro Hq.
    destruct (discover_in_shape content fs p0 (fold_left ec_body (children fs p0) t1)) as (V3 & _ & _). rewrite V3 in Hq.
    destruct (ec_fold_visit _ _ _ Hq) as [H|H]; [apply Old; exact H|].
    (* q is a child directory of p0 *)
    assert (p0 = base \/ rdir p0) as Hp0 by (apply V; rewrite Vs; apply in_or_app; right; left; reflexivity).
    destruct (cp p0 (q, KDir) H) as [Pq _]. cbn [fst] in Pq.
    pose proof (under_parent a q p0 (rdir_abs a Ra) Ua Ne Pq) as Up.
    destruct (string_dec a p0) as [->|Np].
    - (* the parent itself: just visited *)
      assert (step' t = discover_in content fs p0 (fold_left ec_body (children fs p0) t1)) as ->.
      { unfold step. rewrite R. fold t1. cbv zeta. rewrite MS, Cd, W, G. rewrite enum_children_fold. reflexivity. }
      exact (proj1 (discover_in_done p0 _)).
    - apply Mono. apply (AD p0); [rewrite Vs; apply in_or_app; right; left; reflexivity | exact Ra | exact Up | exact Np].
  Qed.

  (* ---------- why a directory is pruned *)
  Section Reasons.
    Variable init : tourist.
    Hypothesis init_c : CInv init.
    Hypothesis init_ad : ADInv init.

    Inductive reach : tourist -> Prop :=
    | reach0 : reach init
    | reachS t : reach t -> reach (step' t).

    Lemma reach_inv t : reach t -> CInv t /\ ADInv t.
    Proof. induction 1 as [|t _ (C & A)]; [split; assumption|]. split; [apply step_cinv; exact C | apply step_adinv; assumption]. Qed.

    (* the filter of a state of the walk is the initial filter plus every file discovered so far, in order *)
    Lemma reach_filter t : reach t ->
      exists l, t_files t = t_files init ++ l /\ t_filter t = fold_left add_file (map (as_ifile content) l) (t_filter init).
    Proof.
      induction 1 as [|t _ (l & A & B)]; [exists []; split; [rewrite app_nil_r; reflexivity | reflexivity]|].
      destruct (step_grows t) as (l' & A' & B'). exists (l ++ l'). split.
      - rewrite A', A. rewrite app_assoc. reflexivity.
      - rewrite B', B. rewrite map_app, fold_left_app. reflexivity.
    Qed.

    (* a VCS metadata directory (repaired code), unrelated to the explicit watches, or -- when it was about to be visited -- ignored
       by the filter the walk had built by then, which held every ignore file of every directory above it (never the origin itself in
       the repaired code); as pinned
       (defer = false) also: ignored by the filter as it was while its parent was being listed *)
    Definition Reason (p : string) : Prop :=
      (hard && vcs_dir p = true /\ exists p0, (p0 = base \/ rdir p0) /\ In (p, KDir) (children fs p0)) \/
      (watch_related watches p = false /\ (p = base \/ rdir p)) \/
      (exists t0, reach t0 /\ In p (t_visit t0) /\ check_dir gm true (t_filter t0) p = false /\ (orig = true -> p <> base) /\
                  forall a, rdir a -> is_under a p = true -> a <> p -> Done t0 a) \/
      (defer = false /\ exists t0, reach t0 /\ check_dir gm true (t_filter t0) p = false).

    Lemma ec_body_reason tr p0 t0 e :
      reach tr -> (p0 = base \/ rdir p0) -> In e (children fs p0) ->
      t_filter t0 = t_filter tr -> (forall p, In p (t_skip t0) -> Reason p) ->
      t_filter (ec_body t0 e) = t_filter tr /\ forall p, In p (t_skip (ec_body t0 e)) -> Reason p.
    Proof.
      intros Hr Hp0 He F I. unfold ec_body. cbv zeta. destruct (must_skip base (t_skip t0) (fst e)); [split; assumption|].
      destruct (snd e) eqn:K; [|split; assumption|split; assumption].
      destruct ((hard && vcs_dir (fst e)) || (negb defer && negb (check_dir gm true (t_filter t0) (fst e)))) eqn:Cn; [|split; assumption].
      split; [exact F|]. intros p [<-|Hp]; [|apply I; exact Hp].
      apply orb_true_iff in Cn. destruct Cn as [Cn|Cn].
      - left. split; [exact Cn|]. exists p0. split; [exact Hp0|]. rewrite <- K. destruct e; exact He.
      - apply andb_true_iff in Cn. destruct Cn as [Df Cn].
        right. right. right. split; [destruct defer; [discriminate Df | reflexivity]|].
        exists tr. split; [exact Hr|]. rewrite <- F. apply negb_true_iff. exact Cn.
    Qed.

    Lemma ec_fold_reason tr p0 l : forall t0,
      reach tr -> (p0 = base \/ rdir p0) -> (forall e, In e l -> In e (children fs p0)) ->
      t_filter t0 = t_filter tr -> (forall p, In p (t_skip t0) -> Reason p) ->
      forall p, In p (t_skip (fold_left ec_body l t0)) -> Reason p.
    Proof.
      induction l as [|e r IH]; intros t0 Hr Hp0 Sub F I; cbn [fold_left]; [exact I|].
      destruct (ec_body_reason tr p0 t0 e Hr Hp0 (Sub e (or_introl eq_refl)) F I) as (F1 & I1).
      exact (IH _ Hr Hp0 (fun e' H => Sub e' (or_intror H)) F1 I1).
    Qed.

    Lemma step_reason t : reach t -> (forall p, In p (t_skip t) -> Reason p) -> forall p, In p (t_skip (step' t)) -> Reason p.
    Proof.
      intros Hr I. destruct (reach_inv t Hr) as ((V & _ & _) & AD). unfold step. destruct (rev (t_visit t)) as [|p0 rr] eqn:R; [exact I|].
      assert (t_visit t = rev rr ++ [p0]) as Vs by (rewrite <- (rev_involutive (t_visit t)), R; reflexivity).
      assert (In p0 (t_visit t)) as In0 by (rewrite Vs; apply in_or_app; right; left; reflexivity).
      set (t1 := mkT (rev rr) (t_skip t) (t_filter t) (t_files t)). cbv zeta.
      destruct (must_skip base (t_skip t1) p0); [exact I|].
      destruct (negb (orig && String.eqb p0 base) && negb (check_dir gm true (t_filter t1) p0)) eqn:Cd.
      { intros p [<-|Hp]; [|apply I; exact Hp]. apply andb_true_iff in Cd. destruct Cd as [Co Cd].
        right. right. left. exists t. split; [exact Hr|]. split; [exact In0|]. split; [apply negb_true_iff; exact Cd|].
        split; [intros -> ->; rewrite String.eqb_refl in Co; discriminate Co|].
        apply AD. exact In0. }
      destruct (negb (watch_related watches p0)) eqn:W.
      { intros p [<-|Hp]; [|apply I; exact Hp]. right. left. split; [apply negb_true_iff; exact W | apply V; exact In0]. }
      destruct (fs_get fs p0) as [[| |]|]; [|exact I|exact I|exact I].
      rewrite enum_children_fold. intros p Hp.
      destruct (discover_in_shape content fs p0 (fold_left ec_body (children fs p0) t1)) as (_ & S3 & _). rewrite S3 in Hp.
      exact (ec_fold_reason t p0 (children fs p0) t1 Hr (V p0 In0) (fun e H => H) eq_refl I p Hp).
    Qed.

    Lemma run_reach n : forall t, reach t -> reach (run' n t).
    Proof. induction n as [|n IH]; intros t H; cbn [run]; [exact H|]. destruct (t_visit t); [exact H|]. apply IH. apply reachS. exact H. Qed.

    Lemma run_reason n : forall t, reach t -> (forall p, In p (t_skip t) -> Reason p) -> forall p, In p (t_skip (run' n t)) -> Reason p.
    Proof.
      induction n as [|n IH]; intros t Hr I; cbn [run]; [exact I|]. destruct (t_visit t); [exact I|].
      apply IH; [apply reachS; exact Hr | apply step_reason; assumption].
    Qed.
  End Reasons.

  Lemma init_adinv filt files : ADInv (mkT [base] [] filt files).
  Proof.
    intros q [<-|[]] a Ra Ua Ne. exfalso. apply Ne. apply is_under_antisym; [exact Ua | apply rdir_under_base; exact Ra].
  Qed.

  Theorem pruned_for_a_reason n filt files p :
    let init := mkT [base] [] filt files in
    In p (t_skip (run' n init)) -> Reason init p.
  Proof.
    intros init H. apply (run_reason init (init_cinv filt files) (init_adinv filt files) n init (reach0 init)); [intros q []|exact H].
  Qed.

  (* ---------- the stack runs empty within the fuel from_origin provides *)
  Inductive anti : list string -> Prop :=
  | anti_nil : anti []
  | anti_cons a l : (forall b, In b l -> is_under a b = false /\ is_under b a = false) -> anti l -> anti (a :: l).

  Lemma anti_filter f l : anti l -> anti (filter f l).
  Proof.
    induction 1 as [|a l H _ IH]; cbn [filter]; [constructor|]. destruct (f a); [|exact IH].
    constructor; [|exact IH]. intros b Hb. apply filter_In in Hb. apply H. apply Hb.
  Qed.

  Lemma anti_snoc l c : anti l -> (forall b, In b l -> is_under b c = false /\ is_under c b = false) -> anti (l ++ [c]).
  Proof.
    induction 1 as [|a l H A IH]; intro Hc; cbn [app]; [constructor; [intros b []|constructor]|].
    constructor; [|apply IH; intros b Hb; apply Hc; right; exact Hb].
    intros b Hb. apply in_app_or in Hb. destruct Hb as [Hb|[<-|[]]]; [apply H; exact Hb | apply Hc; left; reflexivity].
  Qed.

  Lemma anti_snoc_inv l c : anti (l ++ [c]) -> anti l /\ forall b, In b l -> is_under b c = false /\ is_under c b = false.
  Proof.
    induction l as [|a l IH]; cbn [app]; intro H; [split; [constructor | intros b []]|].
    inversion H as [|a' l' Ha A]; subst. destruct (IH A) as (A' & Hc). split.
    - constructor; [|exact A']. intros b Hb. apply Ha. apply in_or_app. left. exact Hb.
    - intros b [<-|Hb]; [apply Ha; apply in_or_app; right; left; reflexivity | apply Hc; exact Hb].
  Qed.

  Definition covered (V : list string) (e : string * fkind) : bool := existsb (fun q => is_under q (fst e)) V.
  Definition M (t : tourist) : nat := List.length (filter (covered (t_visit t)) fs).

  Lemma filter_length_lt {A} (f g : A -> bool) (l : list A) x :
    (forall a, In a l -> f a = true -> g a = true) -> In x l -> g x = true -> f x = false ->
    List.length (filter f l) < List.length (filter g l).
  Proof.
    induction l as [|a l IH]; intros Imp Hx Gx Fx; [destruct Hx|].
    assert (List.length (filter f l) <= List.length (filter g l)) as Le.
    { clear - Imp. induction l as [|b l IH]; [apply le_n|]. cbn [filter].
      assert (forall a0, In a0 (a :: l) -> f a0 = true -> g a0 = true) as Imp' by (intros a0 [<-|H]; apply Imp; [left; reflexivity | right; right; exact H]).
      specialize (IH Imp'). pose proof (Imp b (or_intror (or_introl eq_refl))) as Ib.
      destruct (f b); [rewrite (Ib eq_refl); cbn [List.length]; lia | destruct (g b); cbn [List.length]; lia]. }
    cbn [filter]. destruct Hx as [->|Hx].
    - rewrite Fx, Gx. cbn [List.length]. lia.
    - assert (List.length (filter f l) < List.length (filter g l)) as Lt by (apply IH; [intros a0 H; apply Imp; right; exact H | exact Hx | exact Gx | exact Fx]).
      pose proof (Imp a (or_introl eq_refl)) as Ia. destruct (f a); [rewrite (Ia eq_refl); cbn [List.length]; lia | destruct (g a); cbn [List.length]; lia].
  Qed.

  Definition TInv (t : tourist) : Prop :=
    anti (t_visit t) /\ (forall q, In q (t_visit t) -> absolute q /\ exists k, In (q, k) fs).

  (* what is on the stack after a turn that popped p0: older entries, or entries strictly below p0 *)
  Lemma M_decrease rest p0 k V' :
    anti (rest ++ [p0]) -> absolute p0 -> In (p0, k) fs ->
    (forall q, In q V' -> In q rest \/ (is_under p0 q = true /\ q <> p0)) ->
    List.length (filter (covered V') fs) < List.length (filter (covered (rest ++ [p0])) fs).
  Proof.
    intros A Ap Hk Sub. destruct (anti_snoc_inv rest p0 A) as (_ & Inc).
    apply (filter_length_lt _ _ fs (p0, k)); [|exact Hk| |].
    - intros a _ H. unfold covered in *. apply existsb_exists in H. destruct H as (q & Hq & Uq). apply existsb_exists.
      destruct (Sub q Hq) as [Hr|[Up _]].
      + exists q. split; [apply in_or_app; left; exact Hr | exact Uq].
      + exists p0. split; [apply in_or_app; right; left; reflexivity|].
        apply (is_under_trans p0 q (fst a)); [apply absolute_nonempty; exact Ap | exact Up | exact Uq].
    - unfold covered. apply existsb_exists. exists p0. split; [apply in_or_app; right; left; reflexivity | apply is_under_refl].
    - unfold covered. cbn [fst]. apply not_true_is_false. intro H. apply existsb_exists in H. destruct H as (q & Hq & Uq).
      destruct (Sub q Hq) as [Hr|[Up Ne]].
      + destruct (Inc q Hr) as [X _]. rewrite X in Uq. discriminate Uq.
      + apply Ne. apply is_under_antisym; assumption.
  Qed.

  Lemma nodup_map_filter {A B} (f : A -> B) g (l : list A) : NoDup (map f l) -> NoDup (map f (filter g l)).
  Proof.
    induction l as [|a l IH]; cbn [map filter]; intro H; [constructor|]. inversion H as [|x l' Hn Hd]; subst.
    destruct (g a); [|apply IH; exact Hd]. cbn [map]. constructor; [|apply IH; exact Hd].
    intro X. apply Hn. apply in_map_iff in X. destruct X as (y & Ey & Hy). apply filter_In in Hy. apply in_map_iff. exists y. split; [exact Ey | apply Hy].
  Qed.

  Lemma siblings_incomparable p b c :
    absolute p -> In b (map fst (children fs p)) -> In c (map fst (children fs p)) -> b <> c -> is_under b c = false.
  Proof.
    intros Ap Hb Hc Ne. apply in_map_iff in Hb. destruct Hb as (eb & <- & Hb). apply in_map_iff in Hc. destruct Hc as (ec & <- & Hc).
    apply not_true_is_false. intro U. destruct (cp p eb Hb) as [_ Ab]. destruct (cp p ec Hc) as [Pc _].
    pose proof (under_parent (fst eb) (fst ec) p Ab U Ne Pc) as Up.
    destruct (child_under p eb Ap Hb) as [Ub Nb]. apply Nb. apply is_under_antisym; assumption.
  Qed.

  Lemma ec_fold_anti rest p0 :
    anti (rest ++ [p0]) -> absolute p0 -> (forall q, In q rest -> absolute q) ->
    forall l t0, NoDup (map fst l) -> (forall e, In e l -> In e (children fs p0)) -> anti (t_visit t0) ->
      (forall q, In q (t_visit t0) -> In q rest \/ (In q (map fst (children fs p0)) /\ ~ In q (map fst l))) ->
      let t' := fold_left ec_body l t0 in
      anti (t_visit t') /\ forall q, In q (t_visit t') -> In q rest \/ In q (map fst (children fs p0)).
  Proof.
    intros A Ap Ar. destruct (anti_snoc_inv rest p0 A) as (_ & Inc).
    induction l as [|e r IH]; intros t0 ND Sub A0 I0; cbn [fold_left]; cbv zeta.
    - split; [exact A0|]. intros q Hq. destruct (I0 q Hq) as [H|[H _]]; [left | right]; exact H.
    - cbn [map] in ND. inversion ND as [|x l' Hn Hd]; subst.
      assert (In e (children fs p0)) as He by (apply Sub; left; reflexivity).
      assert (forall q, In q (t_visit t0) -> In q rest \/ (In q (map fst (children fs p0)) /\ ~ In q (map fst r))) as I0'.
      { intros q Hq. destruct (I0 q Hq) as [H|[H N]]; [left; exact H | right; split; [exact H | intro X; apply N; right; exact X]]. }
      apply IH; [exact Hd | intros e' H; apply Sub; right; exact H | |].
      + unfold ec_body. cbv zeta. destruct (must_skip base (t_skip t0) (fst e)); [exact A0|].
        destruct (snd e); [|exact A0|exact A0].
        destruct ((hard && vcs_dir (fst e)) || (negb defer && negb (check_dir gm true (t_filter t0) (fst e)))); [apply anti_filter; exact A0|].
        cbn [t_visit]. apply anti_snoc; [exact A0|]. intros b Hb.
        destruct (child_under p0 e Ap He) as [Uc Nc]. destruct (cp p0 e He) as [Pc Ac].
        destruct (I0 b Hb) as [Hr|[Hc Nn]].
        * destruct (Inc b Hr) as [X Y]. split; apply not_true_is_false; intro U.
          -- assert (b <> fst e) as Ne by (intros ->; rewrite Uc in Y; discriminate Y).
             pose proof (under_parent b (fst e) p0 (Ar b Hr) U Ne Pc) as Ub. rewrite Ub in X. discriminate X.
          -- assert (is_under p0 b = true) as Ub by (apply (is_under_trans p0 (fst e) b); [apply absolute_nonempty; exact Ap | exact Uc | exact U]).
             rewrite Ub in Y. discriminate Y.
        * assert (b <> fst e) as Ne by (intros ->; apply Nn; left; reflexivity).
          assert (In (fst e) (map fst (children fs p0))) as Hce by (apply in_map; exact He).
          split; [apply (siblings_incomparable p0); assumption | apply (siblings_incomparable p0); [assumption | assumption | assumption | intro X; apply Ne; symmetry; exact X]].
      + intros q Hq. unfold ec_body in Hq. cbv zeta in Hq. destruct (must_skip base (t_skip t0) (fst e)); [apply I0'; exact Hq|].
        destruct (snd e); [|apply I0'; exact Hq|apply I0'; exact Hq].
        destruct ((hard && vcs_dir (fst e)) || (negb defer && negb (check_dir gm true (t_filter t0) (fst e)))).
        * unfold do_skip in Hq. cbn [t_visit] in Hq. apply filter_In in Hq. apply I0'. apply Hq.
        * cbn [t_visit] in Hq. apply in_app_or in Hq. destruct Hq as [Hq|[<-|[]]]; [apply I0'; exact Hq|].
          right. split; [apply in_map; exact He | exact Hn].
  Qed.

  Lemma step_tinv t : TInv t -> t_visit t <> [] -> TInv (step' t) /\ M (step' t) < M t.
  Proof.
    intros (A & E) Ne. unfold step, M. destruct (rev (t_visit t)) as [|p0 rr] eqn:R.
    { exfalso. apply Ne. rewrite <- (rev_involutive (t_visit t)), R. reflexivity. }
    assert (t_visit t = rev rr ++ [p0]) as Vs by (rewrite <- (rev_involutive (t_visit t)), R; reflexivity).
    set (rest := rev rr) in *. rewrite Vs in A.
    destruct (anti_snoc_inv rest p0 A) as (Ar & Inc).
    destruct (E p0) as (Ap0 & k0 & Hk0); [rewrite Vs; apply in_or_app; right; left; reflexivity|].
    assert (forall q, In q rest -> absolute q /\ exists k, In (q, k) fs) as Er by (intros q Hq; apply E; rewrite Vs; apply in_or_app; left; exact Hq).
    set (t1 := mkT rest (t_skip t) (t_filter t) (t_files t)). rewrite Vs.
    (* every way the turn can end leaves a stack of older entries and entries strictly below p0 *)
    assert (forall t', anti (t_visit t') -> (forall q, In q (t_visit t') -> absolute q /\ exists k, In (q, k) fs) ->
                       (forall q, In q (t_visit t') -> In q rest \/ (is_under p0 q = true /\ q <> p0)) ->
                       TInv t' /\ List.length (filter (covered (t_visit t')) fs) < List.length (filter (covered (rest ++ [p0])) fs)) as Fin.
    { intros t' A' E' S'. split; [split; assumption|]. exact (M_decrease rest p0 k0 (t_visit t') A Ap0 Hk0 S'). }
    assert (TInv t1 /\ List.length (filter (covered (t_visit t1)) fs) < List.length (filter (covered (rest ++ [p0])) fs)) as F1
      by (apply Fin; [exact Ar | exact Er | intros q Hq; left; exact Hq]).
    assert (TInv (do_skip t1 p0) /\ List.length (filter (covered (t_visit (do_skip t1 p0))) fs) < List.length (filter (covered (rest ++ [p0])) fs)) as F2.
    { apply Fin; unfold do_skip; cbn [t_visit t1]; [apply anti_filter; exact Ar | intros q Hq; apply filter_In in Hq; apply Er; apply Hq
                                                    | intros q Hq; apply filter_In in Hq; left; apply Hq]. }
    cbv zeta. destruct (must_skip base (t_skip t1) p0); [exact F1|].
    destruct (negb (orig && String.eqb p0 base) && negb (check_dir gm true (t_filter t1) p0)); [exact F2|].
    destruct (negb (watch_related watches p0)); [exact F2|].
    destruct (fs_get fs p0) as [[| |]|]; [|exact F1|exact F1|exact F1].
    rewrite enum_children_fold.
    destruct (discover_in_shape content fs p0 (fold_left ec_body (children fs p0) t1)) as (V3 & _ & _).
    assert (NoDup (map fst (children fs p0))) as NDc by (unfold children; apply nodup_map_filter; exact fs_nodup).
    destruct (ec_fold_anti rest p0 A Ap0 (fun q Hq => proj1 (Er q Hq)) (children fs p0) t1 NDc (fun e H => H) Ar) as (A2 & S2).
    { intros q Hq. left. exact Hq. }
    apply Fin; rewrite V3.
    - exact A2.
    - intros q Hq. destruct (S2 q Hq) as [H|H]; [apply Er; exact H|].
      apply in_map_iff in H. destruct H as (e & <- & He). split; [exact (proj2 (cp p0 e He))|]. exists (snd e). rewrite <- surjective_pairing. apply (children_in p0). exact He.
    - intros q Hq. destruct (S2 q Hq) as [H|H]; [left; exact H|]. right.
      apply in_map_iff in H. destruct H as (e & <- & He). exact (child_under p0 e Ap0 He).
  Qed.

  Lemma M_pos t : TInv t -> t_visit t <> [] -> 1 <= M t.
  Proof.
    intros (_ & E) Ne. destruct (t_visit t) as [|q l] eqn:V; [contradiction|]. destruct (E q (or_introl eq_refl)) as (_ & k & Hk).
    unfold M. rewrite V. assert (In (q, k) (filter (covered (q :: l)) fs)) as H.
    { apply filter_In. split; [exact Hk|]. unfold covered. cbn [existsb fst]. rewrite is_under_refl. reflexivity. }
    destruct (filter (covered (q :: l)) fs); [destruct H | cbn [List.length]; lia].
  Qed.

  Lemma run_empties n : forall t, TInv t -> M t <= n -> t_visit (run' n t) = [].
  Proof.
    induction n as [|n IH]; intros t I Le; cbn [run].
    - destruct (t_visit t) as [|q l] eqn:V; [reflexivity|]. exfalso.
      assert (t_visit t <> []) as Ne by (rewrite V; discriminate). pose proof (M_pos t I Ne). lia.
    - destruct (t_visit t) as [|q l] eqn:V; [exact V|].
      assert (t_visit t <> []) as Ne by (rewrite V; discriminate).
      destruct (step_tinv t I Ne) as (I' & Lt). apply IH; [exact I' | lia].
  Qed.

  Lemma fs_get_in p k : fs_get fs p = Some k -> In (p, k) fs.
  Proof.
    clear. induction fs as [|[q k0] r IH]; cbn [fs_get]; intro H; [discriminate|].
    destruct (String.eqb p q) eqn:E; [apply String.eqb_eq in E; subst q; injection H as ->; left; reflexivity | right; apply IH; exact H].
  Qed.

  Lemma filter_length_le {A} (f : A -> bool) l : List.length (filter f l) <= List.length l.
  Proof. induction l as [|a l IH]; [apply le_n|]. cbn [filter]. destruct (f a); cbn [List.length]; lia. Qed.

  (* from_origin gives the walk S (length fs) turns: enough *)
  Theorem walk_terminates filt files : t_visit (run' (S (List.length fs)) (mkT [base] [] filt files)) = [].
  Proof.
    destruct (fs_get fs base) as [k|] eqn:G.
    - apply run_empties.
      + split; [constructor; [intros b []|constructor]|]. intros q [<-|[]]. split; [exact base_abs|]. exists k. apply fs_get_in. exact G.
      + unfold M. pose proof (filter_length_le (covered (t_visit (mkT [base] [] filt files))) fs). lia.
    - cbn [run t_visit]. unfold step. cbn [t_visit rev app t_skip t_filter t_files]. rewrite G.
      destruct (must_skip base [] base); [destruct (List.length fs); reflexivity|].
      destruct (negb (orig && String.eqb base base) && negb (check_dir gm true filt base)); [unfold do_skip; cbn [t_visit filter]; destruct (List.length fs); reflexivity|].
      destruct (negb (watch_related watches base)); [unfold do_skip; cbn [t_visit filter]; destruct (List.length fs); reflexivity|].
      destruct (List.length fs); reflexivity.
  Qed.

  (* ---------- what one turn adds: nothing, or exactly the ignore files of the directory it visits, in the order of the lookups *)
  Definition dirfiles (k : string) : list dfile :=
    flat_map (fun nt => if find_file fs (join k (fst nt)) then [mkDf (join k (fst nt)) (Some k) (snd nt)] else []) dir_files.

  Lemma discover_in_exact dir t :
    t_files (discover_in content fs dir t) = t_files t ++ dirfiles dir /\
    t_filter (discover_in content fs dir t) = fold_left add_file (map (as_ifile content) (dirfiles dir)) (t_filter t).
  Proof.
    unfold discover_in, dirfiles. generalize dir_files. intro l0. revert t.
    induction l0 as [|nt r IH]; intro t; cbn [fold_left flat_map]; [split; [rewrite app_nil_r; reflexivity | reflexivity]|].
    destruct (find_file fs (join dir (fst nt))); [|cbn [app]; apply IH].
    destruct (IH (mkT (t_visit t) (t_skip t) (add_file (t_filter t) (as_ifile content (mkDf (join dir (fst nt)) (Some dir) (snd nt))))
                      (t_files t ++ [mkDf (join dir (fst nt)) (Some dir) (snd nt)]))) as (A & B).
    cbn [t_files t_filter] in A, B. cbv zeta. split.
    - rewrite A. rewrite <- app_assoc. reflexivity.
    - rewrite B. reflexivity.
  Qed.

  (* the turn that visits a directory *)
  Definition visits (t : tourist) (p0 : string) (rest : list string) : Prop :=
    t_visit t = rest ++ [p0] /\ must_skip base (t_skip t) p0 = false /\
    (orig && String.eqb p0 base) || check_dir gm true (t_filter t) p0 = true /\
    watch_related watches p0 = true /\ fs_get fs p0 = Some KDir.

  Lemma step_cases t :
    (t_files (step' t) = t_files t /\ t_filter (step' t) = t_filter t /\
     forall q, In q (t_visit (step' t)) -> In q (t_visit t)) \/
    (exists p0 rest, visits t p0 rest /\
       t_files (step' t) = t_files t ++ dirfiles p0 /\
       t_filter (step' t) = fold_left add_file (map (as_ifile content) (dirfiles p0)) (t_filter t) /\
       forall q, In q (t_visit (step' t)) -> In q rest \/ In (q, KDir) (children fs p0)).
  Proof.
    unfold step. destruct (rev (t_visit t)) as [|p0 rr] eqn:R; [left; split; [reflexivity|]; split; [reflexivity | intros q H; exact H]|].
    assert (t_visit t = rev rr ++ [p0]) as Vs by (rewrite <- (rev_involutive (t_visit t)), R; reflexivity).
    set (t1 := mkT (rev rr) (t_skip t) (t_filter t) (t_files t)). cbv zeta.
    assert (forall q, In q (rev rr) -> In q (t_visit t)) as Sub by (intros q H; rewrite Vs; apply in_or_app; left; exact H).
    assert (forall q, In q (t_visit (do_skip t1 p0)) -> In q (t_visit t)) as Sub2
      by (intros q H; unfold do_skip in H; cbn [t_visit t1] in H; apply filter_In in H; apply Sub; apply H).
    destruct (must_skip base (t_skip t1) p0) eqn:MS; [left; split; [reflexivity|]; split; [reflexivity | exact Sub]|].
    destruct (negb (orig && String.eqb p0 base) && negb (check_dir gm true (t_filter t1) p0)) eqn:Cd;
      [left; split; [reflexivity|]; split; [reflexivity | exact Sub2]|].
    destruct (negb (watch_related watches p0)) eqn:W; [left; split; [reflexivity|]; split; [reflexivity | exact Sub2]|].
    destruct (fs_get fs p0) as [[| |]|] eqn:G; [|left; split; [reflexivity|]; split; [reflexivity | exact Sub]..].
    right. exists p0, (rev rr). split.
    { split; [exact Vs|]. split; [exact MS|]. split; [|split; [apply negb_false_iff; exact W | exact G]].
      cbn [t_filter t1] in Cd. destruct (orig && String.eqb p0 base); [reflexivity|]. cbn [negb andb orb] in *. apply negb_false_iff. exact Cd. }
    rewrite enum_children_fold. destruct (ec_fold_same (children fs p0) t1) as (A & B).
    destruct (discover_in_exact p0 (fold_left ec_body (children fs p0) t1)) as (C & D). rewrite A in C. rewrite B in D.
    split; [exact C|]. split; [exact D|].
    intros q Hq. destruct (discover_in_shape content fs p0 (fold_left ec_body (children fs p0) t1)) as (V3 & _ & _). rewrite V3 in Hq.
    destruct (ec_fold_visit _ _ _ Hq) as [H|H]; [left; exact H | right; exact H].
  Qed.

  (* completeness for the walk as from_origin runs it *)
  Theorem walk_complete_from_origin filt files :
    let t := run' (S (List.length fs)) (mkT [base] [] filt files) in
    forall d, rdir d ->
      (forall nt, In nt dir_files -> find_file fs (join d (fst nt)) = true -> In (mkDf (join d (fst nt)) (Some d) (snd nt)) (t_files t)) \/
      (exists p, is_under p d = true /\ In p (t_skip t) /\ Reason (mkT [base] [] filt files) p).
  Proof.
    intros t d Hd. destruct (walk_complete (S (List.length fs)) filt files (walk_terminates filt files) d Hd) as [D|(p & Hp & Up)].
    - left. exact D.
    - right. exists p. split; [exact Up|]. split; [exact Hp|]. exact (pruned_for_a_reason _ filt files p Hp).
  Qed.

  (* ====================================================================================================================
     The exact result, independent of the order in which directories are listed (repaired code).
     A directory is OPEN when it and every directory above it (down from the origin) passes: it is related to the watches, is not
     a VCS metadata directory and -- unless it is the origin -- is not ignored by the filter made of the base files and the
     ignore files of the directories above it.  The walk returns exactly the ignore files of the open reachable directories. *)
  Section Order.
    Hypothesis rep_h : hard = true.
    Hypothesis rep_d : defer = true.
    Hypothesis rep_o : orig = true.
    Hypothesis base_dir : fs_get fs base = Some KDir.
    Variable B : list ifile.
    Hypothesis B_abs : forall d l, In (Some d, l) B -> absolute d.
    Variable files0 : list dfile.

    Definition ink (k : string) (f : dfile) : bool := match d_in f with Some d => String.eqb d k | None => false end.
    Definition anc (a : string) : list string :=
      filter (fun k => is_under base k && negb (String.eqb k a)) (ancestors_of (S (String.length a)) a).
    Definition above_files (a : string) : list dfile := flat_map dirfiles (anc a).
    Definition Fc (a : string) : ifilter := filter_new base (B ++ map (as_ifile content) (above_files a)).
    Definition pass (a : string) : bool :=
      (String.eqb a base || check_dir gm true (Fc a) a) && watch_related watches a && (String.eqb a base || negb (vcs_dir a)).
    Definition Open (d : string) : Prop := forall a, In a (d :: anc d) -> pass a = true.

    (* ---- small facts *)
    Lemma dirfiles_in k f : In f (dirfiles k) -> d_in f = Some k.
    Proof.
      unfold dirfiles. intro H. apply in_flat_map in H. destruct H as (nt & _ & H).
      destruct (find_file fs (join k (fst nt))); [destruct H as [<-|[]]; reflexivity | destruct H].
    Qed.

    Lemma dirfiles_ink k k' : filter (ink k) (dirfiles k') = if String.eqb k' k then dirfiles k' else [].
    Proof.
      destruct (String.eqb k' k) eqn:E.
      - apply filter_all. intros f Hf. unfold ink. rewrite (dirfiles_in k' f Hf). exact E.
      - apply filter_none. intros f Hf. unfold ink. rewrite (dirfiles_in k' f Hf). exact E.
    Qed.

    Lemma flat_dirfiles_ink k L : NoDup L -> filter (ink k) (flat_map dirfiles L) = if mem_str k L then dirfiles k else [].
    Proof.
      induction L as [|x L IH]; intro ND; cbn [flat_map mem_str]; [reflexivity|]. inversion ND as [|y l' Hn Hd]; subst.
      rewrite filter_app, dirfiles_ink, (IH Hd). rewrite (String.eqb_sym k x).
      destruct (String.eqb x k) eqn:E.
      - apply String.eqb_eq in E. subst x. assert (mem_str k L = false) as -> by (apply not_true_is_false; intro X; apply mem_str_In in X; contradiction).
        cbn [orb]. apply app_nil_r.
      - cbn [orb app]. reflexivity.
    Qed.

    Lemma ancestors_nodup n : forall a, absolute a -> NoDup (ancestors_of n a).
    Proof.
      induction n as [|n IH]; intros a Aa; cbn [ancestors_of]; [constructor|].
      destruct (path_parent a) as [q|] eqn:P; [|constructor; [intros []|constructor]].
      constructor; [|apply IH; exact (proj1 (parent_absolute a q Aa P))].
      intro H. pose proof (chain_tail_shorter n a q a Aa P H). lia.
    Qed.

    Lemma anc_nodup a : absolute a -> NoDup (anc a).
    Proof. intro Aa. unfold anc. apply NoDup_filter. apply ancestors_nodup. exact Aa. Qed.

    Lemma anc_spec a k : absolute a ->
      (In k (anc a) <-> absolute k /\ is_under k a = true /\ is_under base k = true /\ k <> a).
    Proof.
      intro Aa. unfold anc. rewrite filter_In. split.
      - intros (H & C). apply andb_true_iff in C. destruct C as [C1 C2]. apply negb_true_iff in C2. apply String.eqb_neq in C2.
        destruct (chain_props _ a k Aa H) as (Ak & Uk & _). repeat split; assumption.
      - intros (Ak & Uk & Ub & Ne). split; [apply chain_complete; [lia | exact Aa | exact Ak | exact Uk]|].
        rewrite Ub. cbn [andb]. apply negb_true_iff. apply String.eqb_neq. exact Ne.
    Qed.

    (* a strict ancestor (below the origin) of a reachable directory is reachable *)
    Lemma rdir_anc d : rdir d -> forall k, In k (anc d) -> rdir k.
    Proof.
      induction 1 as [Hb|d c Hd IH Hc]; intros k Hk.
      - apply (anc_spec base k base_abs) in Hk. destruct Hk as (_ & U1 & U2 & Ne). exfalso. apply Ne. apply is_under_antisym; assumption.
      - destruct (cp d (c, KDir) Hc) as [Pc Ac]. cbn [fst] in Pc, Ac.
        apply (anc_spec c k Ac) in Hk. destruct Hk as (Ak & U1 & U2 & Ne).
        pose proof (under_parent k c d Ak U1 Ne Pc) as Ud.
        destruct (string_dec k d) as [->|Nd]; [exact Hd|].
        apply IH. apply (anc_spec d k (rdir_abs d Hd)). repeat split; assumption.
    Qed.

    (* the directories above a child: its parent and those above the parent *)
    Lemma anc_child p0 c k : (p0 = base \/ rdir p0) -> In (c, KDir) (children fs p0) -> In k (anc c) -> k = p0 \/ In k (anc p0).
    Proof.
      intros Hp Hc Hk. assert (absolute p0) as Ap by (destruct Hp as [->|H]; [exact base_abs | apply rdir_abs; exact H]).
      destruct (cp p0 (c, KDir) Hc) as [Pc Ac]. cbn [fst] in Pc, Ac.
      apply (anc_spec c k Ac) in Hk. destruct Hk as (Ak & U1 & U2 & Ne).
      pose proof (under_parent k c p0 Ak U1 Ne Pc) as Ud.
      destruct (string_dec k p0) as [->|Nd]; [left; reflexivity|]. right.
      apply (anc_spec p0 k Ap). repeat split; assumption.
    Qed.

    (* ---- the invariant of the walk's states *)
    Definition OInv (t : tourist) : Prop :=
      exists l,
        t_files t = files0 ++ l /\
        t_filter t = filter_new base (B ++ map (as_ifile content) l) /\
        (forall f, In f l -> exists d, In f (dirfiles d) /\ rdir d /\ Open d) /\
        (forall k, filter (ink k) l = [] \/ forall q, In q (t_visit t) -> is_under q k = false) /\
        (forall q, In q (t_visit t) -> rdir q /\ (forall a, In a (anc q) -> pass a = true) /\ (q = base \/ vcs_dir q = false)) /\
        (forall q, In q (t_visit t) -> forall k, In k (anc q) -> filter (ink k) l = dirfiles k).

    Lemma globs_for_dfiles k (L : list dfile) :
      (forall f, In f L -> exists d, d_in f = Some d) ->
      globs_for k (map (as_ifile content) L) = globs_for k (map (as_ifile content) (filter (ink k) L)).
    Proof.
      intro H. rewrite (globs_for_filter k (map (as_ifile content) L)). f_equal.
      induction L as [|f L IH]; cbn [map filter]; [reflexivity|].
      assert (forall f0, In f0 L -> exists d, d_in f0 = Some d) as H' by (intros f0 H0; apply H; right; exact H0).
      destruct (H f (or_introl eq_refl)) as (d & Ed).
      assert (file_key (as_ifile content f) = d) as -> by (unfold file_key, as_ifile; cbn [fst]; rewrite Ed; reflexivity).
      assert (ink k f = String.eqb d k) as -> by (unfold ink; rewrite Ed; reflexivity).
      destruct (String.eqb d k); cbn [map]; rewrite (IH H'); reflexivity.
    Qed.

    (* the filter of a state decides about a directory waiting on the stack as the filter of the files above it does *)
    Lemma filter_as_above t a : TInv t -> OInv t -> In a (t_visit t) ->
      check_dir gm true (t_filter t) a = check_dir gm true (Fc a) a.
    Proof.
      intros (_ & E) (l & _ & F & W & G & V5 & V6) Ha. rewrite F. unfold Fc.
      destruct (V5 a Ha) as (Ra & _ & _). pose proof (rdir_abs a Ra) as Aa.
      apply check_dir_keys; [exact Aa| | |].
      - intros d ls H. apply in_app_or in H. destruct H as [H|H]; [exact (B_abs d ls H)|].
        apply in_map_iff in H. destruct H as (f & Ef & Hf). destruct (W f Hf) as (d0 & Hd0 & Rd0 & _).
        unfold as_ifile in Ef. rewrite (dirfiles_in d0 f Hd0) in Ef. injection Ef as <- _. apply rdir_abs. exact Rd0.
      - intros d ls H. apply in_app_or in H. destruct H as [H|H]; [exact (B_abs d ls H)|].
        apply in_map_iff in H. destruct H as (f & Ef & Hf). unfold above_files in Hf. apply in_flat_map in Hf. destruct Hf as (k & Hk & Hf).
        unfold as_ifile in Ef. rewrite (dirfiles_in k f Hf) in Ef. injection Ef as <- _.
        apply (anc_spec a k Aa) in Hk. apply Hk.
      - intros k Hk. rewrite !globs_for_app. f_equal.
        rewrite (globs_for_dfiles k l), (globs_for_dfiles k (above_files a)).
        2:{ intros f Hf. unfold above_files in Hf. apply in_flat_map in Hf. destruct Hf as (k0 & _ & Hf). exists k0. exact (dirfiles_in k0 f Hf). }
        2:{ intros f Hf. destruct (W f Hf) as (d0 & Hd0 & _). exists d0. exact (dirfiles_in d0 f Hd0). }
        f_equal. f_equal. unfold above_files. rewrite (flat_dirfiles_ink k (anc a) (anc_nodup a Aa)).
        destruct (mem_str k (anc a)) eqn:M.
        + apply mem_str_In in M. exact (V6 a Ha k M).
        + (* k is the directory itself, or lies above the origin: nothing of it has been discovered *)
          destruct (string_dec k a) as [->|Nka].
          * destruct (G a) as [Z|Z]; [exact Z|]. pose proof (is_under_refl a) as X. rewrite (Z a Ha) in X. discriminate X.
          * apply filter_none. intros f Hf. destruct (W f Hf) as (d0 & Hd0 & Rd0 & _). unfold ink. rewrite (dirfiles_in d0 f Hd0).
            apply String.eqb_neq. intros ->. 
            assert (In k (anc a)) as X; [|apply mem_str_In in X; rewrite X in M; discriminate M].
            destruct (chain_props _ a k Aa Hk) as (Ak & Uk & _).
            apply (anc_spec a k Aa). repeat split; [exact Ak | exact Uk | apply rdir_under_base; exact Rd0 | exact Nka].
    Qed.

    Lemma init_oinv : OInv (mkT [base] [] (filter_new base B) files0).
    Proof.
      exists []. split; [rewrite app_nil_r; reflexivity|]. split; [cbn [map]; rewrite app_nil_r; reflexivity|].
      split; [intros f []|]. split; [intro k; left; reflexivity|].
      assert (forall a, ~ In a (anc base)) as NoAnc.
      { intros a Ha. apply (anc_spec base a base_abs) in Ha. destruct Ha as (_ & U1 & U2 & Ne). apply Ne. apply is_under_antisym; assumption. }
      split.
      - intros q [<-|[]]. split; [apply rd_base; exact base_dir|]. split; [intros a Ha; destruct (NoAnc a Ha) | left; reflexivity].
      - intros q [<-|[]] k Hk. destruct (NoAnc k Hk).
    Qed.

    Lemma step_oinv t : TInv t -> OInv t -> OInv (step' t).
    Proof.
      intros TI OI. pose proof (fun a => filter_as_above t a TI OI) as K. destruct TI as (A & E). destruct OI as (l & F1 & F2 & W & G & V5 & V6).
      destruct (step_cases t) as [(S1 & S2 & S3)|(p0 & rest & Vis & S1 & S2 & S3)].
      - exists l. split; [rewrite S1; exact F1|]. split; [rewrite S2; exact F2|]. split; [exact W|].
        split; [intro k; destruct (G k) as [Z|Z]; [left; exact Z | right; intros q Hq; apply Z; apply S3; exact Hq]|].
        split; [intros q Hq; apply V5; apply S3; exact Hq | intros q Hq; apply V6; apply S3; exact Hq].
      - destruct Vis as (Vs & MS & Cd & Wr & Gd).
        assert (In p0 (t_visit t)) as In0 by (rewrite Vs; apply in_or_app; right; left; reflexivity).
        destruct (V5 p0 In0) as (Rp0 & Pabove & Vc0). pose proof (rdir_abs p0 Rp0) as Ap0.
        rewrite Vs in A. destruct (anti_snoc_inv rest p0 A) as (_ & Inc).
        assert (forall q, In q rest -> In q (t_visit t)) as Sub by (intros q H; rewrite Vs; apply in_or_app; left; exact H).
        assert (filter (ink p0) l = []) as Z0.
        { destruct (G p0) as [Z|Z]; [exact Z|]. pose proof (Z p0 In0) as X. rewrite is_under_refl in X. discriminate X. }
        assert (pass p0 = true) as Pp0.
        { unfold pass. rewrite Wr. rewrite rep_o in Cd. cbn [andb] in Cd.
          rewrite (K p0 In0) in Cd.
          rewrite Cd. cbn [andb]. destruct Vc0 as [->|Vc0]; [rewrite String.eqb_refl; reflexivity | rewrite Vc0; apply orb_true_r]. }
        assert (forall q, In (q, KDir) (children fs p0) -> is_under q p0 = false) as ChildNot.
        { intros q Hq. destruct (child_under p0 (q, KDir) Ap0 Hq) as [U Ne]. cbn [fst] in U, Ne.
          apply not_true_is_false. intro X. apply Ne. apply is_under_antisym; assumption. }
        exists (l ++ dirfiles p0).
        split; [rewrite S1, F1, app_assoc; reflexivity|].
        split; [rewrite S2, F2; unfold filter_new; rewrite map_app, app_assoc, !fold_left_app; reflexivity|].
        split.
        { intros f Hf. apply in_app_or in Hf. destruct Hf as [Hf|Hf]; [exact (W f Hf)|].
          exists p0. split; [exact Hf|]. split; [exact Rp0|]. intros a [<-|Ha]; [exact Pp0 | exact (Pabove a Ha)]. }
        split.
        { intro k. rewrite filter_app, dirfiles_ink. destruct (String.eqb p0 k) eqn:Ek.
          - apply String.eqb_eq in Ek. subst k. right. intros q Hq. destruct (S3 q Hq) as [Hr|Hc]; [exact (proj1 (Inc q Hr)) | exact (ChildNot q Hc)].
          - rewrite app_nil_r. destruct (G k) as [Z|Z]; [left; exact Z|]. right. intros q Hq. destruct (S3 q Hq) as [Hr|Hc]; [apply Z; apply Sub; exact Hr|].
            apply not_true_is_false. intro X. destruct (child_under p0 (q, KDir) Ap0 Hc) as [U _]. cbn [fst] in U.
            assert (is_under p0 k = true) as Y by (apply (is_under_trans p0 q k); [apply absolute_nonempty; exact Ap0 | exact U | exact X]).
            rewrite (Z p0 In0) in Y. discriminate Y. }
        split.
        { intros q Hq. destruct (S3 q Hq) as [Hr|Hc]; [apply V5; apply Sub; exact Hr|].
          split; [apply (rd_child p0); assumption|]. split.
          - intros a Ha. destruct (anc_child p0 q a (or_intror Rp0) Hc Ha) as [->|Ha']; [exact Pp0 | exact (Pabove a Ha')].
          - (* a child that is pushed is not a VCS metadata directory (repaired code) *)
            right. destruct (vcs_dir q) eqn:Vq; [|reflexivity]. exfalso.
            revert Hq. unfold step. destruct (rev (t_visit t)) as [|x rr] eqn:R; [rewrite Vs in R; rewrite rev_app_distr in R; discriminate R|].
            assert (x = p0 /\ rev rr = rest) as (-> & Er).
            { rewrite Vs, rev_app_distr in R. cbn [rev app] in R. injection R as <- <-. split; [reflexivity | apply rev_involutive]. }
            cbv zeta. cbn [t_skip t_filter]. rewrite MS.
            assert (negb (orig && String.eqb p0 base) && negb (check_dir gm true (t_filter t) p0) = false) as ->.
            { destruct (orig && String.eqb p0 base); [reflexivity|]. cbn [orb] in Cd. rewrite Cd. reflexivity. }
            rewrite Wr. cbn [negb]. rewrite Gd. rewrite enum_children_fold. intro Hq.
            destruct (discover_in_shape content fs p0 (fold_left ec_body (children fs p0) (mkT (rev rr) (t_skip t) (t_filter t) (t_files t)))) as (V3 & _ & _).
            rewrite V3 in Hq. clear V3.
            (* no fold step pushes a VCS directory *)
            assert (forall L t0, (forall x, In x (t_visit t0) -> x <> q) -> (forall e, In e L -> fst e = q -> True) ->
                                 forall x, In x (t_visit (fold_left ec_body L t0)) -> x <> q) as NoPush.
            { induction L as [|e L IHL]; intros t0 H0 _ x Hx; cbn [fold_left] in Hx; [apply H0; exact Hx|].
              apply (IHL (ec_body t0 e)); [|intros; exact I|exact Hx].
              intros y Hy. unfold ec_body in Hy. cbv zeta in Hy. destruct (must_skip base (t_skip t0) (fst e)); [apply H0; exact Hy|].
              destruct (snd e); [|apply H0; exact Hy|apply H0; exact Hy].
              destruct ((hard && vcs_dir (fst e)) || (negb defer && negb (check_dir gm true (t_filter t0) (fst e)))) eqn:Cn.
              - unfold do_skip in Hy. cbn [t_visit] in Hy. apply filter_In in Hy. apply H0. apply Hy.
              - cbn [t_visit] in Hy. apply in_app_or in Hy. destruct Hy as [Hy|[<-|[]]]; [apply H0; exact Hy|].
                intros Eq. rewrite Eq, rep_h, Vq in Cn. discriminate Cn. }
            apply (NoPush (children fs p0) (mkT (rev rr) (t_skip t) (t_filter t) (t_files t))) with (x := q); [|intros; exact I|exact Hq|reflexivity].
            intros y Hy ->. cbn [t_visit] in Hy. rewrite Er in Hy. destruct (Inc q Hy) as [_ X].
            destruct (child_under p0 (q, KDir) Ap0 Hc) as [U _]. cbn [fst] in U. rewrite U in X. discriminate X. }
        { intros q Hq k Hk. rewrite filter_app, dirfiles_ink. destruct (S3 q Hq) as [Hr|Hc].
          - (* an older entry: p0 is not above it *)
            assert (String.eqb p0 k = false) as ->.
            { apply String.eqb_neq. intros ->. destruct (V5 q (Sub q Hr)) as (Rq & _ & _).
              apply (anc_spec q k (rdir_abs q Rq)) in Hk. destruct Hk as (_ & U & _ & _). destruct (Inc q Hr) as [_ X]. rewrite U in X. discriminate X. }
            rewrite app_nil_r. exact (V6 q (Sub q Hr) k Hk).
          - destruct (anc_child p0 q k (or_intror Rp0) Hc Hk) as [->|Hk'].
            + rewrite String.eqb_refl, Z0. reflexivity.
            + assert (String.eqb p0 k = false) as ->.
              { apply String.eqb_neq. intros <-. apply (anc_spec p0 p0 Ap0) in Hk'. destruct Hk' as (_ & _ & _ & Ne). apply Ne. reflexivity. }
              rewrite app_nil_r. exact (V6 p0 In0 k Hk'). }
    Qed.

    Let init := mkT [base] [] (filter_new base B) files0.

    Lemma step_nil t : t_visit t = [] -> step' t = t.
    Proof. intro H. unfold step. rewrite H. reflexivity. Qed.

    Lemma init_tinv : TInv init.
    Proof.
      split; [constructor; [intros b []|constructor]|]. intros q [<-|[]]. split; [exact base_abs|]. exists KDir. apply fs_get_in. exact base_dir.
    Qed.

    Lemma reach_good t : reach init t -> TInv t /\ OInv t.
    Proof.
      induction 1 as [|t _ (TI & OI)]; [split; [exact init_tinv | exact init_oinv]|].
      destruct (t_visit t) as [|q r] eqn:V; [rewrite (step_nil t V); split; assumption|].
      assert (t_visit t <> []) as Ne by (rewrite V; discriminate).
      split; [exact (proj1 (step_tinv t TI Ne)) | exact (step_oinv t TI OI)].
    Qed.

    Lemma on_chain d p : rdir d -> (p = base \/ rdir p) -> is_under p d = true -> In p (d :: anc d).
    Proof.
      intros Rd Hp U. destruct (string_dec p d) as [->|Ne]; [left; reflexivity|]. right.
      apply (anc_spec d p (rdir_abs d Rd)).
      split; [destruct Hp as [->|H]; [exact base_abs | apply rdir_abs; exact H]|]. split; [exact U|].
      split; [destruct Hp as [->|H]; [apply is_under_refl | apply rdir_under_base; exact H] | exact Ne].
    Qed.

    Lemma dirfiles_done t d : Done t d -> forall f, In f (dirfiles d) -> In f (t_files t).
    Proof.
      intros D f Hf. unfold dirfiles in Hf. apply in_flat_map in Hf. destruct Hf as (nt & Hnt & Hf).
      destruct (find_file fs (join d (fst nt))) eqn:Ff; [|destruct Hf]. destruct Hf as [<-|[]]. exact (D nt Hnt Ff).
    Qed.

    (* the walk returns exactly the ignore files of the open reachable directories *)
    Theorem walk_exact :
      let t := run' (S (List.length fs)) init in
      forall f, In f (t_files t) <-> In f files0 \/ exists d, rdir d /\ Open d /\ In f (dirfiles d).
    Proof.
      intros t f.
      assert (reach init t) as Rt by (apply run_reach; apply reach0).
      destruct (reach_good t Rt) as (_ & (l & F1 & _ & W & _)).
      split.
      - intro H. rewrite F1 in H. apply in_app_or in H. destruct H as [H|H]; [left; exact H|].
        right. destruct (W f H) as (d & Hd & Rd & Od). exists d. split; [exact Rd|]. split; assumption.
      - intros [H|(d & Rd & Od & Hf)]; [rewrite F1; apply in_or_app; left; exact H|].
        destruct (walk_complete_from_origin (filter_new base B) files0 d Rd) as [D|(p & Up & Hp & R)].
        + apply (dirfiles_done t d); [exact D | exact Hf].
        + exfalso. fold init in R. destruct R as [(Vc & p0 & Hp0 & Hc)|[(Wr & Hrp)|[(t0 & R0 & In0 & Cd & Nb & _)|(X & _)]]].
          * assert (rdir p0) as Rp0 by (destruct Hp0 as [->|H]; [apply rd_base; exact base_dir | exact H]).
            assert (rdir p) as Rp by (apply (rd_child p0); assumption).
            pose proof (Od p (on_chain d p Rd (or_intror Rp) Up)) as P. unfold pass in P.
            rewrite rep_h in Vc. cbn [andb] in Vc. rewrite Vc in P. cbn [negb] in P. rewrite orb_false_r in P.
            apply andb_true_iff in P. destruct P as [_ P]. apply String.eqb_eq in P. subst p.
            destruct (child_under p0 (base, KDir) (rdir_abs p0 Rp0) Hc) as [U Ne]. cbn [fst] in U, Ne.
            apply Ne. apply is_under_antisym; [apply rdir_under_base; exact Rp0 | exact U].
          * pose proof (Od p (on_chain d p Rd Hrp Up)) as P. unfold pass in P. rewrite Wr in P.
            rewrite andb_false_r in P. discriminate P.
          * destruct (reach_good t0 R0) as (TI0 & OI0).
            assert (rdir p) as Rp by (destruct OI0 as (l0 & _ & _ & _ & _ & V5 & _); exact (proj1 (V5 p In0))).
            pose proof (Od p (on_chain d p Rd (or_intror Rp) Up)) as P. unfold pass in P.
            rewrite <- (filter_as_above t0 p TI0 OI0 In0), Cd in P.
            assert (String.eqb p base = false) as E by (apply String.eqb_neq; apply Nb; exact rep_o).
            rewrite E in P. discriminate P.
          * rewrite rep_d in X. discriminate X.
    Qed.
  End Order.
End Complete.

(* ---------- from_origin *)
Definition fo_init (content : string -> list string) (fs : fsys) (origin : string) (explicit : list string) (excludes : option string) : tourist :=
  let f0 := map (fun p => mkDf p (Some origin) None) explicit in
  let f1 := f0 ++ match excludes with
                  | Some e => if find_file fs e then [mkDf e None (Some PT_Git)] else []
                  | None => [] end in
  let f2 := f1 ++ flat_map (fun nt => let p := join origin (fst nt) in
                                      if find_file fs p then [mkDf p (Some origin) (Some (snd nt))] else [])
                           origin_files in
  mkT [origin] [] (add_file (filter_new origin (map (as_ifile content) f2)) (Some origin, vcs_dir_globs)) f2.

Lemma from_origin_walk gm content hard defer orig fs origin watches explicit excludes :
  from_origin gm content hard defer orig fs origin watches explicit excludes
  = t_files (run gm content hard defer orig (S (List.length fs)) fs origin watches (fo_init content fs origin explicit excludes)).
Proof. reflexivity. Qed.

Theorem from_origin_complete gm content hard defer orig fs origin watches explicit excludes :
  (forall e, In e fs -> absolute (fst e)) -> absolute origin -> NoDup (map fst fs) ->
  forall d, rdir fs origin d ->
    (forall nt, In nt dir_files -> find_file fs (join d (fst nt)) = true ->
       In (mkDf (join d (fst nt)) (Some d) (snd nt)) (from_origin gm content hard defer orig fs origin watches explicit excludes)) \/
    (exists p, is_under p d = true /\ Reason gm content hard defer orig fs origin watches (fo_init content fs origin explicit excludes) p).
Proof.
  intros Hfs Ho ND d Hd. rewrite from_origin_walk. unfold fo_init. cbv zeta.
  match goal with |- context [mkT [origin] [] ?f ?l] =>
    destruct (walk_complete_from_origin gm content hard defer orig fs origin watches Hfs Ho ND f l d Hd) as [D|(p & Up & _ & R)] end.
  - left. exact D.
  - right. exists p. split; [exact Up | exact R].
Qed.

Theorem from_origin_walk_ends gm content hard defer orig fs origin watches explicit excludes :
  (forall e, In e fs -> absolute (fst e)) -> absolute origin -> NoDup (map fst fs) ->
  t_visit (run gm content hard defer orig (S (List.length fs)) fs origin watches (fo_init content fs origin explicit excludes)) = [].
Proof. intros Hfs Ho ND. unfold fo_init. cbv zeta. apply walk_terminates; assumption. Qed.

(* the hypotheses are met, and both outcomes occur, on the example tree of Properties/C14.v *)
Definition ex_fs : fsys :=
  [("/o", KDir); ("/o/.gitignore", KFile true); ("/o/tests", KDir); ("/o/test", KDir);
   ("/o/test/.ignore", KFile true); ("/o/tests/.gitignore", KFile true); ("/o/test/sub", KDir);
   ("/o/test/sub/.hgignore", KFile false); ("/o/.git", KDir); ("/o/.git/.gitignore", KFile true);
   ("/o/tests/.git", KDir); ("/o/tests/.git/.gitignore", KFile true)].

Example ex_fs_wellformed : (forall e, In e ex_fs -> absolute (fst e)) /\ NoDup (map fst ex_fs) /\
  rdir ex_fs "/o" "/o/tests" /\ rdir ex_fs "/o" "/o/test/sub".
Proof.
  split; [intros e H; repeat (destruct H as [<-|H]; [reflexivity|]); destruct H|].
  split.
  - cbn [map fst ex_fs]. repeat (constructor; [intro H; repeat (destruct H as [H|H]; [discriminate H|]); destruct H|]). constructor.
  - assert (rdir ex_fs "/o" "/o") as R0 by (apply rd_base; reflexivity).
    split.
    + apply (rd_child ex_fs "/o" "/o" "/o/tests" R0). vm_compute. tauto.
    + assert (rdir ex_fs "/o" "/o/test") as R1 by (apply (rd_child ex_fs "/o" "/o" "/o/test" R0); vm_compute; tauto).
      apply (rd_child ex_fs "/o" "/o/test" "/o/test/sub" R1). vm_compute. tauto.
Qed.

(* ---------- the exact result of from_origin (repaired code) and its independence from the listing order *)
Definition fo_files (fs : fsys) (origin : string) (explicit : list string) (excludes : option string) : list dfile :=
  t_files (fo_init (fun _ => []) fs origin explicit excludes).
Definition fo_base (content : string -> list string) (fs : fsys) (origin : string) (explicit : list string) (excludes : option string) : list ifile :=
  map (as_ifile content) (fo_files fs origin explicit excludes) ++ [(Some origin, vcs_dir_globs)].

Lemma fo_init_shape content fs origin explicit excludes :
  fo_init content fs origin explicit excludes
  = mkT [origin] [] (filter_new origin (fo_base content fs origin explicit excludes)) (fo_files fs origin explicit excludes).
Proof. unfold fo_init, fo_base, fo_files, fo_init. cbv zeta. cbn [t_files]. rewrite add_file_equiv. reflexivity. Qed.

Lemma fo_base_abs content fs origin explicit excludes :
  absolute origin -> forall d l, In (Some d, l) (fo_base content fs origin explicit excludes) -> absolute d.
Proof.
  intros Ao d l H. unfold fo_base, fo_files, fo_init in H. cbv zeta in H. cbn [t_files] in H.
  apply in_app_or in H. destruct H as [H|[H|[]]]; [|injection H as <- _; exact Ao].
  apply in_map_iff in H. destruct H as (f & Ef & Hf). unfold as_ifile in Ef. injection Ef as Ed _.
  apply in_app_or in Hf. destruct Hf as [Hf|Hf].
  - apply in_app_or in Hf. destruct Hf as [Hf|Hf].
    + apply in_map_iff in Hf. destruct Hf as (x & <- & _). cbn [d_in] in Ed. injection Ed as <-. exact Ao.
    + destruct excludes as [e|]; [|destruct Hf]. destruct (find_file fs e); [|destruct Hf]. destruct Hf as [<-|[]]. discriminate Ed.
  - apply in_flat_map in Hf. destruct Hf as (nt & _ & Hf). cbv zeta in Hf. destruct (find_file fs (join origin (fst nt))); [|destruct Hf].
    destruct Hf as [<-|[]]. cbn [d_in] in Ed. injection Ed as <-. exact Ao.
Qed.

(* EXACTNESS: the result is the explicit / origin-level files plus the ignore files of every open reachable directory *)
Theorem from_origin_exact gm content fs origin watches explicit excludes :
  (forall e, In e fs -> absolute (fst e)) -> absolute origin -> NoDup (map fst fs) -> fs_get fs origin = Some KDir ->
  forall f, In f (from_origin gm content true true true fs origin watches explicit excludes) <->
            In f (fo_files fs origin explicit excludes) \/
            exists d, rdir fs origin d /\ Open gm content fs origin watches (fo_base content fs origin explicit excludes) d /\ In f (dirfiles fs d).
Proof.
  intros Hfs Ao ND Od f. rewrite from_origin_walk, fo_init_shape.
  exact (walk_exact gm content true true true fs origin watches Hfs Ao ND eq_refl eq_refl eq_refl Od
           (fo_base content fs origin explicit excludes) (fo_base_abs content fs origin explicit excludes Ao) (fo_files fs origin explicit excludes) f).
Qed.

(* two listings that present the same file system *)
Definition same_fs (fs fs' : fsys) : Prop := forall p, fs_get fs p = fs_get fs' p.

Lemma children_kdir_iff fs d c : NoDup (map fst fs) ->
  (In (c, KDir) (children fs d) <-> fs_get fs c = Some KDir /\ path_parent c = Some d).
Proof.
  intro ND. unfold children. rewrite filter_In. cbn [fst]. split.
  - intros (H & P). split; [apply (nodup_get fs ND); exact H|]. destruct (path_parent c) as [q|]; [|discriminate P].
    apply String.eqb_eq in P. subst q. reflexivity.
  - intros (G & P). split; [apply fs_get_in; exact G | rewrite P; apply String.eqb_refl].
Qed.

Lemma same_fs_rdir fs fs' base : NoDup (map fst fs) -> NoDup (map fst fs') -> same_fs fs fs' -> forall d, rdir fs base d -> rdir fs' base d.
Proof.
  intros ND ND' S d. induction 1 as [Hb|d c _ IH Hc].
  - apply rd_base. rewrite <- S. exact Hb.
  - apply (rd_child fs' base d c IH). apply (children_kdir_iff fs' d c ND'). rewrite <- S. apply (children_kdir_iff fs d c ND). exact Hc.
Qed.

Lemma same_fs_find fs fs' : same_fs fs fs' -> forall p, find_file fs p = find_file fs' p.
Proof. intros S p. unfold find_file. rewrite (S p). reflexivity. Qed.

Lemma same_fs_dirfiles fs fs' : same_fs fs fs' -> forall k, dirfiles fs k = dirfiles fs' k.
Proof.
  intros S k. unfold dirfiles. apply flat_map_ext. intro nt. rewrite (same_fs_find fs fs' S). reflexivity.
Qed.

Lemma same_fs_fo_files fs fs' origin explicit excludes : same_fs fs fs' -> fo_files fs origin explicit excludes = fo_files fs' origin explicit excludes.
Proof.
  intro S. unfold fo_files, fo_init. cbv zeta. cbn [t_files]. f_equal; [f_equal|].
  - destruct excludes as [e|]; [rewrite (same_fs_find fs fs' S e)|]; reflexivity.
  - apply flat_map_ext. intro nt. cbv zeta. rewrite (same_fs_find fs fs' S). reflexivity.
Qed.

Lemma same_fs_open gm content fs fs' origin watches Bf : same_fs fs fs' -> forall d, Open gm content fs origin watches Bf d -> Open gm content fs' origin watches Bf d.
Proof.
  intros S d O a Ha. specialize (O a Ha). unfold pass, Fc, above_files in *.
  assert (flat_map (dirfiles fs') (anc origin a) = flat_map (dirfiles fs) (anc origin a)) as -> by (apply flat_map_ext; intro k; symmetry; apply same_fs_dirfiles; exact S).
  exact O.
Qed.

(* ORDER INDEPENDENCE: two listings of the same file system, in whatever order, give the same set of files *)
Theorem from_origin_order_independent gm content fs fs' origin watches explicit excludes :
  (forall e, In e fs -> absolute (fst e)) -> NoDup (map fst fs) ->
  (forall e, In e fs' -> absolute (fst e)) -> NoDup (map fst fs') ->
  absolute origin -> fs_get fs origin = Some KDir -> same_fs fs fs' ->
  forall f, In f (from_origin gm content true true true fs origin watches explicit excludes) ->
            In f (from_origin gm content true true true fs' origin watches explicit excludes).
Proof.
  intros Hfs ND Hfs' ND' Ao Od S f H.
  assert (fs_get fs' origin = Some KDir) as Od' by (rewrite <- S; exact Od).
  apply (from_origin_exact gm content fs origin watches explicit excludes Hfs Ao ND Od) in H.
  apply (from_origin_exact gm content fs' origin watches explicit excludes Hfs' Ao ND' Od').
  destruct H as [H|(d & Rd & Op & Hf)].
  - left. rewrite <- (same_fs_fo_files fs fs' origin explicit excludes S). exact H.
  - right. exists d. split; [apply (same_fs_rdir fs fs' origin ND ND' S); exact Rd|].
    split; [|rewrite <- (same_fs_dirfiles fs fs' S); exact Hf].
    unfold fo_base. rewrite <- (same_fs_fo_files fs fs' origin explicit excludes S).
    apply (same_fs_open gm content fs fs' origin watches _ S). exact Op.
Qed.

(* a permutation of a listing presents the same file system *)
Lemma perm_same_fs fs fs' : NoDup (map fst fs) -> Permutation.Permutation fs fs' -> NoDup (map fst fs') /\ same_fs fs fs'.
Proof.
  intros ND P.
  assert (NoDup (map fst fs')) as ND' by (apply (Permutation.Permutation_NoDup (Permutation.Permutation_map fst P)); exact ND).
  split; [exact ND'|]. intro p.
  destruct (fs_get fs p) as [k|] eqn:G.
  - symmetry. apply (nodup_get fs' ND'). apply (Permutation.Permutation_in _ P). apply fs_get_in. exact G.
  - destruct (fs_get fs' p) as [k'|] eqn:G'; [|reflexivity].
    apply fs_get_in in G'. apply (Permutation.Permutation_in _ (Permutation.Permutation_sym P)) in G'.
    rewrite (nodup_get fs ND p k' G') in G. discriminate G.
Qed.

Theorem from_origin_permutation gm content fs fs' origin watches explicit excludes :
  (forall e, In e fs -> absolute (fst e)) -> NoDup (map fst fs) -> absolute origin -> fs_get fs origin = Some KDir ->
  Permutation fs fs' ->
  forall f, In f (from_origin gm content true true true fs origin watches explicit excludes) <->
            In f (from_origin gm content true true true fs' origin watches explicit excludes).
Proof.
  intros Hfs ND Ao Od P f. destruct (perm_same_fs fs fs' ND P) as (ND' & S).
  assert (forall e, In e fs' -> absolute (fst e)) as Hfs' by (intros e He; apply Hfs; apply (Permutation_in _ (Permutation_sym P)); exact He).
  assert (same_fs fs' fs) as S' by (intro p; symmetry; apply S).
  split.
  - apply (from_origin_order_independent gm content fs fs' origin watches explicit excludes); assumption.
  - apply (from_origin_order_independent gm content fs' fs origin watches explicit excludes); try assumption. rewrite <- S. exact Od.
Qed.

(* the repaired code: a reachable directory is visited unless it lies in or below a VCS metadata directory, a directory unrelated
   to the explicit watches, or a directory that the ignore files above it ignore -- evaluated by the filter that already holds every
   ignore file of every directory above it *)
Theorem from_origin_complete_repaired gm content fs origin watches explicit excludes :
  (forall e, In e fs -> absolute (fst e)) -> absolute origin -> NoDup (map fst fs) ->
  forall d, rdir fs origin d ->
    (forall nt, In nt dir_files -> find_file fs (join d (fst nt)) = true ->
       In (mkDf (join d (fst nt)) (Some d) (snd nt)) (from_origin gm content true true true fs origin watches explicit excludes)) \/
    (exists p, is_under p d = true /\
       (vcs_dir p = true \/ watch_related watches p = false \/
        exists t0, reach gm content true true true fs origin watches (fo_init content fs origin explicit excludes) t0 /\
                   In p (t_visit t0) /\ check_dir gm true (t_filter t0) p = false /\ p <> origin /\
                   forall a, rdir fs origin a -> is_under a p = true -> a <> p -> Done fs t0 a)).
Proof.
  intros Hfs Ho ND d Hd.
  destruct (from_origin_complete gm content true true true fs origin watches explicit excludes Hfs Ho ND d Hd) as [D|(p & Up & R)]; [left; exact D|].
  right. exists p. split; [exact Up|]. destruct R as [(R & _)|[(R & _)|[(t0 & A & A2 & B & C & D)|(X & _)]]]; [left; exact R | right; left; exact R | | discriminate X].
  right. right. exists t0. split; [exact A|]. split; [exact A2|]. split; [exact B|]. split; [exact (C eq_refl) | exact D].
Qed.

(* as pinned, a directory was checked against the filter while its parent was being listed, before the parent's own ignore files
   were loaded: a negated pattern there could not re-include it, and the ignore files inside it were missed although the
   resulting filter does not ignore the directory *)
Definition nfs : fsys := [("/o", KDir); ("/o/.gitignore", KFile true); ("/o/sub", KDir); ("/o/sub/.gitignore", KFile true);
  ("/o/sub/c", KDir); ("/o/sub/c/.gitignore", KFile true)].
Definition ncontent (p : string) : list string :=
  if String.eqb p "/o/.gitignore" then ["c"] else if String.eqb p "/o/sub/.gitignore" then ["!c"] else ["x"].
Lemma negated_child_missed_refuted :
  map show_dfile (from_origin gm_glob ncontent true false false nfs "/o" [] [] None) = ["/o/.gitignore|/o|Git"; "/o/sub/.gitignore|/o/sub|Git"] /\
  map show_dfile (from_origin gm_glob ncontent true true false nfs "/o" [] [] None)
  = ["/o/.gitignore|/o|Git"; "/o/sub/.gitignore|/o/sub|Git"; "/o/sub/c/.gitignore|/o/sub/c|Git"] /\
  (* the filter made of the files the pinned walk returns does not ignore /o/sub/c *)
  check_dir gm_glob true (filter_new "/o" (map (as_ifile ncontent) [mkDf "/o/.gitignore" (Some "/o") (Some PT_Git); mkDf "/o/sub/.gitignore" (Some "/o/sub") (Some PT_Git)])) "/o/sub/c" = true.
Proof. vm_compute. repeat split; reflexivity. Qed.

(* as pinned, the origin itself was checked against the filter: a lone `*` in an origin-level file (here .git/info/exclude) stopped
   the discovery before it started, and the project's own ignore files (with their negations) were lost *)
Definition ofs : fsys := [("/o", KDir); ("/o/.git", KDir); ("/o/.git/info", KDir); ("/o/.git/info/exclude", KFile true);
  ("/o/.gitignore", KFile true); ("/o/src", KDir); ("/o/src/.ignore", KFile true)].
Definition ocontent (p : string) : list string :=
  if String.eqb p "/o/.git/info/exclude" then ["*"] else if String.eqb p "/o/.gitignore" then ["!src"] else ["x"].
Lemma origin_pruned_refuted :
  map show_dfile (from_origin gm_glob ocontent true true false ofs "/o" [] [] None) = ["/o/.git/info/exclude|/o|Git"] /\
  map show_dfile (from_origin gm_glob ocontent true true true ofs "/o" [] [] None)
  = ["/o/.git/info/exclude|/o|Git"; "/o/.gitignore|/o|Git"; "/o/src/.ignore|/o/src|-"].
Proof. vm_compute. split; reflexivity. Qed.
