From Coq Require Import List NArith String Ascii Bool Lia.
From WX Require Import Base.Bytes Glob.Glob Glob.Gitignore Ignore.IgnoreFilter Gen.Origins_gen Discover.Discover.
Import ListNotations.
Open Scope string_scope.
Open Scope list_scope.

Section Proofs.
  Variable gm : string -> string -> bool.
  Variable content : string -> list string.
  Variable hard : bool.
  Variable defer : bool.
  Variable orig : bool.
  Variable fs : fsys.
  Variable base : string.
  Variable watches : list string.

  (* a file found by the walk: the per-directory lookup of a visited directory d *)
  Definition walk_file (d : string) (f : dfile) : Prop :=
    exists name to, In (name, to) dir_files /\ f = mkDf (join d name) (Some d) to /\ find_file fs (join d name) = true.

  (* Inv: every file is an initial one or was found in a directory related to the watch list *)
  Definition Inv (init : list dfile) (t : tourist) : Prop :=
    forall f, In f (t_files t) -> In f init \/ exists d, walk_file d f /\ watch_related watches d = true.

  Lemma do_skip_files t p : t_files (do_skip t p) = t_files t.
  Proof. reflexivity. Qed.

  Lemma enum_children_files dir t : t_files (enum_children gm hard defer fs base dir t) = t_files t.
  Proof.
    unfold enum_children. generalize (children fs dir). intro l. revert t.
    induction l as [|e r IH]; intro t; simpl; [reflexivity|]. rewrite IH.
    destruct (must_skip base (t_skip t) (fst e)); [reflexivity|].
    destruct (snd e); try reflexivity.
    destruct ((hard && vcs_dir (fst e)) || (negb defer && negb (check_dir gm true (t_filter t) (fst e)))); reflexivity.
  Qed.

  Lemma discover_in_files init dir t :
    watch_related watches dir = true -> Inv init t -> Inv init (discover_in content fs dir t).
  Proof.
    intro W. unfold discover_in.
    assert (forall l t, (forall nt, In nt l -> In nt dir_files) -> Inv init t ->
              Inv init (fold_left (fun t nt =>
                 let p := join dir (fst nt) in
                 if find_file fs p then
                   let f := mkDf p (Some dir) (snd nt) in
                   mkT (t_visit t) (t_skip t) (add_file (t_filter t) (as_ifile content f)) (t_files t ++ [f])
                 else t) l t)) as G.
    { induction l as [|[name to] r IH]; intros t0 Hsub I; simpl; [exact I|].
      apply IH; [intros nt Hn; apply Hsub; right; exact Hn|].
      destruct (find_file fs (join dir name)) eqn:E; [|exact I].
      intros f Hf. simpl in Hf. apply in_app_or in Hf. destruct Hf as [Hf|[<-|[]]]; [apply I; exact Hf|].
      right. exists dir. split; [|exact W]. exists name, to. split; [apply Hsub; left; reflexivity|].
      split; [reflexivity | exact E]. }
    apply G. intros nt H; exact H.
  Qed.

  Lemma step_inv init t : Inv init t -> Inv init (step gm content hard defer orig fs base watches t).
  Proof.
    intro I. unfold step. destruct (rev (t_visit t)) as [|p rr]; [exact I|].
    set (t1 := mkT (rev rr) (t_skip t) (t_filter t) (t_files t)).
    assert (Inv init t1) as I1 by exact I.
    destruct (must_skip base (t_skip t1) p); [exact I1|].
    destruct (negb (orig && String.eqb p base) && negb (check_dir gm true (t_filter t1) p)); [exact I1|].
    destruct (watch_related watches p) eqn:W; simpl negb; [|exact I1].
    destruct (fs_get fs p) as [[| |]|]; try exact I1.
    apply discover_in_files; [exact W|].
    intros f Hf. rewrite enum_children_files in Hf. apply I1. exact Hf.
  Qed.

  Lemma run_inv init n t : Inv init t -> Inv init (run gm content hard defer orig n fs base watches t).
  Proof.
    revert t. induction n as [|n IH]; intros t I; simpl; [exact I|].
    destruct (t_visit t); [exact I|]. apply IH. apply step_inv. exact I.
  Qed.
End Proofs.

(* every returned file is an explicit / origin-level one or the non-empty regular .ignore / .gitignore /
   .hgignore of a visited directory, tagged with that directory and the right project type, and that
   directory is related (ancestor, descendant or equal) to some explicit watch when watches are given *)
Theorem discovered_files_exact gm content hard defer orig fs origin watches explicit excludes f :
  In f (from_origin gm content hard defer orig fs origin watches explicit excludes) ->
  (exists p, In p explicit /\ f = mkDf p (Some origin) None) \/
  (exists e, excludes = Some e /\ find_file fs e = true /\ f = mkDf e None (Some PT_Git)) \/
  (exists name t, In (name, t) origin_files /\ find_file fs (join origin name) = true /\
                  f = mkDf (join origin name) (Some origin) (Some t)) \/
  (exists d name to, In (name, to) dir_files /\ f = mkDf (join d name) (Some d) to /\
                     find_file fs (join d name) = true /\ watch_related watches d = true).
Proof.
  unfold from_origin. intro H.
  match type of H with In _ (t_files (run _ _ _ _ _ ?n _ _ _ (mkT _ _ ?filt ?init))) =>
    pose proof (run_inv gm content hard defer orig fs origin watches init n (mkT [origin] [] filt init)) as R end.
  match type of R with ?A -> _ => assert A as I0 by (intros x Hx; left; exact Hx) end.
  specialize (R I0 f H). destruct R as [R|(d & (name & to & Hin & -> & Hf) & W)].
  - apply in_app_or in R. destruct R as [R|R].
    + apply in_app_or in R. destruct R as [R|R].
      * left. apply in_map_iff in R. destruct R as (p & <- & Hp). exists p. auto.
      * right. left. destruct excludes as [e|]; [|contradiction].
        destruct (find_file fs e) eqn:E; [|contradiction]. destruct R as [<-|[]]. exists e. auto.
    + right. right. left. apply in_flat_map in R. destruct R as ([name t] & Hin & Hx). simpl in Hx.
      destruct (find_file fs (join origin name)) eqn:E; [|contradiction]. destruct Hx as [<-|[]].
      exists name, t. auto.
  - right. right. right. exists d, name, to. auto.
Qed.

(* find_file accepts only regular non-empty files *)
Lemma find_file_spec fs p : find_file fs p = true <-> fs_get fs p = Some (KFile true).
Proof. unfold find_file. destruct (fs_get fs p) as [[| [|] |]|]; split; intro H; try discriminate; reflexivity. Qed.

(* pruning is permanent within one step: a skipped directory and everything below it leaves the stack *)
Lemma do_skip_purges t p q : In q (t_visit (do_skip t p)) -> is_under p q = false.
Proof. unfold do_skip. simpl. rewrite filter_In. intros [_ H]. apply negb_true_iff in H. exact H. Qed.

Lemma do_skip_records t p : In p (t_skip (do_skip t p)).
Proof. left. reflexivity. Qed.
