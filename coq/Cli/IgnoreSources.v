(* Model of cli/src/dirs.rs::ignores and of the ignore-file selection in cli/src/filterer.rs
   (WatchexecFilterer::new), i.e. which ignore files reach the filterer under every mix of the
   ignore-source flags.  `fixed = true` is the code after the repair of the --ignore-file handling,
   `fixed = false` the code as pinned. *)
From Coq Require Import List NArith String Ascii Bool.
From WX Require Import Gen.Origins_gen Gen.FsKinds_gen Gen.CliFilter_gen Gen.CliFlags_gen.
Import ListNotations.
Open Scope list_scope.

(* where an IgnoreFile applies: globally (applies_in = None), in a directory under the project origin,
   or in some other directory *)
Inductive ain : Set := AGlobal | AOrigin | AElsewhere.

Record src : Type := mkSrc { s_id : N; s_in : ain; s_to : option ptype }.

Record flags : Set := mkFlags {
  no_vcs : bool; no_project : bool; no_global : bool; no_default : bool; no_discover : bool; ignore_nothing : bool }.

Definition sets (f : igflag) : bool := existsb (igflag_eqb f) ignore_nothing_sets.

(* FilteringArgs::normalise: --ignore-nothing turns on the flags listed in the source *)
Definition normalise (fl : flags) : flags :=
  if ignore_nothing fl then
    mkFlags (no_vcs fl || sets F_no_vcs_ignore) (no_project fl || sets F_no_project_ignore)
            (no_global fl || sets F_no_global_ignore) (no_default fl || sets F_no_default_ignore)
            (no_discover fl || sets F_no_discover_ignore) true
  else fl.

Definition is_global (f : src) : bool := match s_in f with AGlobal => true | _ => false end.
Definition is_origin (f : src) : bool := match s_in f with AOrigin => true | _ => false end.
Definition mem_pt (t : ptype) (l : list ptype) : bool := existsb (ptype_eqb t) l.

(* `Some(pt) if pt.is_vcs() => vcs_types.contains(&pt), _ => true` *)
Definition keepvcs (vcs : list ptype) (f : src) : bool :=
  match s_to f with Some t => if is_vcs t then mem_pt t vcs else true | None => true end.

Definition is_git_global (f : src) : bool :=
  match s_to f, s_in f with Some PT_Git, AGlobal => true | _, _ => false end.

(* explicit --ignore-file entries: from_origin lists them as applying in the origin, ignores() appends
   them again as global files *)
Definition expl_o (ids : list N) : list src := map (fun i => mkSrc i AOrigin None) ids.
Definition expl_g (ids : list N) : list src := map (fun i => mkSrc i AGlobal None) ids.

(* dirs::ignores *)
Definition dirs_ignores (fixed : bool) (fl : flags) (vcs : list ptype) (proj glob : list src) (expl : list N) : list src :=
  let from_origin := expl_o expl ++ proj in
  let proj_part :=
    if no_project fl then [] else
    match vcs with [] => from_origin | _ => filter (keepvcs vcs) from_origin end in
  let skip_git :=
    negb (no_project fl) && (match vcs with [] => false | _ => true end) &&
    existsb is_git_global (filter (keepvcs vcs) from_origin) in
  let glob_part :=
    if no_global fl then [] else
    if skip_git then filter (fun f => negb (is_git_global f)) glob else glob in
  let all := proj_part ++ filter (keepvcs vcs) glob_part ++ (if fixed then [] else expl_g expl) in
  let all := if no_project fl then filter (fun f => negb (is_origin f)) all else all in
  let all := if no_global fl then filter (fun f => negb (is_global f)) all else all in
  let all := if no_vcs fl then filter (fun f => match s_to f with None => true | Some _ => false end) all else all in
  all ++ (if fixed then expl_g expl else []).

(* WatchexecFilterer::new: the ignore files handed to the globset filterer *)
Definition selected (fixed : bool) (fl0 : flags) (vcs : list ptype) (proj glob : list src) (expl : list N) : list src :=
  let fl := normalise fl0 in
  if no_discover fl then (if fixed then expl_g expl else [])
  else dirs_ignores fixed fl vcs proj glob expl.

Definition use_default_ignores (fl0 : flags) : bool := negb (no_default (normalise fl0)).

Definition flags0 : flags := mkFlags false false false false false false.

(* which sources a flag set is documented to remove: project-local files (discovered in the origin),
   global files, VCS-specific files; --no-discover-ignore = the three; --ignore-nothing = everything
   discovered or built in.  Explicit files (the global-scope copies) are never removed. *)
Definition removed_by (fl0 : flags) (f : src) : bool :=
  let fl := normalise fl0 in
  no_discover fl || (no_project fl && is_origin f) || (no_global fl && is_global f) ||
  (no_vcs fl && match s_to f with Some _ => true | None => false end).
