From Coq Require Import List NArith String Ascii Bool.
From WX Require Import Gen.Origins_gen Gen.FsKinds_gen Gen.CliFilter_gen Gen.CliFlags_gen Cli.IgnoreSources.
Import ListNotations.
Open Scope list_scope.

(* explicit --ignore-file entries always reach the filterer, at global scope, for all 64 flag sets *)
Theorem explicit_files_kept fl vcs proj glob expl i :
  In i expl -> In (mkSrc i AGlobal None) (selected true fl vcs proj glob expl).
Proof.
  intro H. assert (In (mkSrc i AGlobal None) (expl_g expl)) as G by (unfold expl_g; apply in_map_iff; exists i; auto).
  unfold selected. destruct (no_discover (normalise fl)); [exact G|].
  unfold dirs_ignores. apply in_or_app. right. exact G.
Qed.

Definition wf_proj (proj : list src) : Prop := forall f, In f proj -> s_in f = AOrigin.
Definition wf_glob (glob : list src) : Prop := forall f, In f glob -> s_in f = AGlobal.

Lemma existsb_false_forall {A} (p : A -> bool) l : (forall x, In x l -> p x = false) -> existsb p l = false.
Proof.
  induction l as [|x r IH]; simpl; intro H; [reflexivity|].
  rewrite H by (left; reflexivity). apply IH. intros; apply H; right; assumption.
Qed.

Lemma expl_o_origin expl f : In f (expl_o expl) -> s_in f = AOrigin /\ s_to f = None.
Proof. unfold expl_o. rewrite in_map_iff. intros (i & <- & _). split; reflexivity. Qed.

Lemma no_skip_git vcs proj expl :
  wf_proj proj -> existsb is_git_global (filter (keepvcs vcs) (expl_o expl ++ proj)) = false.
Proof.
  intro W. apply existsb_false_forall. intros x Hx. apply filter_In in Hx. destruct Hx as [Hx _].
  apply in_app_or in Hx. unfold is_git_global. destruct Hx as [Hx|Hx].
  - apply expl_o_origin in Hx. destruct Hx as [-> ->]. reflexivity.
  - rewrite (W x Hx). destruct (s_to x) as [[]|]; reflexivity.
Qed.

Definition vcs_ok (vcs : list ptype) (f : src) : bool := match vcs with [] => true | _ => keepvcs vcs f end.

(* the discovered part of dirs::ignores, as a membership predicate *)
Lemma dirs_ignores_In fl vcs proj glob expl f :
  wf_proj proj -> wf_glob glob ->
  (In f (dirs_ignores true fl vcs proj glob expl) <->
   In f (expl_g expl) \/
   ((In f (expl_o expl ++ proj) /\ no_project fl = false /\ vcs_ok vcs f = true) \/
    (In f glob /\ no_global fl = false /\ keepvcs vcs f = true)) /\
   (no_vcs fl = true -> s_to f = None)).
Proof.
  intros WP WG. unfold dirs_ignores. rewrite (no_skip_git vcs proj expl WP), andb_false_r, app_nil_r.
  rewrite in_app_iff. rewrite or_comm. apply or_iff_compat_l.
  assert (forall x, In x (expl_o expl ++ proj) -> is_origin x = true /\ is_global x = false) as O.
  { intros x Hx. apply in_app_or in Hx. unfold is_origin, is_global. destruct Hx as [Hx|Hx].
    - apply expl_o_origin in Hx. destruct Hx as [-> _]. split; reflexivity.
    - rewrite (WP x Hx). split; reflexivity. }
  assert (forall x, In x glob -> is_origin x = false /\ is_global x = true) as G.
  { intros x Hx. unfold is_origin, is_global. rewrite (WG x Hx). split; reflexivity. }
  unfold vcs_ok. specialize (O f). specialize (G f).
  set (fo := expl_o expl ++ proj) in *.
  assert (match s_to f with Some _ => false | None => true end = true <-> s_to f = None) as MS
    by (destruct (s_to f); split; intro; congruence).
  destruct (no_vcs fl), (no_global fl), (no_project fl), vcs as [|v vs];
    rewrite ?filter_In, ?in_app_iff, ?filter_In, ?negb_true_iff, ?MS; simpl In;
    intuition (try congruence; try discriminate).
Qed.

Lemma selected_In fl vcs proj glob expl f :
  wf_proj proj -> wf_glob glob ->
  (In f (selected true fl vcs proj glob expl) <->
   In f (expl_g expl) \/
   (no_discover (normalise fl) = false /\
    ((In f (expl_o expl ++ proj) /\ no_project (normalise fl) = false /\ vcs_ok vcs f = true) \/
     (In f glob /\ no_global (normalise fl) = false /\ keepvcs vcs f = true)) /\
    (no_vcs (normalise fl) = true -> s_to f = None))).
Proof.
  intros WP WG. unfold selected. destruct (no_discover (normalise fl)).
  - split; [intro H; left; exact H | intros [H|(C & _)]; [exact H | discriminate]].
  - rewrite (dirs_ignores_In _ _ _ _ _ _ WP WG). split.
    + intros [H|H]; [left; exact H | right; split; [reflexivity | exact H]].
    + intros [H|(_ & H)]; [left; exact H | right; exact H].
Qed.

(* Those flags remove exactly the discovered sources they name and no others: a discovered file is
   selected under `fl` iff it is selected with no flags and `fl` does not name its class. *)
Theorem flag_exact fl vcs proj glob expl f :
  wf_proj proj -> wf_glob glob -> ~ In f (expl_g expl) ->
  (In f (selected true fl vcs proj glob expl) <->
   In f (selected true flags0 vcs proj glob expl) /\ removed_by fl f = false).
Proof.
  intros WP WG NE. rewrite !(selected_In _ _ _ _ _ _ WP WG). unfold removed_by.
  change (normalise flags0) with flags0. cbn [no_discover no_project no_global no_vcs flags0].
  set (n := normalise fl).
  assert (In f (expl_o expl ++ proj) -> is_origin f = true /\ is_global f = false) as O.
  { intro Hx. apply in_app_or in Hx. unfold is_origin, is_global. destruct Hx as [Hx|Hx].
    - apply expl_o_origin in Hx. destruct Hx as [-> _]. split; reflexivity.
    - rewrite (WP f Hx). split; reflexivity. }
  assert (In f glob -> is_origin f = false /\ is_global f = true) as G.
  { intro Hx. unfold is_origin, is_global. rewrite (WG f Hx). split; reflexivity. }
  set (fo := expl_o expl ++ proj) in *.
  destruct (s_to f) eqn:ES; destruct (no_discover n), (no_project n), (no_global n), (no_vcs n);
    destruct (is_origin f), (is_global f); cbn [orb andb];
    intuition (try congruence; try discriminate).
Qed.

(* the repaired defect: in the pinned code an explicit --ignore-file is lost under --no-discover-ignore
   (hence --ignore-nothing), under --no-global-ignore together with --no-project-ignore ... *)
Lemma explicit_files_lost_refuted :
  selected false (mkFlags false false false false true false) [] [] [] [7%N] = [] /\
  selected false (mkFlags false false false false false true) [] [] [] [7%N] = [] /\
  selected false (mkFlags false true true false false false) [] [] [] [7%N] = [] /\
  In (mkSrc 7 AGlobal None) (selected true (mkFlags true true true true true true) [] [] [] [7%N]).
Proof. vm_compute. repeat split; auto. Qed.

Lemma use_default_exact fl : use_default_ignores fl = negb (no_default fl || ignore_nothing fl && sets F_no_default_ignore).
Proof. unfold use_default_ignores, normalise. destruct fl as [a b c d e [|]]; simpl; [|rewrite orb_false_r]; reflexivity. Qed.

Lemma ignore_nothing_is_all fl :
  ignore_nothing fl = true ->
  let n := normalise fl in
  no_vcs n = true /\ no_project n = true /\ no_global n = true /\ no_default n = true /\ no_discover n = true.
Proof. intro H. unfold normalise. rewrite H. cbn. rewrite !orb_true_r. repeat split; reflexivity. Qed.

(* Without any assumption on what from_origin returned (in particular when the project's .git/config names its own excludes file, which
   from_origin lists at global scope): a global ignore file that belongs to no VCS is selected exactly unless --no-global-ignore or
   --no-discover-ignore (or --ignore-nothing) is in effect. *)
Theorem global_nonvcs_kept fixed fl vcs proj glob expl f :
  In f glob -> s_in f = AGlobal -> s_to f = None ->
  no_global (normalise fl) = false -> no_discover (normalise fl) = false ->
  In f (selected fixed fl vcs proj glob expl).
Proof.
  intros Hf Hin Hto NG ND. unfold selected. rewrite ND. unfold dirs_ignores. rewrite NG.
  assert (keepvcs vcs f = true) as KV by (unfold keepvcs; rewrite Hto; reflexivity).
  assert (is_git_global f = false) as GG by (unfold is_git_global; rewrite Hto; reflexivity).
  assert (is_origin f = false) as IO by (unfold is_origin; rewrite Hin; reflexivity).
  set (pp := if no_project (normalise fl) then [] else _).
  set (sg := _ && _ && _).
  assert (In f (filter (keepvcs vcs) (if sg then filter (fun f => negb (is_git_global f)) glob else glob))) as G1.
  { apply filter_In. split; [|exact KV]. destruct sg; [apply filter_In; split; [exact Hf|rewrite GG; reflexivity]|exact Hf]. }
  apply in_or_app. left.
  assert (In f (pp ++ filter (keepvcs vcs) (if sg then filter (fun f => negb (is_git_global f)) glob else glob) ++ (if fixed then [] else expl_g expl))) as G2
    by (apply in_or_app; right; apply in_or_app; left; exact G1).
  revert G2. generalize (pp ++ filter (keepvcs vcs) (if sg then filter (fun f => negb (is_git_global f)) glob else glob) ++ (if fixed then [] else expl_g expl)).
  intros l G2.
  assert (In f (if no_project (normalise fl) then filter (fun f => negb (is_origin f)) l else l)) as G3
    by (destruct (no_project (normalise fl)); [apply filter_In; split; [exact G2|rewrite IO; reflexivity]|exact G2]).
  destruct (no_vcs (normalise fl)); [apply filter_In; split; [exact G3|rewrite Hto; reflexivity]|exact G3].
Qed.

(* The user-level git ignore is left out exactly when the project itself lists a global-scope git file (core.excludesFile) that survives the
   VCS selection, project discovery is on and a VCS was detected. *)
Example project_excludes_replaces_user_git :
  let proj := [mkSrc 8 AGlobal (Some PT_Git); mkSrc 1 AOrigin (Some PT_Git)] in
  let glob := [mkSrc 6 AGlobal (Some PT_Git); mkSrc 7 AGlobal None] in
  map s_id (selected true flags0 [PT_Git] proj glob []) = [8; 1; 7]%N /\
  map s_id (selected true (mkFlags false true false false false false) [PT_Git] proj glob []) = [6; 7]%N.
Proof. vm_compute. split; reflexivity. Qed.
