From Coq Require Import List NArith Bool String.
From WX Require Import Gen.CliOnBusy_gen Cli.OnBusy.
Import ListNotations.
Open Scope N_scope.

(* the handler's table as it is in the source *)
Definition lookup (k : string) : list call :=
  match find (fun kv => String.eqb (fst kv) k) onbusy_calls with Some (_, cs) => map call_of cs | None => [KUnknown] end.
Definition T : table := mkTab (lookup "Signal") (lookup "Restart") (lookup "Queue") (lookup "DoNothing") (lookup "Idle").

