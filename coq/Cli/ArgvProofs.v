From Coq Require Import List NArith String Ascii Bool Lia.
From WX Require Import Base.Show Base.Bytes Cli.Argv.
Import ListNotations.
Open Scope list_scope.

Lemma exec_verbatim prog args : to_argv (Exec prog args) = prog :: args.
Proof. reflexivity. Qed.

Lemma exec_no_splitting prog args :
  List.length (to_argv (Exec prog args)) = S (List.length args) /\
  forall i, nth_error (to_argv (Exec prog args)) (S i) = nth_error args i.
Proof. split; reflexivity. Qed.

Lemma shell_order sh command args :
  to_argv (ShellP sh command args) =
  [sh_prog sh] ++ sh_options sh ++ (match sh_progopt sh with Some o => [o] | None => [] end) ++ [command] ++ args.
Proof. reflexivity. Qed.

(* the command string is one argv element, at a fixed position, whatever it contains *)
Lemma shell_command_position sh command args :
  nth_error (to_argv (ShellP sh command args))
            (1 + List.length (sh_options sh) + (match sh_progopt sh with Some _ => 1 | None => 0 end)) = Some command.
Proof.
  unfold to_argv. cbn [plus nth_error].
  rewrite nth_error_app2 by lia.
  replace (List.length (sh_options sh) + _ - List.length (sh_options sh))
    with (match sh_progopt sh with Some _ => 1 | None => 0 end) by lia.
  destruct (sh_progopt sh); reflexivity.
Qed.

Lemma wrapper_choice o :
  In KillOnDrop (wrappers o) /\
  (In ProcessSession (wrappers o) <-> session o = true) /\
  (In ProcessGroupLeader (wrappers o) <-> session o = false /\ grouped o = true) /\
  (In ResetSigmask (wrappers o) <-> reset_sigmask o = true).
Proof.
  destruct o as [[] [] []]; unfold wrappers; simpl; repeat split; intros; try tauto;
    repeat match goal with H : _ \/ _ |- _ => destruct H end; try discriminate; try tauto;
    match goal with H : _ /\ _ |- _ => destruct H; discriminate | _ => idtac end.
Qed.

Lemma cli_noshell_verbatim shell_opt env_shell wrap p args :
  exists o, interpret true shell_opt env_shell wrap (p :: args) = ICommand (Exec p args) o /\
            to_argv (Exec p args) = p :: args.
Proof. eexists. split; reflexivity. Qed.

Lemma cli_shell_none env_shell wrap p args :
  exists o, interpret false (Some "none"%string) env_shell wrap (p :: args) = ICommand (Exec p args) o.
Proof. eexists. reflexivity. Qed.

Lemma cli_shell_join sh env_shell wrap prog shprog shopts :
  sh <> ""%string -> sh <> "none"%string -> split_ws sh = shprog :: shopts ->
  exists o, interpret false (Some sh) env_shell wrap prog =
            ICommand (ShellP (mkShell shprog shopts (Some "-c"%string)) (sep_by " " prog) []) o /\
            to_argv (ShellP (mkShell shprog shopts (Some "-c"%string)) (sep_by " " prog) [])
              = shprog :: shopts ++ ["-c"%string; sep_by " " prog].
Proof.
  intros H1 H2 H3. unfold interpret.
  destruct (String.eqb_spec sh ""); [contradiction|].
  destruct (String.eqb_spec sh "none"); [contradiction|].
  rewrite H3. eexists. split; [reflexivity|]. reflexivity.
Qed.

Lemma cli_wrap_mode no_shell shell_opt env_shell wrap prog p o :
  interpret no_shell shell_opt env_shell wrap prog = ICommand p o ->
  grouped o = (match wrap with WrapGroup => true | _ => false end) /\
  session o = (match wrap with WrapSession => true | _ => false end) /\ reset_sigmask o = false.
Proof.
  unfold interpret. intro H.
  repeat match type of H with
  | (if ?c then _ else _) = _ => destruct c
  | match ?x with _ => _ end = _ => destruct x
  end; inversion H; subst; repeat split; reflexivity.
Qed.
