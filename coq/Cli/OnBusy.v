(* Model of the CLI's action logic for filesystem changes (cli/src/config.rs, the on_action_async handler
   and its in-job query closure; cli/src/args/events.rs::normalise; cli/src/lib.rs start-up event) at the
   level of runs of the single supervised command.  That runs never overlap at the process level is C04.

   The Job API calls made by each arm of the on-busy decision are TRANSLATED from config.rs
   (Gen/CliOnBusy_gen.v) and interpreted here with their documented meaning (C09): the decision is taken on the
   state the in-job query saw, the calls are processed later, and the command may have ended in between. *)
From Coq Require Import List NArith Bool String Lia.
Import ListNotations.
Open Scope N_scope.

Inductive mode : Set := MDoNothing | MQueue | MRestart | MSignal.

Record opts : Set := mkO {
  o_on_busy : mode;              (* --on-busy-update *)
  o_restart : bool;              (* -r / --restart *)
  o_signal : option N;           (* --signal *)
  o_stop_signal : option N;      (* --stop-signal *)
  o_postpone : bool }.           (* --postpone *)

(* EventsArgs::normalise *)
Definition eff_mode (o : opts) : mode :=
  match o_signal o with Some _ => MSignal | None => if o_restart o then MRestart else o_on_busy o end.
(* the signal sent in signal mode (repaired precedence) and the stop signal of restart mode *)
Definition busy_signal (o : opts) : N :=
  match o_signal o with Some s => s | None => match o_stop_signal o with Some s => s | None => 15 end end.
Definition stop_sig (o : opts) : N := match o_stop_signal o with Some s => s | None => 15 end.

(* the Job API calls the handler can make, by their effect on runs *)
Inductive call : Set :=
  | KSignal          (* job.signal: delivered if running, else nothing *)
  | KRestart         (* restart / restart_with_signal = [Stop|GracefulStop; Start]: stops if running, then always starts *)
  | KTryRestart      (* try_restart(_with_signal): restarts only if still running *)
  | KStart           (* start: starts unless running *)
  | KWaitEnd         (* to_wait().await in a helper task: the following calls happen when the current run has ended *)
  | KNoop            (* run / clone / hooks: no effect on runs *)
  | KUnknown.
Definition call_of (s : string) : call :=
  if String.eqb s "signal" then KSignal
  else if String.eqb s "restart_with_signal" || String.eqb s "restart" then KRestart
  else if String.eqb s "try_restart_with_signal" || String.eqb s "try_restart" then KTryRestart
  else if String.eqb s "start" then KStart
  else if String.eqb s "to_wait" then KWaitEnd
  else if String.eqb s "run" || String.eqb s "clone" || String.eqb s "run_async" || String.eqb s "set_spawn_hook" then KNoop
  else KUnknown.

Record table : Set := mkTab { t_signal : list call; t_restart : list call; t_queue : list call; t_donothing : list call; t_idle : list call }.

Inductive act : Set := AChange | AStart | ASignal (s : N) | AStopStart (s : N) | AExit | ABad.
(* Change r: a batch of changes is handled; r = the command ends between the in-job state query and the
   processing of the calls it queued *)
Inductive ev : Set := Change (raced : bool) | Exit.

Record st : Set := mkSt {
  running : bool;
  deferred : option (list call);   (* the queue helper waits for the run to end (the `queued` flag is set) *)
  pending : bool;                  (* ghost: a change was handled since the last start of a run *)
  log : list act }.                (* newest first *)

Definition st0 : st := mkSt false None false [].
Definition queued (s : st) : bool := match deferred s with Some _ => true | None => false end.

Definition start (s : st) : st := mkSt true (deferred s) false (AStart :: log s).

Section Table.
  Variable T : table.
  Variable o : opts.

  Fixpoint apply_calls (cs : list call) (s : st) : st :=
    match cs with
    | [] => s
    | c :: r =>
        match c with
        | KNoop => apply_calls r s
        | KSignal => apply_calls r (if running s then mkSt true (deferred s) (pending s) (ASignal (busy_signal o) :: log s) else s)
        | KRestart => apply_calls r (if running s then mkSt true (deferred s) false (AStopStart (stop_sig o) :: log s) else start s)
        | KTryRestart => apply_calls r (if running s then mkSt true (deferred s) false (AStopStart (stop_sig o) :: log s) else s)
        | KStart => apply_calls r (if running s then s else start s)
        | KWaitEnd => if running s then mkSt true (Some r) (pending s) (log s) else apply_calls r s
        | KUnknown => mkSt (running s) (deferred s) (pending s) (ABad :: log s)
        end
    end.

  Definition do_exit (s : st) : st :=
    if running s then
      let s1 := mkSt false None (pending s) (AExit :: log s) in
      match deferred s with Some cs => apply_calls cs s1 | None => s1 end
    else s.

  Definition arm (m : mode) : list call :=
    match m with MDoNothing => t_donothing T | MQueue => t_queue T | MRestart => t_restart T | MSignal => t_signal T end.

  Definition step (s : st) (e : ev) : st :=
    match e with
    | Change r =>
        let s1 := mkSt (running s) (deferred s) true (AChange :: log s) in
        (* the decision, on the state the query sees *)
        let cs := if running s then
                    match eff_mode o with
                    | MQueue => if queued s then [] else arm MQueue        (* queued.fetch_or(true): already queued *)
                    | m => arm m
                    end
                  else t_idle T in
        apply_calls cs (if r then do_exit s1 else s1)
    | Exit => do_exit s
    end.

  (* the empty urgent event sent at start-up unless --postpone is handled like a change while idle *)
  Definition boot : st := if o_postpone o then st0 else step st0 (Change false).
  Definition run (es : list ev) : st := fold_left step es boot.
End Table.

Definition is_start (a : act) : bool := match a with AStart | AStopStart _ => true | _ => false end.
Definition starts (s : st) : nat := List.length (filter is_start (log s)).
