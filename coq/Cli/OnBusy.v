(* Model of the CLI's action logic for filesystem changes (cli/src/config.rs, the on_action_async handler
   and its in-job query closure; cli/src/args/events.rs::normalise; cli/src/lib.rs start-up event) at the
   level of runs of the single supervised command.  That runs never overlap at the process level is C04. *)
From Coq Require Import List NArith Bool Lia.
Import ListNotations.
Open Scope N_scope.

Inductive mode : Set := MDoNothing | MQueue | MRestart | MSignal.

Record opts : Set := mkO {
  o_on_busy : mode;              (* --on-busy-update *)
  o_restart : bool;              (* -r / --restart *)
  o_signal : option N;           (* --signal *)
  o_stop_signal : option N;      (* --stop-signal *)
  o_postpone : bool }.           (* --postpone *)

(* EventsArgs::normalise *)
Definition eff_mode (o : opts) : mode :=
  match o_signal o with Some _ => MSignal | None => if o_restart o then MRestart else o_on_busy o end.
(* the signal sent in signal mode (repaired precedence) and the stop signal of restart mode *)
Definition busy_signal (o : opts) : N :=
  match o_signal o with Some s => s | None => match o_stop_signal o with Some s => s | None => 15 end end.
Definition stop_sig (o : opts) : N := match o_stop_signal o with Some s => s | None => 15 end.

Inductive act : Set := AChange | AStart | ASignal (s : N) | AStopStart (s : N) | AExit.
Inductive ev : Set := Change | Exit.

Record st : Set := mkSt {
  running : bool;
  queued : bool;          (* the `queued` flag / the queue helper is waiting for the run to end *)
  pending : bool;         (* ghost: a change was handled since the last start of a run *)
  log : list act }.       (* newest first *)

Definition st0 : st := mkSt false false false [].

Definition start (s : st) : st := mkSt true false false (AStart :: log s).

Definition step (o : opts) (s : st) (e : ev) : st :=
  match e with
  | Change =>
      let s1 := mkSt (running s) (queued s) true (AChange :: log s) in
      if running s then
        match eff_mode o with
        | MDoNothing => s1
        | MSignal => mkSt true (queued s) true (ASignal (busy_signal o) :: log s1)
        | MRestart => mkSt true false false (AStopStart (stop_sig o) :: log s1)
        | MQueue => mkSt true true true (log s1)
        end
      else start s1
  | Exit =>
      if running s then
        let s1 := mkSt false (queued s) (pending s) (AExit :: log s) in
        if queued s then start s1 else s1
      else s
  end.

(* the empty urgent event sent at start-up unless --postpone is handled like a change while idle *)
Definition boot (o : opts) : st := if o_postpone o then st0 else step o st0 Change.
Definition run (o : opts) (es : list ev) : st := fold_left (step o) es (boot o).

Definition is_start (a : act) : bool := match a with AStart | AStopStart _ => true | _ => false end.
Definition starts (s : st) : nat := List.length (filter is_start (log s)).
