(* Model of supervisor/src/command/conversions.rs (argv construction, wrapper choice) and of
   cli/src/config.rs::interpret_command_args (unix). *)
From Coq Require Import List NArith String Ascii Bool.
From WX Require Import Base.Show Base.Bytes.
Import ListNotations.
Open Scope string_scope.

Record shell : Type := mkShell { sh_prog : string; sh_options : list string; sh_progopt : option string }.
Inductive program : Type :=
  | Exec (prog : string) (args : list string)
  | ShellP (sh : shell) (command : string) (args : list string).

(* Command::to_spawnable, non-windows: the argv the child is exec'd with *)
Definition to_argv (p : program) : list string :=
  match p with
  | Exec prog args => prog :: args
  | ShellP sh command args =>
      sh_prog sh :: sh_options sh ++ (match sh_progopt sh with Some o => [o] | None => [] end)
                 ++ [command] ++ args
  end.

Inductive wrapper : Set := KillOnDrop | ProcessSession | ProcessGroupLeader | ResetSigmask.
Record spawn_options : Set := mkOpts { grouped : bool; session : bool; reset_sigmask : bool }.
Definition wrappers (o : spawn_options) : list wrapper :=
  KillOnDrop ::
  (if session o then [ProcessSession] else if grouped o then [ProcessGroupLeader] else []) ++
  (if reset_sigmask o then [ResetSigmask] else []).

(* ---- CLI ---- *)
Definition is_ascii_ws (c : ascii) : bool :=
  let n := N_of_ascii c in
  orb (N.eqb n 32) (orb (N.eqb n 9) (orb (N.eqb n 10) (orb (N.eqb n 12) (N.eqb n 13)))).

(* str::split_ascii_whitespace *)
Fixpoint split_ws_aux (s cur : string) : list string :=
  match s with
  | EmptyString => match cur with EmptyString => [] | _ => [cur] end
  | String c r =>
      if is_ascii_ws c then
        match cur with EmptyString => split_ws_aux r EmptyString | _ => cur :: split_ws_aux r EmptyString end
      else split_ws_aux r (cur ++ String c EmptyString)
  end.
Definition split_ws (s : string) : list string := split_ws_aux s EmptyString.

Inductive wrap_mode : Set := WrapGroup | WrapSession | WrapNone.

Inductive interp : Type :=
  | IErrEmptyShell            (* RuntimeError::CommandShellEmptyShell *)
  | IPanic                    (* split_first().unwrap() on a whitespace-only shell string *)
  | ICommand (p : program) (o : spawn_options).

(* interpret_command_args; `shell_opt` is --shell, `env_shell` is $SHELL; program is non-empty (clap) *)
Definition interpret (no_shell : bool) (shell_opt env_shell : option string) (wrap : wrap_mode)
           (prog : list string) : interp :=
  let opts := mkOpts (match wrap with WrapGroup => true | _ => false end)
                     (match wrap with WrapSession => true | _ => false end) false in
  let exec := match prog with
              | p :: args => ICommand (Exec p args) opts
              | [] => IPanic
              end in
  if no_shell then exec else
  let sh := match shell_opt with Some s => s | None => match env_shell with Some s => s | None => "sh" end end in
  if String.eqb sh "" then IErrEmptyShell
  else if String.eqb sh "none" then exec
  else match split_ws sh with
       | [] => IPanic
       | shprog :: shopts =>
           ICommand (ShellP (mkShell shprog shopts (Some "-c")) (sep_by " " prog) []) opts
       end.

Definition show_interp (i : interp) : string :=
  match i with
  | IErrEmptyShell => "ERR:empty-shell"
  | IPanic => "PANIC"
  | ICommand p o =>
      show_list show_hex (to_argv p) ++ " " ++
      (match p with Exec _ _ => "exec" | ShellP _ _ _ => "shell" end) ++
      " g=" ++ show_bool (grouped o) ++ " s=" ++ show_bool (session o)
  end.
