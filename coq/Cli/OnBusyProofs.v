From Coq Require Import List NArith Bool String Lia.
From WX Require Import Gen.CliOnBusy_gen Cli.OnBusy Cli.OnBusyTable.
Import ListNotations.
Open Scope N_scope.

Lemma table_shape : T = mkTab [KSignal] [KRestart; KNoop] [KNoop; KWaitEnd; KStart; KNoop] [] [KStart; KNoop].
Proof. reflexivity. Qed.
Lemma shorthands_shape : onbusy_shorthands = ("Signal", "Restart")%string /\ onbusy_default = "do-nothing"%string /\
                         onbusy_signal_expr = "signal.or(stop_signal).unwrap_or(Signal::Terminate)"%string.
Proof. repeat split. Qed.

Notation step := (OnBusy.step T).
Notation run := (OnBusy.run T).
Notation boot := (OnBusy.boot T).

(* start-up *)
Lemma startup_runs o : o_postpone o = false -> running (boot o) = true /\ log (boot o) = [AStart; AChange].
Proof. intro H. unfold OnBusy.boot. rewrite H. split; reflexivity. Qed.
Lemma postpone_waits o : o_postpone o = true -> boot o = st0.
Proof. intro H. unfold OnBusy.boot. rewrite H. reflexivity. Qed.

(* a change while idle starts the command, in every mode *)
Lemma idle_change_starts o s r : running s = false ->
  running (step o s (Change r)) = true /\ log (step o s (Change r)) = AStart :: AChange :: log s.
Proof. intro H. unfold OnBusy.step, do_exit. cbn [running]. rewrite H. destruct r; split; reflexivity. Qed.

(* do-nothing: a change while running has no effect on the command *)
Lemma do_nothing o s : eff_mode o = MDoNothing -> running s = true ->
  log (step o s (Change false)) = AChange :: log s /\ running (step o s (Change false)) = true /\ deferred (step o s (Change false)) = deferred s.
Proof. intros M R. unfold OnBusy.step. rewrite R, M. repeat split; exact R. Qed.

(* signal: exactly the configured signal, nothing else *)
Lemma signal_only o s : eff_mode o = MSignal -> running s = true ->
  log (step o s (Change false)) = ASignal (busy_signal o) :: AChange :: log s /\ running (step o s (Change false)) = true.
Proof. intros M R. unfold OnBusy.step. rewrite R, M. cbn. rewrite ?R. split; reflexivity. Qed.

Lemma busy_signal_precedence o s : o_signal o = Some s -> busy_signal o = s.
Proof. intro H. unfold busy_signal. rewrite H. reflexivity. Qed.
Lemma signal_shorthand o s : o_signal o = Some s -> eff_mode o = MSignal.
Proof. intro H. unfold eff_mode. rewrite H. reflexivity. Qed.
Lemma restart_shorthand o : o_signal o = None -> o_restart o = true -> eff_mode o = MRestart.
Proof. intros H R. unfold eff_mode. rewrite H, R. reflexivity. Qed.

(* restart: stop with the stop signal, then one fresh start *)
Lemma restart_restarts o s : eff_mode o = MRestart -> running s = true ->
  log (step o s (Change false)) = AStopStart (stop_sig o) :: AChange :: log s /\ running (step o s (Change false)) = true /\ pending (step o s (Change false)) = false.
Proof. intros M R. unfold OnBusy.step. rewrite R, M. cbn. rewrite ?R. repeat split; reflexivity. Qed.

(* ... and when the command ends just before the restart is processed, it is started all the same *)
Lemma restart_raced o s : eff_mode o = MRestart -> running s = true -> deferred s = None ->
  log (step o s (Change true)) = AStart :: AExit :: AChange :: log s /\ running (step o s (Change true)) = true /\ pending (step o s (Change true)) = false.
Proof. intros M R D. unfold OnBusy.step, do_exit. rewrite R, M. cbn. rewrite ?R, ?D. cbn. repeat split; reflexivity. Qed.

(* queue: any number of changes during one run cause exactly one further run, started when it ends *)
Lemma queue_first_change o s : eff_mode o = MQueue -> running s = true -> deferred s = None ->
  step o s (Change false) = mkSt true (Some [KStart; KNoop]) true (AChange :: log s).
Proof. intros M R D. unfold OnBusy.step, queued. rewrite R, M, D. cbn. reflexivity. Qed.
Lemma queue_more_changes o s cs : eff_mode o = MQueue -> running s = true -> deferred s = Some cs ->
  step o s (Change false) = mkSt true (Some cs) true (AChange :: log s).
Proof. intros M R D. unfold OnBusy.step, queued. rewrite R, M, D. cbn. rewrite ?R, ?D. reflexivity. Qed.

Lemma queue_changes_only_mark o s n :
  eff_mode o = MQueue -> running s = true -> (deferred s = None \/ deferred s = Some [KStart; KNoop]) ->
  let s' := fold_left (step o) (repeat (Change false) n) s in
  running s' = true /\ starts s' = starts s /\ (n <> 0%nat -> deferred s' = Some [KStart; KNoop]) /\ (n = 0%nat -> deferred s' = deferred s).
Proof.
  intros M. revert s. induction n as [|n IH]; intros s R D; cbn [repeat fold_left].
  - repeat split; try reflexivity; try assumption. intro H; contradiction.
  - assert (step o s (Change false) = mkSt true (Some [KStart; KNoop]) true (AChange :: log s)) as E.
    { destruct D as [D|D]; [apply queue_first_change; assumption | rewrite (queue_more_changes o s _ M R D); reflexivity]. }
    rewrite E. destruct (IH (mkSt true (Some [KStart; KNoop]) true (AChange :: log s)) eq_refl (or_intror eq_refl)) as (A & B & C & D').
    split; [exact A|]. split; [rewrite B; reflexivity|]. split; [|intro H; discriminate].
    intros _. destruct n; [rewrite (D' eq_refl); reflexivity | apply C; discriminate].
Qed.

Theorem queue_once o s n :
  eff_mode o = MQueue -> running s = true -> deferred s = None -> n <> 0%nat ->
  let s' := step o (fold_left (step o) (repeat (Change false) n) s) Exit in
  running s' = true /\ starts s' = S (starts s) /\ deferred s' = None /\ pending s' = false.
Proof.
  intros M R D N. destruct (queue_changes_only_mark o s n M R (or_introl D)) as (A & B & C & _). specialize (C N). cbn zeta.
  set (s1 := fold_left (step o) (repeat (Change false) n) s) in *. unfold OnBusy.step, do_exit. rewrite A, C.
  cbn. unfold starts in *. cbn [log filter is_start List.length]. rewrite B. repeat split; reflexivity.
Qed.

(* invariant shared by the freshness theorems: the helper only ever waits to start the command *)
Definition DefOk (s : st) : Prop := deferred s = None \/ (deferred s = Some [KStart; KNoop] /\ running s = true).

(* freshness, restart mode: after every event -- including a command that ends at the moment of the decision -- no change
   is left that was not followed by a start *)
Theorem restart_fresh o es : eff_mode o = MRestart -> pending (run o es) = false.
Proof.
  intro M. unfold OnBusy.run.
  assert (pending (boot o) = false /\ deferred (boot o) = None) as B by (unfold OnBusy.boot; destruct (o_postpone o); split; reflexivity).
  revert B. generalize (boot o). induction es as [|e r IH]; intros s [P D]; cbn [fold_left]; [exact P|]. apply IH.
  destruct e as [rc|]; unfold OnBusy.step, do_exit.
  - cbn [running deferred pending log]. destruct (running s) eqn:R; rewrite ?M.
    + destruct rc; cbn; rewrite ?R, ?D; cbn; split; reflexivity || exact D.
    + destruct rc; cbn; rewrite ?R, ?D; cbn; split; reflexivity || exact D.
  - destruct (running s); [rewrite D; split; [exact P | reflexivity] | split; assumption].
Qed.

(* freshness, queue mode: a change not yet followed by a start means the command is running and its next run is queued;
   as soon as the current run ends the queued run starts (queue_once) *)
Theorem queue_fresh o es :
  eff_mode o = MQueue -> let s := run o es in pending s = true -> running s = true /\ deferred s = Some [KStart; KNoop].
Proof.
  intro M. unfold OnBusy.run.
  assert ((pending (boot o) = true -> running (boot o) = true /\ deferred (boot o) = Some [KStart; KNoop]) /\ DefOk (boot o)) as B
    by (unfold OnBusy.boot, DefOk; destruct (o_postpone o); cbn; split; [intro H; discriminate | left; reflexivity | intro H; discriminate | left; reflexivity]).
  revert B. generalize (boot o).
  induction es as [|e r IH]; intros s [P D]; cbn [fold_left]; [exact P|]. apply IH. clear IH.
  assert (forall (p r : bool) (d : option (list call)) (X : st),
            pending X = p -> running X = r -> deferred X = d ->
            (r = true /\ d = Some [KStart; KNoop]) \/ (p = false /\ d = None) ->
            (pending X = true -> running X = true /\ deferred X = Some [KStart; KNoop]) /\ DefOk X) as Fin.
  { intros p0 r0 d0 X <- <- <- [[A B]|[A B]]; (split; [intro H; try (split; assumption); rewrite A in H; discriminate|]); unfold DefOk;
      [right; split; assumption | left; exact B]. }
  unfold DefOk in D. destruct e as [rc|]; unfold OnBusy.step, do_exit, queued.
  - cbn [running deferred pending log]. destruct (running s) eqn:R.
    + rewrite M. destruct D as [D|[D _]]; rewrite D; destruct rc;
        (eapply Fin; [reflexivity | reflexivity | reflexivity | cbn; tauto]).
    + destruct D as [D|[_ D]]; [|discriminate]. destruct rc; (eapply Fin; [reflexivity | reflexivity | reflexivity | cbn; rewrite ?R, ?D; cbn; tauto]).
  - destruct (running s) eqn:R.
    + destruct D as [D|[D _]]; rewrite D; (eapply Fin; [reflexivity | reflexivity | reflexivity | cbn]); [|tauto].
      destruct (pending s) eqn:Pd; [|tauto]. destruct (P eq_refl) as [_ X]. rewrite D in X. discriminate.
    + split; [rewrite R; exact P | unfold DefOk; rewrite R; exact D].
Qed.

(* runs are sequential: a plain start only ever happens while nothing is running *)
Theorem starts_only_when_idle o s e : DefOk s -> In AStart (log (step o s e)) -> ~ In AStart (log s) ->
  (exists r, e = Change r /\ (running s = false \/ r = true)) \/ (e = Exit /\ running s = true /\ deferred s <> None).
Proof.
  intros D H N. destruct e as [rc|].
  - left. exists rc. split; [reflexivity|]. destruct (running s) eqn:R; [|left; reflexivity]. destruct rc; [right; reflexivity|]. exfalso.
    unfold OnBusy.step, queued in H. rewrite ?R in H. destruct (eff_mode o); cbn in H.
    + destruct H as [H|H]; [discriminate | contradiction].
    + destruct D as [D|[D _]]; rewrite D in H; cbn in H; rewrite ?R in H; cbn in H; destruct H as [H|H]; try discriminate; contradiction.
    + rewrite ?R in H. cbn in H. destruct H as [H|[H|H]]; try discriminate; contradiction.
    + rewrite ?R in H. cbn in H. destruct H as [H|[H|H]]; try discriminate; contradiction.
  - right. unfold OnBusy.step, do_exit in H. destruct (running s) eqn:R; [|contradiction].
    destruct (deferred s) eqn:Df; [repeat split; discriminate|]. exfalso. cbn in H. destruct H as [H|H]; [discriminate | contradiction].
Qed.
