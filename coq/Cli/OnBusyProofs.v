From Coq Require Import List NArith Bool Lia.
From WX Require Import Cli.OnBusy.
Import ListNotations.
Open Scope N_scope.

(* start-up *)
Lemma startup_runs o : o_postpone o = false -> running (boot o) = true /\ log (boot o) = [AStart; AChange].
Proof. intro H. unfold boot. rewrite H. split; reflexivity. Qed.
Lemma postpone_waits o : o_postpone o = true -> boot o = st0.
Proof. intro H. unfold boot. rewrite H. reflexivity. Qed.

(* a change while idle starts the command, in every mode *)
Lemma idle_change_starts o s : running s = false -> running (step o s Change) = true /\ log (step o s Change) = AStart :: AChange :: log s.
Proof. intro H. unfold step. rewrite H. split; reflexivity. Qed.

(* do-nothing: a change while running has no effect on the command *)
Lemma do_nothing o s : eff_mode o = MDoNothing -> running s = true ->
  log (step o s Change) = AChange :: log s /\ running (step o s Change) = true /\ queued (step o s Change) = queued s.
Proof. intros M R. unfold step. rewrite R, M. repeat split; reflexivity. Qed.

(* signal: exactly the configured signal, nothing else *)
Lemma signal_only o s : eff_mode o = MSignal -> running s = true ->
  log (step o s Change) = ASignal (busy_signal o) :: AChange :: log s /\ running (step o s Change) = true.
Proof. intros M R. unfold step. rewrite R, M. split; reflexivity. Qed.

Lemma busy_signal_precedence o s : o_signal o = Some s -> busy_signal o = s.
Proof. intro H. unfold busy_signal. rewrite H. reflexivity. Qed.
Lemma signal_shorthand o s : o_signal o = Some s -> eff_mode o = MSignal.
Proof. intro H. unfold eff_mode. rewrite H. reflexivity. Qed.
Lemma restart_shorthand o : o_signal o = None -> o_restart o = true -> eff_mode o = MRestart.
Proof. intros H R. unfold eff_mode. rewrite H, R. reflexivity. Qed.

(* restart: stop with the stop signal, then one fresh start *)
Lemma restart_restarts o s : eff_mode o = MRestart -> running s = true ->
  log (step o s Change) = AStopStart (stop_sig o) :: AChange :: log s /\ running (step o s Change) = true /\ pending (step o s Change) = false.
Proof. intros M R. unfold step. rewrite R, M. repeat split; reflexivity. Qed.

(* queue: any number of changes during one run cause exactly one further run, started when it ends *)
Lemma queue_changes_only_mark o s n :
  eff_mode o = MQueue -> running s = true ->
  let s' := fold_left (step o) (repeat Change n) s in
  running s' = true /\ starts s' = starts s /\ (n <> 0%nat -> queued s' = true) /\ (n = 0%nat -> queued s' = queued s).
Proof.
  intros M R. revert s R. induction n as [|n IH]; intros s R; cbn [repeat fold_left].
  - repeat split; try reflexivity; try assumption. intro H; contradiction.
  - assert (step o s Change = mkSt true true true (AChange :: log s)) as E by (unfold step; rewrite R, M; reflexivity).
    rewrite E. destruct (IH (mkSt true true true (AChange :: log s)) eq_refl) as (A & B & C & D).
    split; [exact A|]. split; [rewrite B; reflexivity|]. split; [|intro H; discriminate].
    intros _. destruct n; [rewrite (D eq_refl); reflexivity | apply C; discriminate].
Qed.

Theorem queue_once o s n :
  eff_mode o = MQueue -> running s = true -> n <> 0%nat ->
  let s' := step o (fold_left (step o) (repeat Change n) s) Exit in
  running s' = true /\ starts s' = S (starts s) /\ queued s' = false /\ pending s' = false.
Proof.
  intros M R N. destruct (queue_changes_only_mark o s n M R) as (A & B & C & _). specialize (C N). cbn zeta.
  set (s1 := fold_left (step o) (repeat Change n) s) in *. unfold step. rewrite A, C.
  unfold start, starts in *. cbn [running queued pending log filter is_start List.length]. rewrite B. repeat split; reflexivity.
Qed.

(* freshness, restart mode: after every event no change is left that was not followed by a start *)
Theorem restart_fresh o es : eff_mode o = MRestart -> pending (run o es) = false.
Proof.
  intro M. unfold run.
  assert (pending (boot o) = false) as B by (unfold boot; destruct (o_postpone o); reflexivity).
  revert B. generalize (boot o). induction es as [|e r IH]; intros s P; simpl; [exact P|]. apply IH.
  destruct e; unfold step.
  - destruct (running s); [rewrite M; reflexivity | reflexivity].
  - destruct (running s); [|exact P]. destruct (queued s); [reflexivity | exact P].
Qed.

(* freshness, queue mode: a change not yet followed by a start means the command is running and the next
   run is queued; as soon as the current run ends the queued run starts (queue_once) *)
Theorem queue_fresh o es :
  eff_mode o = MQueue -> let s := run o es in pending s = true -> running s = true /\ queued s = true.
Proof.
  intro M. unfold run.
  assert (pending (boot o) = true -> running (boot o) = true /\ queued (boot o) = true) as B
    by (unfold boot; destruct (o_postpone o); cbn; intro H; discriminate).
  revert B. generalize (boot o). induction es as [|e r IH]; intros s P; simpl; [exact P|]. apply IH.
  destruct e; unfold step.
  - destruct (running s) eqn:R; [rewrite M; cbn; intros _; split; reflexivity | cbn; intro H; discriminate].
  - destruct (running s) eqn:R; [|rewrite R; exact P]. destruct (queued s) eqn:Q; cbn; [intro H; discriminate|].
    intro H. destruct (P H) as [_ X]. discriminate.
Qed.

(* runs are sequential: a plain start only ever happens while nothing is running *)
Theorem starts_only_when_idle o s e : In AStart (log (step o s e)) -> ~ In AStart (log s) ->
  (e = Change /\ running s = false) \/ (e = Exit /\ running s = true /\ queued s = true).
Proof.
  destruct e; unfold step; intros H N.
  - destruct (running s) eqn:R; [|left; split; reflexivity].
    exfalso. destruct (eff_mode o); cbn in H; repeat (destruct H as [H|H]; try discriminate); apply N; exact H.
  - destruct (running s) eqn:R; [|contradiction]. destruct (queued s) eqn:Q; [right; repeat split; reflexivity|].
    exfalso. cbn in H. destruct H as [H|H]; [discriminate | contradiction].
Qed.
