(* Model of supervisor/src/flag.rs: a flag with waiting tasks.  `multi = true` is the repaired flag (a
   list of wakers), `multi = false` the pinned one (futures' single-slot AtomicWaker: registering a waker
   overwrites the previous one).  A waiter task is re-polled only when it is woken. *)
From Coq Require Import List Arith Bool Lia.
Import ListNotations.

Record fstate : Type := mkF {
  f_set : bool;
  f_slot : list nat;       (* registered wakers (task ids); at most one when not multi *)
  f_pending : list nat;    (* tasks whose last poll returned Pending and that were not woken since *)
  f_woken : list nat;      (* tasks that were woken (and will be polled again) *)
  f_done : list nat }.     (* tasks whose await has completed *)

Definition finit : fstate := mkF false [] [] [] [].

Inductive fop : Set := FPoll (task : nat) | FRaise.

Definition remove_nat (x : nat) (l : list nat) : list nat := filter (fun y => negb (Nat.eqb x y)) l.

Definition fstep (multi : bool) (s : fstate) (o : fop) : fstate :=
  match o with
  | FPoll i =>
      if f_set s then mkF true (f_slot s) (remove_nat i (f_pending s)) (remove_nat i (f_woken s)) (i :: f_done s)
      else mkF false (if multi then (if existsb (Nat.eqb i) (f_slot s) then f_slot s else i :: f_slot s) else [i])
                     (i :: remove_nat i (f_pending s)) (remove_nat i (f_woken s)) (f_done s)
  | FRaise =>
      (* wake the registered wakers: they leave pending and will be polled again *)
      mkF true [] (filter (fun i => negb (existsb (Nat.eqb i) (f_slot s))) (f_pending s))
          (f_slot s ++ f_woken s) (f_done s)
  end.

Definition frun (multi : bool) (ops : list fop) (s : fstate) : fstate := fold_left (fstep multi) ops s.

(* invariant of the repaired flag: while unset, every pending task is registered *)
Definition FInv (s : fstate) : Prop :=
  (f_set s = false -> forall i, In i (f_pending s) -> In i (f_slot s)) /\
  (f_set s = true -> f_pending s = []).

Lemma remove_nat_In x y l : In y (remove_nat x l) -> In y l /\ x <> y.
Proof.
  unfold remove_nat. rewrite filter_In. intros [H1 H2]. split; [exact H1|].
  apply negb_true_iff in H2. apply Nat.eqb_neq in H2. exact H2.
Qed.

Lemma fstep_inv s o : FInv s -> FInv (fstep true s o).
Proof.
  intros [I1 I2]. destruct o as [i|]; unfold fstep.
  - destruct (f_set s) eqn:S.
    + split; [discriminate|]. intros _. cbn. rewrite (I2 eq_refl). reflexivity.
    + split; [|discriminate]. intros _ j Hj. cbn in *. destruct Hj as [<-|Hj].
      * destruct (existsb (Nat.eqb i) (f_slot s)) eqn:X; [|left; reflexivity].
        apply existsb_exists in X. destruct X as (k & Hk & E). apply Nat.eqb_eq in E. subst. exact Hk.
      * apply remove_nat_In in Hj. destruct Hj as [Hj _]. specialize (I1 eq_refl j Hj).
        destruct (existsb (Nat.eqb i) (f_slot s)); [exact I1 | right; exact I1].
  - split; [discriminate|]. intros _. cbn.
    destruct (f_set s) eqn:S; [rewrite (I2 eq_refl); reflexivity|].
    assert (forall l, (forall i, In i l -> In i (f_slot s)) -> filter (fun i => negb (existsb (Nat.eqb i) (f_slot s))) l = []) as G.
    { induction l as [|x r IH]; intro H; simpl; [reflexivity|].
      assert (existsb (Nat.eqb x) (f_slot s) = true) as ->.
      { apply existsb_exists. exists x. split; [apply H; left; reflexivity | apply Nat.eqb_refl]. }
      simpl. apply IH. intros i Hi. apply H. right. exact Hi. }
    apply G. apply (I1 eq_refl).
Qed.

Lemma frun_inv ops s : FInv s -> FInv (frun true ops s).
Proof. revert s. induction ops as [|o r IH]; intros s I; simpl; [exact I | apply IH, fstep_inv, I]. Qed.

(* once raised, no task remains pending-and-unwoken, for any number of waiters and any poll order *)
Theorem raised_flag_has_no_pending_waiter (ops : list fop) (n : nat) :
  (forall i, In (FPoll i) ops -> (i < n)%nat) ->
  let s := frun true ops finit in
  f_set s = true -> forall i, In i (f_pending s) -> False.
Proof.
  intros _ s S i Hi. assert (FInv s) as [_ I2] by (apply frun_inv; split; [intros _ j [] | discriminate]).
  rewrite (I2 S) in Hi. exact Hi.
Qed.

(* the single-slot flag loses the first of two waiters *)
Lemma single_slot_loses_waiter :
  let s := frun false [FPoll 0; FPoll 1; FRaise]%nat finit in
  f_set s = true /\ In 0%nat (f_pending s) /\ ~ In 0%nat (f_woken s).
Proof. vm_compute. split; [reflexivity|]. split; [left; reflexivity|]. intros [H|[]]. discriminate. Qed.
