(* throttle_collect with a throttle that is changed at run time (Config::throttle is a Changeable read at every loop
   turn).  Inputs are the received events and the configuration changes, in time order.  A loop turn happens when an
   event is received and when the time-out of the wait in progress expires; the time-out was computed from the value read
   at the previous turn (t_th), the turn itself reads the value configured now (t_cfg).  While the configuration is constant
   at most two time-out turns can happen before the next input. *)
From Coq Require Import List NArith Bool Lia.
From WX Require Import Worker.Throttle.
Import ListNotations.
Open Scope N_scope.

Inductive inp : Set := IEv (R : N) (e : ev) | ISet (T : N) (v : N).

Record rstate : Set := mkR {
  r_set : list N; r_last : N; r_out : list batch; r_errs : list N;
  r_th : N;          (* value read at the last loop turn *)
  r_cfg : N }.       (* value configured now *)

Definition r0 (init : N) : rstate := mkR [] 0 [] [] init init.

Definition deliver (s : rstate) (d : N) : rstate :=
  mkR [] (r_last s) (mkB (r_last s) d false (r_set s) :: r_out s) (r_errs s) (r_th s) (r_cfg s).
Definition set_rth (v : N) (s : rstate) : rstate := mkR (r_set s) (r_last s) (r_out s) (r_errs s) v (r_cfg s).

(* the time-out turns that happen strictly before T *)
Definition expire (s : rstate) (T : N) : rstate :=
  match r_set s with
  | [] => s
  | _ =>
      let d := r_last s + r_th s in
      if d <? T then
        if r_cfg s <=? r_th s then deliver s d                       (* turn at d: out of throttle, deliver *)
        else let s' := set_rth (r_cfg s) s in                          (* turn at d: the throttle was raised, wait on *)
             let d' := r_last s + r_cfg s in
             if d' <? T then deliver s' d' else s'
      else s
  end.

Definition on_inp (s0 : rstate) (x : inp) : rstate :=
  match x with
  | ISet T v => let s := expire s0 T in mkR (r_set s) (r_last s) (r_out s) (r_errs s) (r_th s) v
  | IEv R e =>
      let s := expire s0 R in
      let th := r_cfg s in
      set_rth th
      (if errors_on e then mkR (r_set s) (r_last s) (r_out s) (e_id e :: r_errs s) (r_th s) (r_cfg s)
       else if negb (accepted e) then s
       else
         let last := match r_set s with [] => R | _ => r_last s end in
         let set := r_set s ++ [e_id e] in
         if e_urgent e then mkR [] last (mkB last R true set :: r_out s) (r_errs s) (r_th s) (r_cfg s)
         else if th <=? R - last then mkR [] last (mkB last R false set :: r_out s) (r_errs s) (r_th s) (r_cfg s)
         else mkR set last (r_out s) (r_errs s) (r_th s) (r_cfg s))
  end.

Definition rt_run (init : N) (l : list inp) : rstate := fold_left on_inp l (r0 init).

(* when input stops the pending set goes out when its window (and a possibly raised one) has run out *)
Definition rt_finish (s : rstate) : list batch :=
  rev (match r_set s with
       | [] => r_out s
       | ids => let d := r_last s + r_th s in
                mkB (r_last s) (if r_cfg s <=? r_th s then d else r_last s + r_cfg s) false ids :: r_out s
       end).
Definition rt_collect (init : N) (l : list inp) : list batch := rt_finish (rt_run init l).
Definition rt_errors (init : N) (l : list inp) : list N := rev (r_errs (rt_run init l)).
