(* Model of lib/src/watchexec.rs::error_hook and of the main task's reaction to worker results (C15).
   Runtime errors arrive through a FIFO channel; the handler may ignore an error, elevate it, set a critical
   error, or keep a reference to the payload (then a critical it sets is NOT taken: the try_unwrap arm). *)
From Coq Require Import List NArith Bool Lia.
Import ListNotations.

Inductive rerr : Set := RExit | RErr (id : N).
Inductive crit : Set := CExit | CElevated (id : N) | COther (c : N).

Inductive hbeh : Set := HIgnore | HElevate | HCritical (c : N) | HCriticalKeepRef (c : N).

Inductive hook_result : Set := HookRunning | HookEnded (c : crit).

(* error_hook: returns the errors passed to the handler (in order) and how the task ended *)
Fixpoint error_hook (beh : N -> hbeh) (errs : list rerr) : list N * hook_result :=
  match errs with
  | [] => ([], HookRunning)
  | RExit :: _ => ([], HookEnded CExit)
  | RErr i :: r =>
      match beh i with
      | HIgnore | HCriticalKeepRef _ => let (h, res) := error_hook beh r in (i :: h, res)
      | HElevate => ([i], HookEnded (CElevated i))
      | HCritical c => ([i], HookEnded (COther c))
      end
  end.

(* the main task: an Exit pseudo-error only closes the event queue (the action worker then ends and main
   returns Ok); any other critical error ends main with that error *)
Inductive main_result : Set := MainRunning | MainOk | MainErr (c : crit).
Definition main_of (r : hook_result) : main_result :=
  match r with
  | HookRunning => MainRunning
  | HookEnded CExit => MainOk
  | HookEnded c => MainErr c
  end.

Fixpoint prefix_until (stop : N -> bool) (l : list rerr) : list N :=
  match l with
  | [] => []
  | RExit :: _ => []
  | RErr i :: r => if stop i then [i] else i :: prefix_until stop r
  end.

Definition stops (beh : N -> hbeh) (i : N) : bool :=
  match beh i with HElevate | HCritical _ => true | _ => false end.

(* exactly once, in order: the handler sees precisely the errors up to and including the first one it
   turns critical (or up to an Exit pseudo-error) *)
Theorem handled_exactly beh errs : fst (error_hook beh errs) = prefix_until (stops beh) errs.
Proof.
  induction errs as [|[|i] r IH]; simpl; try reflexivity. unfold stops.
  destruct (beh i); simpl; try reflexivity; destruct (error_hook beh r); simpl in *; rewrite IH; reflexivity.
Qed.

(* containment: while the handler neither elevates nor sets a critical error, the hook keeps running
   and every error is handled *)
Theorem no_elevation_continues beh errs :
  (forall i, In (RErr i) errs -> stops beh i = false) -> ~ In RExit errs ->
  error_hook beh errs = (map (fun e => match e with RErr i => i | RExit => 0%N end) errs, HookRunning).
Proof.
  induction errs as [|[|i] r IH]; intros H NE; simpl; [reflexivity | exfalso; apply NE; left; reflexivity|].
  assert (stops beh i = false) as S by (apply H; left; reflexivity). unfold stops in S.
  rewrite IH; [|intros j Hj; apply H; right; exact Hj | intro X; apply NE; right; exact X].
  destruct (beh i); try discriminate; reflexivity.
Qed.

(* elevation ends the main task with exactly that error *)
Theorem elevation_ends_main beh pre i post :
  (forall j, In (RErr j) pre -> stops beh j = false) -> ~ In RExit pre -> beh i = HElevate ->
  main_of (snd (error_hook beh (pre ++ RErr i :: post))) = MainErr (CElevated i).
Proof.
  induction pre as [|[|j] r IH]; intros H NE B; simpl.
  - rewrite B. reflexivity.
  - exfalso. apply NE. left. reflexivity.
  - assert (stops beh j = false) as S by (apply H; left; reflexivity). unfold stops in S.
    specialize (IH (fun k Hk => H k (or_intror Hk)) (fun X => NE (or_intror X)) B).
    destruct (beh j); try discriminate; destruct (error_hook beh (r ++ RErr i :: post)); simpl in *; exact IH.
Qed.

Theorem critical_ends_main beh pre i c post :
  (forall j, In (RErr j) pre -> stops beh j = false) -> ~ In RExit pre -> beh i = HCritical c ->
  main_of (snd (error_hook beh (pre ++ RErr i :: post))) = MainErr (COther c).
Proof.
  induction pre as [|[|j] r IH]; intros H NE B; simpl.
  - rewrite B. reflexivity.
  - exfalso. apply NE. left. reflexivity.
  - assert (stops beh j = false) as S by (apply H; left; reflexivity). unfold stops in S.
    specialize (IH (fun k Hk => H k (or_intror Hk)) (fun X => NE (or_intror X)) B).
    destruct (beh j); try discriminate; destruct (error_hook beh (r ++ RErr i :: post)); simpl in *; exact IH.
Qed.
