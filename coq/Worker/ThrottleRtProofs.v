From Coq Require Import List NArith Bool Lia.
From WX Require Import Worker.Throttle Worker.ThrottleProofs Worker.ThrottleRt.
Import ListNotations.
Open Scope N_scope.

Definition proj (s : rstate) : tstate := mkT (r_set s) (r_last s) (r_out s) (r_errs s).

(* ---- with a constant configuration the machine is the one of Throttle.v *)
Lemma expire_const s T th : r_cfg s = th -> r_th s = th ->
  proj (expire s T) = flush_timeout (proj s) T th /\ r_cfg (expire s T) = th /\ r_th (expire s T) = th.
Proof.
  intros C H. unfold expire, flush_timeout, proj. cbn [t_set t_last t_out t_errs]. destruct (r_set s) as [|i r] eqn:E.
  - rewrite E. repeat split; assumption.
  - rewrite C, H. destruct (r_last s + th <? T).
    + assert (th <=? th = true) as -> by (apply N.leb_le; lia). unfold deliver. cbn [r_set r_last r_out r_errs r_th r_cfg]. rewrite E. repeat split; assumption.
    + rewrite E. repeat split; assumption.
Qed.

Lemma on_inp_const s R e th : r_cfg s = th -> r_th s = th ->
  proj (on_inp s (IEv R e)) = on_event (proj s) (R, th, e) /\ r_cfg (on_inp s (IEv R e)) = th /\ r_th (on_inp s (IEv R e)) = th.
Proof.
  intros C H. unfold on_inp, on_event. destruct (expire_const s R th C H) as (P & C' & H').
  set (s1 := expire s R) in *. clearbody s1. rewrite <- P. rewrite C'. unfold set_rth, proj. cbn [r_set r_last r_out r_errs r_th r_cfg].
  destruct (errors_on e); [cbn; repeat split; assumption || reflexivity|].
  destruct (negb (accepted e)); [cbn; repeat split; assumption || reflexivity|].
  cbn [t_set t_last t_out t_errs].
  destruct (e_urgent e); [cbn; repeat split; assumption || reflexivity|].
  destruct (th <=? R - _); cbn; repeat split; assumption || reflexivity.
Qed.

Theorem rt_const th (l : list (N * ev)) :
  proj (rt_run th (map (fun x => IEv (fst x) (snd x)) l)) = run_events (map (fun x => (fst x, th, snd x)) l) /\
  rt_collect th (map (fun x => IEv (fst x) (snd x)) l) = collect (map (fun x => (fst x, th, snd x)) l) th.
Proof.
  unfold rt_run, run_events, rt_collect, collect.
  assert (forall s t, proj s = t -> r_cfg s = th -> r_th s = th ->
            proj (fold_left on_inp (map (fun x => IEv (fst x) (snd x)) l) s) = fold_left on_event (map (fun x => (fst x, th, snd x)) l) t /\
            r_cfg (fold_left on_inp (map (fun x => IEv (fst x) (snd x)) l) s) = th /\ r_th (fold_left on_inp (map (fun x => IEv (fst x) (snd x)) l) s) = th) as G.
  { induction l as [|[R e] r IH]; intros s t P C H; cbn [map fold_left fst snd]; [repeat split; assumption|].
    destruct (on_inp_const s R e th C H) as (P' & C' & H'). apply IH; [rewrite P', P; reflexivity | exact C' | exact H']. }
  destruct (G (r0 th) t0 eq_refl eq_refl eq_refl) as (P & C & H). split; [exact P|].
  unfold rt_run, run_events in *. set (sf := fold_left on_inp _ (r0 th)) in *. rewrite <- P. unfold rt_finish, finish, proj. cbn [t_set t_last t_out].
  destruct (r_set sf); [reflexivity|]. rewrite C, H. assert (th <=? th = true) as -> by (apply N.leb_le; lia). reflexivity.
Qed.

(* ---- conservation and non-emptiness hold whatever the configuration does *)
Definition rdelivered (s : rstate) : list N := concat (map b_ids (rev (r_out s))).
Definition one (x : inp) : list N :=
  match x with IEv _ e => if accepted e && negb (errors_on e) then [e_id e] else [] | ISet _ _ => [] end.
Definition rinputs_ok (l : list inp) : list N := flat_map one l.

Lemma rdelivered_cons out b : concat (map b_ids (rev (b :: out))) = concat (map b_ids (rev out)) ++ b_ids b.
Proof. simpl. rewrite map_app, concat_app. simpl. rewrite app_nil_r. reflexivity. Qed.

Lemma expire_conserves s T : rdelivered (expire s T) ++ r_set (expire s T) = rdelivered s ++ r_set s.
Proof.
  unfold expire, rdelivered. destruct (r_set s) as [|i r] eqn:E; [rewrite E; reflexivity|].
  destruct (_ <? T); [|rewrite E; reflexivity].
  destruct (r_cfg s <=? r_th s); [unfold deliver; cbn [r_out r_set]; rewrite rdelivered_cons, E; cbn [b_ids]; rewrite app_nil_r; reflexivity|].
  destruct (_ <? T); [unfold deliver, set_rth; cbn [r_out r_set]; rewrite rdelivered_cons, E; cbn [b_ids]; rewrite app_nil_r; reflexivity|].
  unfold set_rth. cbn [r_out r_set]. rewrite E. reflexivity.
Qed.

Lemma on_inp_conserves s x :
  rdelivered (on_inp s x) ++ r_set (on_inp s x) = (rdelivered s ++ r_set s) ++ one x.
Proof.
  destruct x as [R e|T v]; unfold on_inp, one.
  - pose proof (expire_conserves s R) as F. set (s1 := expire s R) in *. clearbody s1. unfold set_rth, rdelivered in *. cbn [r_out r_set].
    destruct (errors_on e) eqn:Er.
    + rewrite (errors_not_accepted e Er). cbn [r_out r_set andb]. rewrite app_nil_r. exact F.
    + destruct (accepted e) eqn:A; cbn [negb andb r_out r_set].
      * destruct (e_urgent e).
        -- cbn [r_out r_set]. rewrite rdelivered_cons. cbn [b_ids]. rewrite app_nil_r, app_assoc, F. reflexivity.
        -- destruct (_ <=? _); cbn [r_out r_set]; [rewrite rdelivered_cons; cbn [b_ids]; rewrite app_nil_r, app_assoc, F; reflexivity | rewrite app_assoc, F; reflexivity].
      * rewrite app_nil_r. exact F.
  - pose proof (expire_conserves s T) as F. unfold rdelivered in *. cbn [r_out r_set]. rewrite app_nil_r. exact F.
Qed.

Theorem rt_conservation init l : rdelivered (rt_run init l) ++ r_set (rt_run init l) = rinputs_ok l.
Proof.
  unfold rt_run. assert (forall s, rdelivered (fold_left on_inp l s) ++ r_set (fold_left on_inp l s) = (rdelivered s ++ r_set s) ++ rinputs_ok l) as G.
  { induction l as [|x r IH]; intro s; cbn [fold_left]; [unfold rinputs_ok; cbn; rewrite app_nil_r; reflexivity|].
    rewrite IH, on_inp_conserves. unfold rinputs_ok. cbn [flat_map]. rewrite <- app_assoc. reflexivity. }
  rewrite G. reflexivity.
Qed.

Theorem rt_conservation_all init l : concat (map b_ids (rt_collect init l)) = rinputs_ok l.
Proof.
  unfold rt_collect, rt_finish. rewrite <- (rt_conservation init l). unfold rdelivered.
  destruct (r_set (rt_run init l)) as [|i r] eqn:E; [rewrite app_nil_r; reflexivity|].
  rewrite rdelivered_cons. reflexivity.
Qed.

(* ---- lower bound: a batch without an urgent event goes out no earlier than first + v for a throttle value v that was
   configured (the initial one or one of the changes) *)
Definition cfg_values (init : N) (l : list inp) : list N :=
  init :: flat_map (fun x => match x with ISet _ v => [v] | _ => [] end) l.
Definition time_of (x : inp) : N := match x with IEv R _ => R | ISet T _ => T end.
Fixpoint rmono (lo : N) (l : list inp) : Prop :=
  match l with [] => True | x :: r => lo <= time_of x /\ rmono (time_of x) r end.

Definition vbounded (V : list N) (b : batch) : Prop := exists v, In v V /\ b_first b + v <= b_deliver b.
Definition rinv (V : list N) (s : rstate) : Prop := In (r_th s) V /\ In (r_cfg s) V.

Lemma expire_bound V s T :
  rinv V s -> (forall b, In b (r_out s) -> b_urgent b = false -> vbounded V b) ->
  rinv V (expire s T) /\ r_last (expire s T) = r_last s /\ (forall b, In b (r_out (expire s T)) -> b_urgent b = false -> vbounded V b).
Proof.
  intros [I1 I2] H. unfold expire. destruct (r_set s) as [|i r]; [repeat split; assumption|].
  destruct (_ <? T); [|repeat split; assumption].
  destruct (r_cfg s <=? r_th s) eqn:L.
  - unfold deliver. cbn [r_out r_last]. split; [split; assumption|]. split; [reflexivity|].
    intros b [<-|Hb] Hu; [exists (r_th s); split; [exact I1 | cbn; lia] | apply H; assumption].
  - destruct (_ <? T).
    + unfold deliver, set_rth. cbn [r_out r_last r_th r_cfg]. split; [split; assumption|]. split; [reflexivity|].
      intros b [<-|Hb] Hu; [exists (r_cfg s); split; [exact I2 | cbn; lia] | apply H; assumption].
    + unfold set_rth. cbn [r_out r_last r_th r_cfg]. repeat split; assumption.
Qed.

Theorem rt_lower_bound init l :
  rmono 0 l -> forall b, In b (rt_collect init l) -> b_urgent b = false -> vbounded (cfg_values init l) b.
Proof.
  intro Hm. set (V := cfg_values init l).
  assert (forall l' s lo, (forall x, In x l' -> match x with ISet _ v => In v V | _ => True end) ->
            r_last s <= lo -> rmono lo l' -> rinv V s ->
            (forall b, In b (r_out s) -> b_urgent b = false -> vbounded V b) ->
            rinv V (fold_left on_inp l' s) /\ (forall b, In b (r_out (fold_left on_inp l' s)) -> b_urgent b = false -> vbounded V b)) as G.
  { induction l' as [|x r IH]; intros s lo HV Hlo Hmo I Hs; cbn [fold_left]; [split; assumption|].
    cbn [rmono] in Hmo. destruct Hmo as [Hle Hmr].
    destruct (expire_bound V s (time_of x) I Hs) as ((J1 & J2) & EL & Hs1).
    assert (rinv V (on_inp s x) /\ r_last (on_inp s x) <= time_of x /\
            (forall b, In b (r_out (on_inp s x)) -> b_urgent b = false -> vbounded V b)) as (I' & L' & Hs').
    { destruct x as [R e|T v]; unfold on_inp; cbn [time_of] in *; set (s1 := expire s _) in *; clearbody s1.
      - unfold set_rth. cbn [r_th r_cfg r_last r_out].
        destruct (errors_on e); cbn [r_th r_cfg r_last r_out]; [split; [split; assumption|]; split; [lia | exact Hs1]|].
        destruct (negb (accepted e)); [split; [split; assumption|]; split; [lia | exact Hs1]|].
        destruct (e_urgent e).
        + cbn [r_th r_cfg r_last r_out]. split; [split; assumption|]. split; [destruct (r_set s1); lia|].
          intros b [<-|Hb] Hu; [discriminate | apply Hs1; assumption].
        + destruct (r_cfg s1 <=? R - match r_set s1 with [] => R | _ :: _ => r_last s1 end) eqn:L; cbn [r_th r_cfg r_last r_out].
          * split; [split; assumption|]. split; [destruct (r_set s1); lia|].
            intros b [<-|Hb] Hu; [|apply Hs1; assumption]. exists (r_cfg s1). split; [exact J2|]. cbn [b_first b_deliver].
            apply N.leb_le in L. destruct (r_set s1); lia.
          * split; [split; assumption|]. split; [destruct (r_set s1); lia | exact Hs1].
      - cbn [r_th r_cfg r_last r_out]. split; [split; [exact J1 | apply (HV (ISet T v)); left; reflexivity]|]. split; [lia | exact Hs1]. }
    apply (IH (on_inp s x) (time_of x)); try assumption. intros y Hy. apply HV. right. exact Hy. }
  assert (forall x, In x l -> match x with ISet _ v => In v V | _ => True end) as HV.
  { intros x Hx. destruct x as [|T v]; [exact I|]. unfold V, cfg_values. right. apply in_flat_map. exists (ISet T v). split; [exact Hx | left; reflexivity]. }
  assert (rinv V (r0 init)) as I0 by (split; left; reflexivity).
  destruct (G l (r0 init) 0 HV ltac:(cbn; lia) Hm I0 ltac:(intros b [])) as [[F1 F2] Hout].
  intros b Hb Hu. unfold rt_collect, rt_finish in Hb. apply in_rev in Hb. fold (rt_run init l) in *.
  destruct (r_set (rt_run init l)) as [|i r]; [apply Hout; assumption|].
  destruct Hb as [<-|Hb]; [|apply Hout; assumption]. unfold vbounded. cbv zeta. cbn [b_first b_deliver].
  destruct (r_cfg (rt_run init l) <=? r_th (rt_run init l)); cbn [b_first b_deliver]; [exists (r_th (rt_run init l)); split; [exact F1 | lia] | exists (r_cfg (rt_run init l)); split; [exact F2 | lia]].
Qed.
