(* The priority each event source gives its events (translated: Gen/SourcePrio_gen.v) composed with the collector model of
   Worker/Throttle.v: what an OS signal looks like when it reaches throttle_collect, and hence whether the filterer and the
   debounce window can hold it back.  The CLI requests its quit from the action handler when it sees an interrupt or a terminate
   signal in a batch (Worker/Quit.v, cli_wants_quit); this file shows that such a signal is in a batch the moment it is received. *)
From Coq Require Import List NArith Bool String.
From WX Require Import Gen.Signals_gen Gen.SourcePrio_gen Worker.Throttle Worker.ThrottleProofs.
Import ListNotations.
Open Scope N_scope.

Definition signal_source_prio (t : sigtag) : string :=
  if existsb (String.eqb (sigtag_name t)) (fst signal_prio_special) then snd signal_prio_special else signal_prio_default.

Definition is_urgent (p : string) : bool := String.eqb p "Urgent".

(* the signal's number as the CLI's handler tests for it *)
Definition quit_signal_number (t : sigtag) : option N :=
  match t with S_Interrupt => Some 2 | S_Terminate => Some 15 | _ => None end.

(* the event the collector sees for OS signal t; v is what the filterer would answer if it were asked *)
Definition signal_event (id : N) (t : sigtag) (v : verdict) : ev := mkEv id (is_urgent (signal_source_prio t)) false v.
Definition fs_event (id : N) (v : verdict) : ev := mkEv id (is_urgent fs_source_prio) false v.
Definition keyboard_event (id : N) (v : verdict) : ev := mkEv id (is_urgent keyboard_source_prio) false v.
Definition startup_event (id : N) : ev := mkEv id (is_urgent cli_startup_prio) true Reject.

Lemma quit_signals_urgent t n : quit_signal_number t = Some n -> is_urgent (signal_source_prio t) = true.
Proof. destruct t; cbn [quit_signal_number]; intro H; try discriminate H; reflexivity. Qed.

(* an interrupt / terminate signal is handed to the action handler at the instant it is received, whatever the filterer would
   say about it, whatever is already in the window and whatever the throttle is *)
Theorem quit_signal_reaches_handler t n s R th id v :
  quit_signal_number t = Some n ->
  let s' := on_event s (R, th, signal_event id t v) in
  t_set s' = [] /\ exists b rest, t_out s' = b :: rest /\ b_deliver b = R /\ last (b_ids b) 0 = id.
Proof.
  intros H s'.
  destruct (urgent_flushes s R th (signal_event id t v)) as (A & b & rest & B & _ & C & D).
  { cbn [signal_event e_urgent]. exact (quit_signals_urgent t n H). }
  split; [exact A|]. exists b, rest. split; [exact B|]. split; [exact C|]. exact D.
Qed.

(* ... and nothing is reported as a filter error for it *)
Theorem quit_signal_never_errors t n id v : quit_signal_number t = Some n -> errors_on (signal_event id t v) = false.
Proof. intro H. unfold errors_on. cbn [signal_event e_urgent]. rewrite (quit_signals_urgent t n H). reflexivity. Qed.

(* the start-up event of the CLI is delivered too (urgent and empty) *)
Theorem startup_event_delivered s R th id :
  let s' := on_event s (R, th, startup_event id) in
  t_set s' = [] /\ exists b rest, t_out s' = b :: rest /\ b_deliver b = R /\ last (b_ids b) 0 = id.
Proof.
  intros s'. destruct (urgent_flushes s R th (startup_event id)) as (A & b & rest & B & _ & C & D); [reflexivity|].
  split; [exact A|]. exists b, rest. split; [exact B|]. split; [exact C|]. exact D.
Qed.

(* filesystem and keyboard events, and every other signal, do go through the filterer: a rejected one changes nothing *)
Theorem filtered_sources_are_filtered :
  is_urgent fs_source_prio = false /\ is_urgent keyboard_source_prio = false /\
  forall t, quit_signal_number t = None -> is_urgent (signal_source_prio t) = false.
Proof. split; [reflexivity|]. split; [reflexivity|]. intros t; destruct t; cbn [quit_signal_number]; intro H; try discriminate H; reflexivity. Qed.
