From Coq Require Import List NArith Bool Lia.
From WX Require Import Worker.Throttle.
Import ListNotations.
Open Scope N_scope.

Definition delivered (s : tstate) : list N := concat (map b_ids (rev (t_out s))).
Definition inputs_ok (l : list (N * N * ev)) : list N := map (fun x => e_id (snd x)) (filter (fun x => accepted (snd x) && negb (errors_on (snd x))) l).

Lemma errors_not_accepted e : errors_on e = true -> accepted e = false.
Proof.
  unfold errors_on, accepted. destruct (e_urgent e), (e_empty e), (e_verdict e); simpl; intro H; try discriminate; reflexivity.
Qed.

Lemma delivered_cons s b : concat (map b_ids (rev (b :: t_out s))) = delivered s ++ b_ids b.
Proof. unfold delivered. simpl. rewrite map_app, concat_app. simpl. rewrite app_nil_r. reflexivity. Qed.

(* conservation, in order: what was delivered plus what is still in the set is exactly the sequence of
   received events that are urgent, empty or passed by the filter -- each exactly once *)
Lemma flush_conserves s R th :
  concat (map b_ids (rev (t_out (flush_timeout s R th)))) ++ t_set (flush_timeout s R th) = delivered s ++ t_set s.
Proof.
  unfold flush_timeout. destruct (t_set s) as [|i r] eqn:E; [rewrite E; reflexivity|].
  destruct (t_last s + th <? R); [|rewrite E; reflexivity].
  cbn [t_out t_set]. change (mkB (t_last s) (t_last s + th) false (i :: r) :: t_out s) with (mkB (t_last s) (t_last s + th) false (i :: r) :: t_out s).
  rewrite delivered_cons. cbn [b_ids]. rewrite app_nil_r. reflexivity.
Qed.

Lemma on_event_conserves s x :
  delivered (on_event s x) ++ t_set (on_event s x) =
  (delivered s ++ t_set s) ++ (if accepted (snd x) && negb (errors_on (snd x)) then [e_id (snd x)] else []).
Proof.
  unfold delivered at 1. destruct x as [[R th] e]. cbn [snd]. unfold on_event. pose proof (flush_conserves s R th) as F.
  set (s1 := flush_timeout s R th) in *. clearbody s1.
  destruct (errors_on e) eqn:Er.
  - rewrite (errors_not_accepted e Er). cbn [t_out t_set andb]. rewrite app_nil_r. exact F.
  - destruct (accepted e) eqn:A; cbn [negb andb].
    + destruct (e_urgent e).
      * cbn [t_out t_set]. rewrite delivered_cons. cbn [b_ids]. rewrite app_nil_r, app_assoc. unfold delivered. rewrite F. reflexivity.
      * destruct (th <=? R - _).
        -- cbn [t_out t_set]. rewrite delivered_cons. cbn [b_ids]. rewrite app_nil_r, app_assoc. unfold delivered. rewrite F. reflexivity.
        -- cbn [t_out t_set]. rewrite app_assoc. rewrite F. reflexivity.
    + rewrite app_nil_r. exact F.
Qed.

Theorem conservation l :
  delivered (run_events l) ++ t_set (run_events l) = inputs_ok l.
Proof.
  unfold run_events, inputs_ok.
  assert (forall s, delivered (fold_left on_event l s) ++ t_set (fold_left on_event l s) =
                    (delivered s ++ t_set s) ++ map (fun x => e_id (snd x)) (filter (fun x => accepted (snd x) && negb (errors_on (snd x))) l)) as G.
  { induction l as [|x r IH]; intro s; simpl; [rewrite app_nil_r; reflexivity|].
    rewrite IH. rewrite on_event_conserves.
    destruct (accepted (snd x) && negb (errors_on (snd x))); simpl; rewrite <- ?app_assoc, ?app_nil_r; reflexivity. }
  rewrite G. reflexivity.
Qed.

(* with the final delivery of the pending set: every accepted event is in exactly one batch, in order *)
Theorem conservation_all l th : concat (map b_ids (collect l th)) = inputs_ok l.
Proof.
  unfold collect, finish. rewrite <- (conservation l). unfold delivered.
  destruct (t_set (run_events l)) as [|i r] eqn:E; [rewrite app_nil_r; reflexivity|].
  simpl rev. rewrite map_app, concat_app. simpl. rewrite app_nil_r. reflexivity.
Qed.

(* no batch is empty *)
Definition nonempty_batches (s : tstate) : Prop := forall b, In b (t_out s) -> b_ids b <> [].

Lemma on_event_nonempty s x : nonempty_batches s -> nonempty_batches (on_event s x).
Proof.
  intro H. destruct x as [[R th] e]. unfold on_event.
  assert (nonempty_batches (flush_timeout s R th)) as H1.
  { unfold flush_timeout. destruct (t_set s) as [|i r] eqn:E; [exact H|]. destruct (t_last s + th <? R); [|exact H].
    intros b [<-|Hb]; [discriminate | apply H, Hb]. }
  set (s1 := flush_timeout s R th) in *. clearbody s1.
  destruct (errors_on e); [exact H1|]. destruct (negb (accepted e)); [exact H1|].
  destruct (e_urgent e); [intros b [<-|Hb]; [cbn; destruct (t_set s1); discriminate | apply H1, Hb]|].
  destruct (th <=? R - _); [intros b [<-|Hb]; [cbn; destruct (t_set s1); discriminate | apply H1, Hb] | exact H1].
Qed.

Theorem no_empty_batch l th : forall b, In b (collect l th) -> b_ids b <> [].
Proof.
  assert (nonempty_batches (run_events l)) as H.
  { unfold run_events. assert (forall s, nonempty_batches s -> nonempty_batches (fold_left on_event l s)) as G.
    { induction l as [|x r IH]; intros s Hs; simpl; [exact Hs | apply IH, on_event_nonempty, Hs]. }
    apply G. intros b []. }
  intros b Hb. unfold collect, finish in Hb. apply in_rev in Hb.
  destruct (t_set (run_events l)) as [|i r] eqn:E; [apply H, Hb|].
  destruct Hb as [<-|Hb]; [discriminate | apply H, Hb].
Qed.

(* events the filter rejects or errors on are never delivered *)
Theorem rejected_never l th i :
  In i (concat (map b_ids (collect l th))) -> exists x, In x l /\ e_id (snd x) = i /\ accepted (snd x) = true /\ errors_on (snd x) = false.
Proof.
  rewrite conservation_all. unfold inputs_ok. rewrite in_map_iff. intros (x & <- & Hx).
  apply filter_In in Hx. destruct Hx as [Hin Hc]. apply andb_true_iff in Hc. destruct Hc as [A B].
  exists x. repeat split; try assumption. apply negb_true_iff in B. exact B.
Qed.

Lemma flush_deliver_time s R th b :
  In b (t_out (flush_timeout s R th)) -> In b (t_out s) \/ (b_first b = t_last s /\ b_deliver b = t_last s + th /\ b_urgent b = false /\ t_last s + th < R).
Proof.
  unfold flush_timeout. destruct (t_set s) as [|i r]; [left; assumption|].
  destruct (t_last s + th <? R) eqn:L; [|left; assumption].
  intros [<-|H]; [right; repeat split; try reflexivity; apply N.ltb_lt; exact L | left; exact H].
Qed.

(* lower bound: a batch without an urgent event is delivered no earlier than the throttle duration after
   its first event was received (constant throttle th) *)
Fixpoint mono (lo : N) (l : list (N * N * ev)) : Prop :=
  match l with [] => True | x :: r => lo <= fst (fst x) /\ mono (fst (fst x)) r end.

Lemma flush_last s R th : t_last (flush_timeout s R th) = t_last s.
Proof. unfold flush_timeout. destruct (t_set s); [reflexivity|]. destruct (_ <? _); reflexivity. Qed.

Lemma on_event_last s R th e lo : t_last s <= lo -> lo <= R -> t_last (on_event s (R, th, e)) <= R.
Proof.
  intros H1 H2. unfold on_event. pose proof (flush_last s R th) as F. set (s1 := flush_timeout s R th) in *. clearbody s1.
  destruct (errors_on e); cbn [t_last]; [lia|]. destruct (negb (accepted e)); [lia|].
  destruct (e_urgent e); [cbn [t_last]; destruct (t_set s1); lia|].
  destruct (_ <=? _); cbn [t_last]; destruct (t_set s1); lia.
Qed.

Theorem lower_bound_const l th :
  (forall x, In x l -> snd (fst x) = th) -> mono 0 l ->
  forall b, In b (collect l th) -> b_urgent b = false -> b_first b + th <= b_deliver b.
Proof.
  intros Hth Hm.
  assert (forall l' s lo, t_last s <= lo -> mono lo l' -> (forall x, In x l' -> snd (fst x) = th) ->
            (forall b, In b (t_out s) -> b_urgent b = false -> b_first b + th <= b_deliver b) ->
            forall b, In b (t_out (fold_left on_event l' s)) -> b_urgent b = false -> b_first b + th <= b_deliver b) as G.
  { induction l' as [|x r IH]; intros s lo Hlo Hmo Hl Hs b Hb Hu; simpl in Hb; [apply Hs; assumption|].
    destruct x as [[R th'] e]. cbn [mono fst] in Hmo. destruct Hmo as [Hle Hmr].
    assert (th' = th) as -> by (apply (Hl (R, th', e)); left; reflexivity).
    apply (IH (on_event s (R, th, e)) R); try assumption.
    - eapply on_event_last; eassumption.
    - intros y Hy. apply Hl. right. exact Hy.
    - clear b Hb Hu. intros b Hb Hu. unfold on_event in Hb.
      assert (forall b, In b (t_out (flush_timeout s R th)) -> b_urgent b = false -> b_first b + th <= b_deliver b) as H1.
      { intros b0 Hb0 Hu0. apply flush_deliver_time in Hb0. destruct Hb0 as [Hb0|(A & B & _)]; [apply Hs; assumption | rewrite A, B; lia]. }
      pose proof (flush_last s R th) as F. set (s1 := flush_timeout s R th) in *. clearbody s1.
      destruct (errors_on e); [apply H1; assumption|]. destruct (negb (accepted e)); [apply H1; assumption|].
      destruct (e_urgent e).
      + destruct Hb as [<-|Hb]; [discriminate | apply H1; assumption].
      + destruct (th <=? R - match t_set s1 with [] => R | _ :: _ => t_last s1 end) eqn:L.
        * destruct Hb as [<-|Hb]; [|apply H1; assumption]. cbn [b_first b_deliver]. apply N.leb_le in L.
          destruct (t_set s1); lia.
        * apply H1; assumption. }
  intros b Hb Hu. unfold collect, finish in Hb. apply in_rev in Hb. unfold run_events in *.
  assert (forall b, In b (t_out (fold_left on_event l t0)) -> b_urgent b = false -> b_first b + th <= b_deliver b) as G0.
  { apply (G l t0 0); [cbn; lia | exact Hm | exact Hth | intros b0 []]. }
  destruct (t_set (fold_left on_event l t0)) as [|i r] eqn:E; [apply G0; assumption|].
  destruct Hb as [<-|Hb]; [cbn; lia | apply G0; assumption].
Qed.

(* an urgent event closes the batch it joins, at the instant it is received, without being filtered *)
Theorem urgent_flushes s R th e :
  e_urgent e = true ->
  let s' := on_event s (R, th, e) in
  t_set s' = [] /\ exists b rest, t_out s' = b :: rest /\ b_urgent b = true /\ b_deliver b = R /\ last (b_ids b) 0 = e_id e.
Proof.
  intro U. unfold on_event. set (s1 := flush_timeout s R th).
  assert (errors_on e = false) as -> by (unfold errors_on; rewrite U; reflexivity).
  assert (accepted e = true) as -> by (unfold accepted; rewrite U; reflexivity).
  cbn [negb]. rewrite U. cbn zeta. split; [reflexivity|]. eexists. eexists. split; [reflexivity|].
  split; [reflexivity|]. split; [reflexivity|]. cbn [b_ids]. apply last_last.
Qed.

(* zero throttle: every accepted event is its own batch, delivered when it is received *)
Theorem zero_throttle s R e :
  t_set s = [] -> accepted e = true -> errors_on e = false ->
  let s' := on_event s (R, 0, e) in
  t_set s' = [] /\ exists rest u, t_out s' = mkB R R u [e_id e] :: rest.
Proof.
  intros S A Er. unfold on_event. unfold flush_timeout. rewrite S. rewrite Er, A. cbn [negb]. rewrite S. cbn [app].
  destruct (e_urgent e); cbn zeta; [split; [reflexivity | eexists; eexists; reflexivity]|].
  assert (0 <=? R - R = true) as -> by (apply N.leb_le; lia). split; [reflexivity | eexists; eexists; reflexivity].
Qed.

(* filter errors: exactly the erroring events, once each, in order *)
Theorem errors_exact l :
  filter_errors l = map (fun x => e_id (snd x)) (filter (fun x => errors_on (snd x)) l).
Proof.
  unfold filter_errors, run_events.
  assert (forall s, rev (t_errs (fold_left on_event l s)) = rev (t_errs s) ++ map (fun x => e_id (snd x)) (filter (fun x => errors_on (snd x)) l)) as G.
  { induction l as [|x r IH]; intro s; simpl; [rewrite app_nil_r; reflexivity|]. rewrite IH.
    destruct x as [[R th] e]. cbn [snd]. unfold on_event.
    assert (t_errs (flush_timeout s R th) = t_errs s) as F by (unfold flush_timeout; destruct (t_set s); [reflexivity|]; destruct (_ <? _); reflexivity).
    set (s1 := flush_timeout s R th) in *. clearbody s1.
    destruct (errors_on e); cbn [t_errs]; [rewrite F; simpl; rewrite <- app_assoc; reflexivity|].
    destruct (negb (accepted e)); [rewrite F; reflexivity|].
    destruct (e_urgent e); [rewrite F; reflexivity|]. destruct (_ <=? _); rewrite F; reflexivity. }
  rewrite G. reflexivity.
Qed.

(* upper bound (no starvation in the model): with a constant throttle every batch without an urgent event goes out no
   later than first + throttle on the ideal clock, whatever else is received meanwhile -- rejected and erroring events
   never postpone it *)
Lemma flush_pending_window s R th : t_set (flush_timeout s R th) <> [] -> R <= t_last (flush_timeout s R th) + th.
Proof.
  unfold flush_timeout. destruct (t_set s) as [|i r] eqn:E; [rewrite E; intro H; contradiction|].
  destruct (t_last s + th <? R) eqn:L; [cbn [t_set]; intro H; contradiction|]. intros _. apply N.ltb_ge in L. exact L.
Qed.

Theorem upper_bound_const l th :
  (forall x, In x l -> snd (fst x) = th) ->
  forall b, In b (collect l th) -> b_urgent b = false -> b_deliver b <= b_first b + th.
Proof.
  intros Hth.
  assert (forall l' s, (forall x, In x l' -> snd (fst x) = th) ->
            (forall b, In b (t_out s) -> b_urgent b = false -> b_deliver b <= b_first b + th) ->
            forall b, In b (t_out (fold_left on_event l' s)) -> b_urgent b = false -> b_deliver b <= b_first b + th) as G.
  { induction l' as [|x r IH]; intros s Hl Hs b Hb Hu; cbn [fold_left] in Hb; [apply Hs; assumption|].
    destruct x as [[R th'] e]. assert (th' = th) as -> by (apply (Hl (R, th', e)); left; reflexivity).
    apply (IH (on_event s (R, th, e))); try assumption; [intros y Hy; apply Hl; right; exact Hy|].
    clear b Hb Hu. intros b Hb Hu. unfold on_event in Hb.
    assert (forall b, In b (t_out (flush_timeout s R th)) -> b_urgent b = false -> b_deliver b <= b_first b + th) as H1.
    { intros b0 Hb0 Hu0. apply flush_deliver_time in Hb0. destruct Hb0 as [Hb0|(A & B & _)]; [apply Hs; assumption | rewrite A, B; lia]. }
    pose proof (flush_pending_window s R th) as W. set (s1 := flush_timeout s R th) in *. clearbody s1.
    destruct (errors_on e); [apply H1; assumption|]. destruct (negb (accepted e)); [apply H1; assumption|].
    destruct (e_urgent e).
    - destruct Hb as [<-|Hb]; [discriminate | apply H1; assumption].
    - destruct (th <=? R - match t_set s1 with [] => R | _ :: _ => t_last s1 end).
      + destruct Hb as [<-|Hb]; [|apply H1; assumption]. cbn [b_first b_deliver].
        destruct (t_set s1) as [|i r0] eqn:E; [lia | apply W; discriminate].
      + apply H1; assumption. }
  intros b Hb Hu. unfold collect, finish in Hb. apply in_rev in Hb. unfold run_events in *.
  assert (forall b, In b (t_out (fold_left on_event l t0)) -> b_urgent b = false -> b_deliver b <= b_first b + th) as G0
    by (apply (G l t0 Hth); intros b0 []).
  destruct (t_set (fold_left on_event l t0)) as [|i r] eqn:E; [apply G0; assumption|].
  destruct Hb as [<-|Hb]; [cbn; lia | apply G0; assumption].
Qed.

(* together: on the ideal clock a batch without an urgent event is delivered exactly one throttle after its first event *)
Corollary delivery_time_exact l th :
  (forall x, In x l -> snd (fst x) = th) -> mono 0 l ->
  forall b, In b (collect l th) -> b_urgent b = false -> b_deliver b = b_first b + th.
Proof.
  intros Hth Hm b Hb Hu. pose proof (lower_bound_const l th Hth Hm b Hb Hu). pose proof (upper_bound_const l th Hth b Hb Hu). lia.
Qed.
