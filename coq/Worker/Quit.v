(* C08, worker level: action/worker.rs quit handling over all jobs (graceful: stop_with_signal + delete per job,
   join all; abort: break, dropping the job tasks), process-group members, and the CLI's quit decision. *)
From Coq Require Import List Arith NArith Bool Lia.
From WX Require Import Job.JobModel Job.JobInv Job.JobQuit.
Import ListNotations.
Open Scope N_scope.

Inductive manner : Set := Abort | Graceful (sig grace : N).

(* one supervised job at the moment of the quit: its environment (child behaviour, faults), its state, and the
   choices its select! will make afterwards -- all universally quantified *)
Record jobst : Type := mkJ { j_env : env; j_w : world; j_ch : nat -> nat }.

Definition quit_one (m : manner) (j : jobst) : world :=
  match m with
  | Abort => abort_job (j_w j)
  | Graceful sig grace =>
      let q := quit_job (j_w j) sig grace 0%nat 1%nat in
      if ended (j_w j) then q else eager_run (j_env j) (S (4 * mu q + nu q)) (j_ch j) q
  end.

(* jobtasks.join_all(): the worker breaks out of its loop when the slowest job task has ended *)
Definition main_done (m : manner) (t0 : N) (jobs : list jobst) : N :=
  fold_left N.max (map (fun j => now (quit_one m j)) jobs) t0.

Definition job_bound (m : manner) (j : jobst) : N :=
  match m with Abort => 0 | Graceful _ g => if ended (j_w j) then 0 else slack (j_w j) + g end.
Definition bound (m : manner) (jobs : list jobst) : N := fold_left N.max (map (job_bound m) jobs) 0.

Definition reachable (j : jobst) : Prop := exists ls, j_w j = run (j_env j) fixed ls.

Lemma fold_max_ge l : forall a, a <= fold_left N.max l a /\ forall x, In x l -> x <= fold_left N.max l a.
Proof.
  induction l as [|y l IH]; intro a; cbn [fold_left]; [split; [lia | intros x []]|].
  destruct (IH (N.max a y)) as [A B]. split; [lia|]. intros x [<-|H]; [lia | apply B; exact H].
Qed.
Lemma fold_max_le l : forall a b, a <= b -> (forall x, In x l -> x <= b) -> fold_left N.max l a <= b.
Proof.
  induction l as [|y l IH]; intros a b A H; cbn [fold_left]; [exact A|].
  apply IH; [specialize (H y (or_introl eq_refl)); lia | intros x Hx; apply H; right; exact Hx].
Qed.

Lemma quit_one_clean m j : reachable j ->
  let w' := quit_one m j in
  ended w' = true /\ now w' <= now (j_w j) + job_bound m j /\ survivors w' = [].
Proof.
  intros [ls R]. unfold quit_one, job_bound. destruct m as [|sig grace].
  - destruct (abort_clean (j_w j)) as (A & B & C); [rewrite R; apply run_end_inv|]. cbv zeta in *. split; [exact A|]. split; [lia | exact C].
  - cbv zeta. destruct (ended (j_w j)) eqn:En.
    + assert (EndInv (quit_job (j_w j) sig grace 0%nat 1%nat)) as EI
        by (unfold quit_job; apply send_end_inv; apply send_end_inv; rewrite R; apply run_end_inv).
      pose proof (quit_dead_job (j_w j) sig grace 0%nat 1%nat En) as S. destruct (sk_slack _ _ S) as (_ & _ & NW & EE & _).
      split; [rewrite EE; exact En|]. split; [lia|]. apply end_inv_survivors; [exact EI | rewrite EE; exact En].
    + pose proof (graceful_quit_clean (j_env j) ls sig grace 0%nat 1%nat (j_ch j)) as G. cbv zeta in G. rewrite <- R in G.
      exact (G En).
Qed.

(* C08: after a quit every job task ends, the main task finishes within the bound, nothing survives *)
Theorem quit_always_terminates m t0 jobs :
  (forall j, In j jobs -> reachable j /\ now (j_w j) = t0) ->
  (forall j, In j jobs -> ended (quit_one m j) = true /\ survivors (quit_one m j) = []) /\
  main_done m t0 jobs <= t0 + bound m jobs.
Proof.
  intro H. split.
  - intros j Hj. destruct (H j Hj) as [R _]. destruct (quit_one_clean m j R) as (A & _ & C). split; assumption.
  - unfold main_done. apply fold_max_le; [lia|]. intros x Hx. apply in_map_iff in Hx. destruct Hx as (j & <- & Hj).
    destruct (H j Hj) as [R T]. destruct (quit_one_clean m j R) as (_ & B & _). cbv zeta in B. rewrite T in B.
    assert (job_bound m j <= bound m jobs) as L by (unfold bound; apply (proj2 (fold_max_ge _ 0)); apply in_map; exact Hj). lia.
Qed.

Corollary abort_is_prompt t0 jobs :
  (forall j, In j jobs -> reachable j /\ now (j_w j) = t0) -> main_done Abort t0 jobs = t0.
Proof.
  intro H. destruct (quit_always_terminates Abort t0 jobs H) as [_ B].
  assert (bound Abort jobs = 0) as Z.
  { unfold bound. assert (forall l a, (forall x, In x l -> x = 0) -> fold_left N.max l a = a) as F.
    { induction l as [|y l IH]; intros a Hl; cbn [fold_left]; [reflexivity|]. rewrite IH; [rewrite (Hl y (or_introl eq_refl)); lia | intros x Hx; apply Hl; right; exact Hx]. }
    apply F. intros x Hx. apply in_map_iff in Hx. destruct Hx as (j & <- & _). reflexivity. }
  pose proof (proj1 (fold_max_ge (map (fun j => now (quit_one Abort j)) jobs) t0)) as G. unfold main_done in *. lia.
Qed.

(* ---- other members of the child's process group.  killpg(SIGKILL) (Stop, the forced stop at the grace deadline,
   TryRestart) ends every member; the exit of the leader or the drop of its handle (kill_on_drop: the leader's pid
   only) does not. *)
Section Group.
  Variable strag : nat -> bool.      (* child c's group has a member that outlives the stop signal *)
  Definition killed (w : world) (c : nat) : bool :=
    existsb (fun to => match snd to with OKill c' => Nat.eqb c' c | _ => false end) (obs w).
  Definition spawned (w : world) : list nat :=
    flat_map (fun to => match snd to with OSpawn c => [c] | _ => [] end) (obs w).
  Definition group_survivors (w : world) : list nat := filter (fun c => strag c && negb (killed w c)) (spawned w).

  Theorem group_clean w :
    (forall c, In c (spawned w) -> strag c = true -> killed w c = true) -> group_survivors w = [].
  Proof.
    intro H. unfold group_survivors. induction (spawned w) as [|c l IH]; [reflexivity|]. cbn [filter].
    destruct (strag c) eqn:S.
    - rewrite (H c (or_introl eq_refl) S). cbn [negb andb]. apply IH. intros c' Hc. apply H. right. exact Hc.
    - cbn [andb]. apply IH. intros c' Hc. apply H. right. exact Hc.
  Qed.
End Group.

(* KNOWN FINDING (not repaired): a grouped command whose leader exits on the stop signal before the grace period is
   over, while another member of its group ignores that signal: the group is never killed and the member survives
   the graceful quit. *)
Definition witness_env : env :=
  mkEnv (fun _ => None) (fun _ _ => RDie 0) (fun _ => true) (fun _ => true) (fun _ => true).
Definition witness_world : world :=
  run witness_env fixed [LSend PNormal CStart 0%nat; LTask SNormal].
Example straggler_survives :
  let w' := quit_one (Graceful 15 100) (mkJ witness_env witness_world (fun _ => 0%nat)) in
  ended w' = true /\ survivors w' = [] /\ group_survivors (fun _ => true) w' = [0%nat].
Proof. vm_compute. repeat split. Qed.

(* ---- the CLI's decision (cli/src/config.rs): an unmapped interrupt or terminate signal, or EOF with --stdin-quit,
   requests the quit; the first request is graceful with the stop signal and the stop timeout *)
Definition cli_wants_quit (signals mapped : list N) (stdin_quit eof : bool) : bool :=
  (stdin_quit && eof) ||
  (existsb (N.eqb 15) signals && negb (existsb (N.eqb 15) mapped)) ||
  (existsb (N.eqb 2) signals && negb (existsb (N.eqb 2) mapped)).
Definition cli_quit_manner (nquits : nat) (stop_signal : option N) (stop_timeout : N) : manner :=
  match nquits with
  | O => Graceful (match stop_signal with Some s => s | None => 15 end) stop_timeout
  | S O => Graceful 9 0
  | _ => Abort
  end.

Theorem cli_signal_quits signals mapped sq eof s :
  (s = 2 \/ s = 15) -> In s signals -> ~ In s mapped -> cli_wants_quit signals mapped sq eof = true.
Proof.
  intros Hs Hi Hm. unfold cli_wants_quit.
  assert (existsb (N.eqb s) signals = true) as A by (apply existsb_exists; exists s; split; [exact Hi | apply N.eqb_refl]).
  assert (existsb (N.eqb s) mapped = false) as B.
  { apply not_true_is_false. intro X. apply existsb_exists in X. destruct X as (x & Hx & Ex). apply N.eqb_eq in Ex. subst x. contradiction. }
  destruct Hs as [-> | ->]; rewrite A, B; cbn [negb andb]; rewrite ?orb_true_r; reflexivity.
Qed.

Theorem cli_first_quit_is_graceful ss st : cli_quit_manner 0 ss st = Graceful (match ss with Some s => s | None => 15 end) st.
Proof. reflexivity. Qed.
