(* Model of the event queue (async-priority-channel: a bounded BinaryHeap).  pop returns SOME element of
   maximal priority (the heap is not stable, so the choice among equals is free). *)
From Coq Require Import List NArith Bool Lia Permutation.
Import ListNotations.

Section Q.
  Variable A : Type.
  Definition item := (nat * A)%type.       (* priority, payload *)

  Inductive qlabel : Type := QPush (x : item) | QPop (x : item).

  (* a pop is legal when the element is in the queue and no queued element has a higher priority *)
  Inductive qstep : list item -> qlabel -> list item -> Prop :=
    | QS_push q x : qstep q (QPush x) (x :: q)
    | QS_pop q1 q2 x : (forall y, In y (q1 ++ q2) -> fst y <= fst x) -> qstep (q1 ++ x :: q2) (QPop x) (q1 ++ q2).

  Inductive qrun : list item -> list qlabel -> list item -> Prop :=
    | QR_nil q : qrun q [] q
    | QR_cons q l q' ls q'' : qstep q l q' -> qrun q' ls q'' -> qrun q (l :: ls) q''.

  Definition pushed (ls : list qlabel) : list item := flat_map (fun l => match l with QPush x => [x] | _ => [] end) ls.
  Definition popped (ls : list qlabel) : list item := flat_map (fun l => match l with QPop x => [x] | _ => [] end) ls.

  (* nothing is lost, duplicated or invented: received ++ still queued is a permutation of sent *)
  Theorem queue_conservation q ls q' : qrun q ls q' -> Permutation (popped ls ++ q') (pushed ls ++ q).
  Proof.
    induction 1 as [q | q l q1 ls q2 Hs Hr IH]; [reflexivity|].
    destruct Hs as [q x | qa qb x Hmax]; cbn [pushed popped flat_map app] in *.
    - rewrite IH. change (pushed ls ++ x :: q) with (pushed ls ++ [x] ++ q).
      rewrite (Permutation_app_comm [x] q). rewrite app_assoc.
      change (x :: pushed ls ++ q) with ([x] ++ (pushed ls ++ q)). apply Permutation_app_comm.
    - simpl. rewrite IH. rewrite Permutation_middle. apply Permutation_app_head.
      apply Permutation_middle.
  Qed.

  (* every received element had maximal priority among those queued at that moment *)
  Theorem pop_is_max q x q' : qstep q (QPop x) q' -> forall y, In y q' -> fst y <= fst x.
  Proof. inversion 1; subst. assumption. Qed.
End Q.
