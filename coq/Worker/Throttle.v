(* Model of action/worker.rs::throttle_collect, as a machine over the sequence of received events.
   An input element is (R, th, e): the event e was taken out of the queue at time R while the configured
   throttle was th.  The machine produces the batches handed to the action handler, with the earliest
   instant at which each can be delivered (an ideal clock; the real one can only be later), and the
   events whose filtering raised an error. *)
From Coq Require Import List NArith Bool Lia.
Import ListNotations.
Open Scope N_scope.

Inductive verdict : Set := Pass | Reject | FErr.
Record ev : Set := mkEv { e_id : N; e_urgent : bool; e_empty : bool; e_verdict : verdict }.

(* urgent and empty events by-pass the filter *)
Definition accepted (e : ev) : bool :=
  e_urgent e || e_empty e || match e_verdict e with Pass => true | _ => false end.
Definition errors_on (e : ev) : bool :=
  negb (e_urgent e) && negb (e_empty e) && match e_verdict e with FErr => true | _ => false end.

Record batch : Set := mkB { b_first : N; b_deliver : N; b_urgent : bool; b_ids : list N }.

Record tstate : Set := mkT {
  t_set : list N;          (* ids collected so far, oldest first *)
  t_last : N;              (* receive time of the first event of the set *)
  t_out : list batch;      (* batches delivered, newest first *)
  t_errs : list N }.       (* ids of events whose filter errored, newest first *)

Definition t0 : tstate := mkT [] 0 [] [].

(* the window of the current set ran out before R: timeout(maxtime, recv) fired at last + th *)
Definition flush_timeout (s : tstate) (R th : N) : tstate :=
  match t_set s with
  | [] => s
  | ids => if t_last s + th <? R then mkT [] (t_last s) (mkB (t_last s) (t_last s + th) false ids :: t_out s) (t_errs s) else s
  end.

Definition on_event (s0 : tstate) (x : N * N * ev) : tstate :=
  match x with (R, th, e) =>
    let s := flush_timeout s0 R th in
    if errors_on e then mkT (t_set s) (t_last s) (t_out s) (e_id e :: t_errs s)
    else if negb (accepted e) then s
    else
      let last := match t_set s with [] => R | _ => t_last s end in
      let set := t_set s ++ [e_id e] in
      if e_urgent e then mkT [] last (mkB last R true set :: t_out s) (t_errs s)
      else if th <=? R - last then mkT [] last (mkB last R false set :: t_out s) (t_errs s)
      else mkT set last (t_out s) (t_errs s)
  end.

Definition run_events (l : list (N * N * ev)) : tstate := fold_left on_event l t0.

(* when input stops (and the queue stays open) the pending set is delivered at the end of its window *)
Definition finish (s : tstate) (th : N) : list batch :=
  rev (match t_set s with [] => t_out s | ids => mkB (t_last s) (t_last s + th) false ids :: t_out s end).

Definition collect (l : list (N * N * ev)) (th_end : N) : list batch := finish (run_events l) th_end.
Definition filter_errors (l : list (N * N * ev)) : list N := rev (t_errs (run_events l)).
