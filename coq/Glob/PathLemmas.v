(* Facts about clean path strings: parent, component-wise ancestry, byte prefixes. *)
From Coq Require Import List NArith String Ascii Bool Lia.
From WX Require Import Base.Bytes Glob.Glob Glob.Gitignore.
Import ListNotations.
Open Scope string_scope.

Lemma prefixb_spec p s : prefixb p s = true <-> exists r, s = p ++ r.
Proof.
  revert s. induction p as [|c p IH]; intro s; simpl.
  - split; [intros _; exists s; reflexivity | reflexivity].
  - destruct s as [|d s']; [split; [discriminate | intros [r H]; discriminate]|].
    destruct (Ascii.eqb_spec c d) as [->|Hn].
    + rewrite IH. split; intros [r H]; exists r; [rewrite H; reflexivity | inversion H; reflexivity].
    + split; [discriminate | intros [r H]; inversion H as [[H1 H2]]; congruence].
Qed.

Lemma append_assoc a b c : (a ++ b) ++ c = a ++ (b ++ c).
Proof. induction a as [|x a IH]; simpl; [reflexivity | rewrite IH; reflexivity]. Qed.
Lemma append_nil_r a : a ++ "" = a.
Proof. induction a as [|x a IH]; simpl; [reflexivity | rewrite IH; reflexivity]. Qed.
Lemma append_length a b : String.length (a ++ b) = String.length a + String.length b.
Proof. induction a as [|x a IH]; simpl; [reflexivity | rewrite IH; reflexivity]. Qed.

(* before_last_slash splits at the last separator *)
Lemma before_last_slash_spec s pre :
  before_last_slash s = Some pre -> exists last, s = pre ++ "/" ++ last /\ has_slash last = false.
Proof.
  revert pre. induction s as [|c r IH]; intro pre; simpl; [discriminate|].
  destruct (before_last_slash r) as [p|] eqn:E.
  - intro H. inversion H; subst. destruct (IH p eq_refl) as (last & -> & Hl).
    exists last. split; [reflexivity | exact Hl].
  - destruct (is_sep c) eqn:Ec; [|discriminate]. intro H. inversion H; subst.
    unfold is_sep in Ec. apply Ascii.eqb_eq in Ec. subst c. exists r. split; [reflexivity|].
    clear IH H. induction r as [|d r IH]; simpl in *; [reflexivity|].
    destruct (before_last_slash r) eqn:E2; [discriminate|].
    destruct (is_sep d); [discriminate|]. simpl. apply IH. reflexivity.
Qed.

Lemma before_last_slash_none s : before_last_slash s = None -> has_slash s = false.
Proof.
  induction s as [|c r IH]; simpl; [reflexivity|].
  destruct (before_last_slash r); [discriminate|]. destruct (is_sep c); [discriminate|]. intros _. apply IH. reflexivity.
Qed.

(* the parent of p is shorter, and p lies under it *)
Lemma path_parent_shorter p q : path_parent p = Some q -> String.length q < String.length p.
Proof.
  unfold path_parent. destruct p as [|c r]; [discriminate|].
  destruct (String.eqb (String c r) "/") eqn:E0; [discriminate|].
  destruct (before_last_slash (String c r)) as [pre|] eqn:E.
  - apply before_last_slash_spec in E. destruct E as (last & Hs & _).
    destruct pre as [|x pre'].
    + intro H. inversion H; subst. simpl in Hs. inversion Hs; subst.
      destruct last; [simpl in E0; discriminate | simpl; lia].
    + intro H. inversion H; subst. rewrite Hs. rewrite append_length. simpl. lia.
  - intro H. inversion H; subst. simpl. lia.
Qed.

Lemma is_under_refl p : is_under p p = true.
Proof. unfold is_under. rewrite String.eqb_refl. reflexivity. Qed.

Lemma is_under_parent p q : path_parent p = Some q -> q <> "" -> is_under q p = true.
Proof.
  unfold path_parent. destruct p as [|c r]; [discriminate|].
  destruct (String.eqb (String c r) "/") eqn:E0; [discriminate|].
  destruct (before_last_slash (String c r)) as [pre|] eqn:E.
  - apply before_last_slash_spec in E. destruct E as (last & Hs & _).
    destruct pre as [|x pre'].
    + intro H. inversion H; subst. intros _. unfold is_under. simpl in Hs. rewrite Hs. simpl.
      rewrite orb_true_r. reflexivity.
    + intro H. inversion H; subst. intros _. unfold is_under.
      destruct (String.eqb (String x pre') "/") eqn:E1.
      * apply String.eqb_eq in E1. rewrite E1 in Hs. rewrite Hs. simpl. rewrite orb_true_r. reflexivity.
      * assert (prefixb (String x pre' ++ "/") (String c r) = true) as ->.
        { apply prefixb_spec. exists last. rewrite Hs. rewrite append_assoc. reflexivity. }
        apply orb_true_r.
  - intro H. inversion H; subst. intro C. contradiction.
Qed.

Lemma is_under_trans a b c :
  a <> "" -> is_under a b = true -> is_under b c = true -> is_under a c = true.
Proof.
  intros Ha H1 H2. unfold is_under in *.
  apply orb_true_iff in H1. apply orb_true_iff in H2.
  destruct H1 as [H1|H1]; [apply String.eqb_eq in H1; subst; apply orb_true_iff; exact H2|].
  destruct H2 as [H2|H2]; [apply String.eqb_eq in H2; subst; apply orb_true_iff; right; exact H1|].
  apply orb_true_iff. right.
  destruct (String.eqb a "/") eqn:Ea.
  - (* a = "/": c is absolute because b is *)
    apply prefixb_spec in H1. destruct H1 as [r1 ->].
    destruct (String.eqb ("/" ++ r1) "/") eqn:Eb.
    + exact H2.
    + apply prefixb_spec in H2. destruct H2 as [r2 ->]. reflexivity.
  - apply prefixb_spec in H1. destruct H1 as [r1 ->].
    destruct (String.eqb ((a ++ "/") ++ r1) "/") eqn:Eb.
    + apply String.eqb_eq in Eb. destruct a as [|a0 a1]; [contradiction|]. simpl in Eb.
      injection Eb as Hc Hr. destruct a1; simpl in Hr; discriminate Hr.
    + apply prefixb_spec in H2. destruct H2 as [r2 ->]. apply prefixb_spec.
      exists (r1 ++ "/" ++ r2). rewrite !append_assoc. reflexivity.
Qed.

