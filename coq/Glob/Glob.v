(* Model of globset 0.4 globs as the `ignore` crate builds them: literal_separator(true),
   backslash_escape(true), case sensitive.  Grammar covered: literals, ?, *, ** in prefix / suffix /
   middle position.  Character classes, alternates and backslash escapes are reported as unsupported
   (the generators never produce them).  Semantics = the regex globset compiles the tokens to. *)
From Coq Require Import List NArith String Ascii Bool.
From WX Require Import Base.Bytes.
Import ListNotations.
Open Scope string_scope.

Inductive tok : Set :=
  | TLit (c : ascii)
  | TAny          (* ?      = [^/]            *)
  | TStar         (* *      = [^/]*           *)
  | TRecPre       (* **/    = (?:/?|.*/)      at the start *)
  | TRecSuf       (* /**    = /.*             at the end   *)
  | TRecMid       (* /**/   = (?:/|/.*/)      in the middle *)
  | TClass (neg : bool) (ranges : list (ascii * ascii)).   (* [a-cx] / [!...] : one byte *)

Definition is_sep (c : ascii) : bool := Ascii.eqb c "/".

(* does some suffix of s that starts right after a '/' satisfy k?  (the ".*/" alternatives) *)
Fixpoint after_some_slash (k : string -> bool) (s : string) : bool :=
  match s with
  | EmptyString => false
  | String c r => (if is_sep c then k r else false) || after_some_slash k r
  end.

Fixpoint any_suffix (k : string -> bool) (s : string) : bool :=
  k s || match s with EmptyString => false | String _ r => any_suffix k r end.

(* [^/]* then k *)
Fixpoint star_then (k : string -> bool) (s : string) : bool :=
  k s || match s with
         | EmptyString => false
         | String c r => if is_sep c then false else star_then k r
         end.

Fixpoint tmatch (ts : list tok) (s : string) : bool :=
  match ts with
  | [] => match s with EmptyString => true | _ => false end
  | TLit c :: r => match s with String d s' => Ascii.eqb c d && tmatch r s' | EmptyString => false end
  | TAny :: r => match s with String d s' => negb (is_sep d) && tmatch r s' | EmptyString => false end
  | TStar :: r => star_then (tmatch r) s
  | TRecPre :: r => tmatch r s || after_some_slash (tmatch r) s
  | TRecSuf :: r => match s with String d s' => is_sep d && any_suffix (tmatch r) s' | EmptyString => false end
  | TRecMid :: r => match s with
                    | String d s' => is_sep d && (tmatch r s' || after_some_slash (tmatch r) s')
                    | EmptyString => false
                    end
  | TClass neg rs :: r =>
      match s with
      | String d s' =>
          xorb neg (existsb (fun ab => N.leb (N_of_ascii (fst ab)) (N_of_ascii d) && N.leb (N_of_ascii d) (N_of_ascii (snd ab))) rs)
          && tmatch r s'
      | EmptyString => false
      end
  end.

(* ---- parser (globset::glob::Parser, restricted) ---- *)
Definition unsupported_char (c : ascii) : bool :=
  let n := N_of_ascii c in
  orb (N.eqb n 93) (orb (N.eqb n 123) (orb (N.eqb n 125) (N.eqb n 92))).  (* ] { } \ *)

(* the body of a class up to the closing bracket: (ranges, rest) *)
Fixpoint parse_class (s : string) (acc : list (ascii * ascii)) : option (list (ascii * ascii) * string) :=
  match s with
  | EmptyString => None
  | String c r =>
      if Ascii.eqb c "]" then Some (rev acc, r)
      else match r with
           | String "-" (String e r2) =>
               if Ascii.eqb e "]" then parse_class r ((c, c) :: acc) else parse_class r2 ((c, e) :: acc)
           | _ => parse_class r ((c, c) :: acc)
           end
  end.

Definition last_tok_is_sep (acc : list tok) : bool :=
  match acc with TLit c :: _ => is_sep c | _ => false end.

(* acc is the reversed token list; prev_sep = previous *character* was a separator *)
Fixpoint parse_aux (fuel : nat) (s : string) (acc : list tok) (prev : option ascii) : option (list tok) :=
  match fuel with
  | O => None
  | S fuel' =>
    match s with
    | EmptyString => Some (rev acc)
    | String c r =>
        if unsupported_char c then None
        else if Ascii.eqb c "[" then
          let (neg, body) := match r with
                             | String "!" b => (true, b)
                             | String "^" b => (true, b)
                             | _ => (false, r) end in
          match parse_class body [] with
          | Some (rs, rest) => parse_aux fuel' rest (TClass neg rs :: acc) (Some "]"%char)
          | None => None
          end
        else if Ascii.eqb c "?" then parse_aux fuel' r (TAny :: acc) (Some c)
        else if Ascii.eqb c "*" then
          match r with
          | String "*" r2 =>
              (* "**" *)
              match acc with
              | [] =>
                  (* no tokens yet *)
                  match r2 with
                  | EmptyString => Some [TRecPre]
                  | String d r3 =>
                      if is_sep d then parse_aux fuel' r3 [TRecPre] (Some d)
                      else parse_aux fuel' r2 [TStar; TStar] (Some "*"%char)
                  end
              | _ =>
                  if negb (match prev with Some p => is_sep p | None => false end)
                  then parse_aux fuel' r2 (TStar :: TStar :: acc) (Some "*"%char)
                  else
                    match r2 with
                    | EmptyString =>
                        (* suffix: pop the separator literal (or merge with a previous recursive token) *)
                        Some (rev (match acc with
                                   | TRecPre :: a => TRecPre :: a
                                   | TRecSuf :: a => TRecSuf :: a
                                   | _ :: a => TRecSuf :: a
                                   | [] => [TRecSuf]
                                   end))
                    | String d r3 =>
                        if is_sep d then
                          parse_aux fuel' r3 (match acc with
                                              | TRecPre :: a => TRecPre :: a
                                              | TRecSuf :: a => TRecSuf :: a
                                              | _ :: a => TRecMid :: a
                                              | [] => [TRecMid]
                                              end) (Some d)
                        else parse_aux fuel' r2 (TStar :: TStar :: acc) (Some "*"%char)
                    end
              end
          | _ => parse_aux fuel' r (TStar :: acc) (Some c)
          end
        else parse_aux fuel' r (TLit c :: acc) (Some c)
    end
  end.

Definition glob_parse (s : string) : option (list tok) := parse_aux (S (String.length s)) s [] None.

Definition glob_match (pat : string) (s : string) : bool :=
  match glob_parse pat with Some ts => tmatch ts s | None => false end.
