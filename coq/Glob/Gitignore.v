(* Model of ignore::gitignore (0.4.23): GitignoreBuilder::add_line, Gitignore::{strip, matched_stripped,
   matched, matched_path_or_any_parents}.  The glob matcher is a parameter (Section variable) so that the
   scoping / precedence theorems hold for any pattern language; Glob.glob_match is the instance the
   correspondence runs. *)
From Coq Require Import List NArith String Ascii Bool.
From WX Require Import Base.Bytes Glob.Glob.
Import ListNotations.
Open Scope string_scope.

Record gglob : Type := mkGlob {
  g_from : option string;      (* the directory (or "/") the pattern was read for *)
  g_original : string;
  g_actual : string;           (* the glob text handed to globset *)
  g_white : bool;
  g_onlydir : bool }.

Record gitignore : Type := mkGi { gi_root : string; gi_globs : list gglob }.

Inductive gmatch : Type := MNone | MIgnore (g : gglob) | MWhite (g : gglob).

Fixpoint has_slash (s : string) : bool :=
  match s with EmptyString => false | String c r => is_sep c || has_slash r end.

Fixpoint ends_with (suf s : string) : bool :=
  String.eqb suf s || match s with EmptyString => false | String _ r => ends_with suf r end.

Definition is_ws (c : ascii) : bool :=
  let n := N_of_ascii c in orb (N.eqb n 32) (orb (N.leb 9 n && N.leb n 13) false).

Fixpoint trim_right (s : string) : string :=
  match s with
  | EmptyString => EmptyString
  | String c r =>
      match trim_right r with
      | EmptyString => if is_ws c then EmptyString else String c EmptyString
      | r' => String c r'
      end
  end.

Fixpoint drop_last (s : string) : string :=
  match s with
  | EmptyString => EmptyString
  | String c EmptyString => EmptyString
  | String c r => String c (drop_last r)
  end.
Fixpoint last_char (s : string) : option ascii :=
  match s with
  | EmptyString => None
  | String c EmptyString => Some c
  | String _ r => last_char r
  end.

(* GitignoreBuilder::add_line; None = the line adds nothing (comment / blank). Backslash escapes are
   outside the modelled grammar. *)
Definition add_line (from : option string) (line0 : string) : option gglob :=
  if prefixb "#" line0 then None else
  let line := trim_right line0 in
  match line with
  | EmptyString => None
  | _ =>
    let (white, l1) := match line with String "!" r => (true, r) | _ => (false, line) end in
    let (absolute, l2) := match l1 with String "/" r => (true, r) | _ => (false, l1) end in
    let (onlydir, l3) := match last_char l2 with
                         | Some "/"%char => (true, drop_last l2)
                         | _ => (false, l2) end in
    let a1 := if andb (negb absolute) (negb (has_slash l3))
              then (if orb (prefixb "**/" l3) (String.eqb l3 "**") then l3 else "**/" ++ l3)
              else l3 in
    let a2 := if ends_with "/**" a1 then a1 ++ "/*" else a1 in
    Some (mkGlob from line a2 white onlydir)
  end.

(* byte-wise pathutil::strip_prefix / is_file_name / Gitignore::strip *)
Definition gi_strip (root path : string) : string :=
  let p0 := match strip_prefix "./" path with Some p => p | None => path end in
  if andb (negb (String.eqb root ".")) (has_slash p0) then
    match strip_prefix root p0 with
    | Some p1 => match strip_prefix "/" p1 with Some p2 => p2 | None => p1 end
    | None => p0
    end
  else p0.

(* Path::parent on a relative or absolute clean path string *)
(* text before the last '/', or None when there is no '/' *)
Fixpoint before_last_slash (s : string) : option string :=
  match s with
  | EmptyString => None
  | String c r =>
      match before_last_slash r with
      | Some pre => Some (String c pre)
      | None => if is_sep c then Some EmptyString else None
      end
  end.

Definition path_parent (s : string) : option string :=
  match s with
  | EmptyString => None
  | _ =>
    if String.eqb s "/" then None else
    match before_last_slash s with
    | None => Some EmptyString                       (* "a" -> "" *)
    | Some EmptyString => Some "/"                   (* "/a" -> "/" *)
    | Some p => Some p
    end
  end.

(* component-wise Path::starts_with for clean paths *)
Definition is_under (dir path : string) : bool :=
  String.eqb dir path ||
  (if String.eqb dir "/" then prefixb "/" path else prefixb (dir ++ "/") path).

Section Matcher.
  Variable gm : string -> string -> bool.       (* glob text -> candidate -> matches? *)

  (* matched_stripped: the last glob that matches and whose only-dir flag is compatible decides *)
  Fixpoint last_match (gs : list gglob) (path : string) (is_dir : bool) (acc : gmatch) : gmatch :=
    match gs with
    | [] => acc
    | g :: r =>
        let acc' := if andb (gm (g_actual g) path) (orb (negb (g_onlydir g)) is_dir)
                    then (if g_white g then MWhite g else MIgnore g) else acc in
        last_match r path is_dir acc'
    end.
  Definition matched_stripped (gi : gitignore) (path : string) (is_dir : bool) : gmatch :=
    last_match (gi_globs gi) path is_dir MNone.

  Definition matched (gi : gitignore) (path : string) (is_dir : bool) : gmatch :=
    match gi_globs gi with
    | [] => MNone
    | _ => matched_stripped gi (gi_strip (gi_root gi) path) is_dir
    end.

  Fixpoint parents_walk (fuel : nat) (gi : gitignore) (path : string) : gmatch :=
    match fuel with
    | O => MNone
    | S f =>
        match path_parent path with
        | None => MNone
        | Some par =>
            match matched_stripped gi par true with
            | MNone => parents_walk f gi par
            | m => m
            end
        end
    end.

  (* matched_path_or_any_parents (the has_root assertion cannot fire for the calls IgnoreFilter makes) *)
  Definition matched_or_parents (gi : gitignore) (path : string) (is_dir : bool) : gmatch :=
    match gi_globs gi with
    | [] => MNone
    | _ =>
        let p := gi_strip (gi_root gi) path in
        match matched_stripped gi p is_dir with
        | MNone => parents_walk (S (String.length p)) gi p
        | m => m
        end
    end.
End Matcher.

Definition gm_glob (pat cand : string) : bool :=
  match glob_parse pat with
  | Some [TRecPre] => true
  | Some ts => tmatch ts cand
  | None => false
  end.
