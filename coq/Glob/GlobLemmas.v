(* Facts about the glob token semantics that the filter properties rely on. *)
From Coq Require Import List NArith String Ascii Bool.
From WX Require Import Base.Bytes Glob.Glob Glob.Gitignore Glob.PathLemmas.
Import ListNotations.
Open Scope string_scope.

Fixpoint lits (s : string) : list tok := match s with EmptyString => [] | String c r => TLit c :: lits r end.

(* a pattern without metacharacters matches exactly itself *)
Lemma literal_matches_itself_only s t : tmatch (lits s) t = String.eqb s t.
Proof.
  revert t. induction s as [|c s IH]; intro t; cbn [lits tmatch].
  - destruct t; reflexivity.
  - destruct t as [|d t]; [reflexivity|]. cbn [String.eqb]. rewrite IH. reflexivity.
Qed.

(* `*` matches any run of characters that contains no separator, and nothing else *)
Lemma star_alone s : tmatch [TStar] s = negb (has_slash s).
Proof.
  cbn [tmatch]. induction s as [|c s IH]; [reflexivity|]. cbn [star_then tmatch has_slash].
  unfold is_sep in *. destruct (Ascii.eqb c "/"); cbn [orb negb]; [reflexivity | exact IH].
Qed.

(* `?` matches exactly one character that is not a separator *)
Lemma any_alone s : tmatch [TAny] s = match s with String c EmptyString => negb (is_sep c) | _ => false end.
Proof. destruct s as [|c [|d r]]; cbn [tmatch]; try reflexivity; [rewrite andb_true_r; reflexivity | rewrite andb_false_r; reflexivity]. Qed.

(* `**/name` matches `name` at any depth: the whole string, or whatever follows some separator *)
Lemma recursive_prefix name s :
  tmatch (TRecPre :: lits name) s = String.eqb name s || after_some_slash (String.eqb name) s.
Proof.
  cbn [tmatch]. rewrite literal_matches_itself_only. f_equal.
  induction s as [|c s IH]; [reflexivity|]. cbn [after_some_slash]. rewrite literal_matches_itself_only, IH. reflexivity.
Qed.

(* a `*` segment never lets a match reach across a directory boundary: `*.ext` does not match `dir/file.ext` *)
Lemma star_then_no_sep k s : star_then k s = true -> exists a b, s = a ++ b /\ has_slash a = false /\ k b = true.
Proof.
  induction s as [|c s IH]; cbn [star_then].
  - rewrite orb_false_r. intro H. exists "", "". repeat split. exact H.
  - intro H. apply orb_true_iff in H. destruct H as [H|H]; [exists "", (String c s); repeat split; exact H|].
    destruct (is_sep c) eqn:Ec; [discriminate|]. destruct (IH H) as (a & b & -> & Ha & Hb).
    exists (String c a), b. split; [reflexivity|]. split; [cbn [has_slash]; rewrite Ec, Ha; reflexivity | exact Hb].
Qed.
