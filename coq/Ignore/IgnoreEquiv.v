(* C03: the repaired match_path (trie walk by longest byte-prefix key, skipping keys that are not ancestor
   directories) computes exactly the git-style reference walk over the ancestor directories of the path,
   for every filter whose keys are absolute and every absolute path. *)
From Coq Require Import List Arith NArith String Ascii Bool Lia.
From WX Require Import Base.Bytes Glob.Glob Glob.Gitignore Glob.PathLemmas Ignore.IgnoreFilter.
Import ListNotations.
Open Scope string_scope.
Open Scope list_scope.

Notation slen := String.length.

(* ---------------- strings *)
Lemma append_split a b x y : (a ++ x = b ++ y)%string -> slen a <= slen b -> exists m, b = (a ++ m)%string /\ x = (m ++ y)%string.
Proof.
  revert b. induction a as [|c a IH]; intros b H L.
  - exists b. split; [reflexivity | exact H].
  - destruct b as [|d b]; [simpl in L; lia|]. simpl in H. injection H as -> H. simpl in L.
    destruct (IH b H) as (m & -> & ->); [lia|]. exists m. split; reflexivity.
Qed.

Lemma prefix_of_prefix a b s : prefixb a s = true -> prefixb b s = true -> slen a <= slen b -> prefixb a b = true.
Proof.
  intros Ha Hb L. apply prefixb_spec in Ha. apply prefixb_spec in Hb. destruct Ha as [x ->]. destruct Hb as [y Hy].
  destruct (append_split a b x y Hy L) as (m & -> & _). apply prefixb_spec. exists m. reflexivity.
Qed.

Lemma prefixb_refl s : prefixb s s = true.
Proof. apply prefixb_spec. exists "". rewrite append_nil_r. reflexivity. Qed.
Lemma prefixb_trans a b c : prefixb a b = true -> prefixb b c = true -> prefixb a c = true.
Proof.
  intros H1 H2. apply prefixb_spec in H1. apply prefixb_spec in H2. destruct H1 as [x ->]. destruct H2 as [y ->].
  apply prefixb_spec. exists (x ++ y)%string. rewrite append_assoc. reflexivity.
Qed.
Lemma prefixb_len a b : prefixb a b = true -> slen a <= slen b.
Proof. intro H. apply prefixb_spec in H. destruct H as [x ->]. rewrite append_length. lia. Qed.
Lemma prefixb_same_len a b : prefixb a b = true -> slen a = slen b -> a = b.
Proof.
  intros H L. apply prefixb_spec in H. destruct H as [x ->]. rewrite append_length in L.
  destruct x; [rewrite append_nil_r; reflexivity | simpl in L; lia].
Qed.

Definition absolute (s : string) : Prop := prefixb "/" s = true.
Lemma absolute_nonempty s : absolute s -> s <> "".
Proof. intros H ->. discriminate H. Qed.
Lemma absolute_prefix a b : absolute b -> prefixb a b = true -> a <> "" -> absolute a.
Proof.
  unfold absolute. intros Hb Hp Ha. destruct a as [|c a]; [contradiction|]. destruct b as [|d b]; [discriminate|].
  simpl in *. destruct (Ascii.eqb c d) eqn:E; [|discriminate]. apply Ascii.eqb_eq in E. subst d. exact Hb.
Qed.

(* is_under in terms of appends *)
Lemma is_under_cases d p : is_under d p = true <->
  d = p \/ (d = "/" /\ absolute p) \/ (d <> "/" /\ exists r, p = (d ++ "/" ++ r)%string).
Proof.
  unfold is_under, absolute. split.
  - intro H. apply orb_true_iff in H. destruct H as [H|H]; [left; apply String.eqb_eq; exact H|].
    destruct (String.eqb d "/") eqn:E.
    + apply String.eqb_eq in E. right. left. split; assumption.
    + right. right. split; [intros ->; discriminate|]. apply prefixb_spec in H. destruct H as [r ->]. exists r. rewrite append_assoc. reflexivity.
  - intros [->|[[-> H]|[N [r ->]]]].
    + rewrite String.eqb_refl. reflexivity.
    + rewrite H. apply orb_true_r.
    + assert (String.eqb d "/" = false) as -> by (apply String.eqb_neq; exact N).
      apply orb_true_iff. right. apply prefixb_spec. exists r. rewrite append_assoc. reflexivity.
Qed.

Lemma is_under_prefix d p : is_under d p = true -> prefixb d p = true.
Proof.
  intro H. apply is_under_cases in H. destruct H as [->|[[-> H]|[_ [r ->]]]].
  - apply prefixb_refl.
  - exact H.
  - apply prefixb_spec. eexists. reflexivity.
Qed.

(* F3: an ancestor of the path that is shorter than another byte prefix of the path is an ancestor of it *)
Lemma ancestor_of_longer_prefix a k p :
  is_under a p = true -> prefixb k p = true -> slen a < slen k -> a <> "" -> is_under a k = true.
Proof.
  intros Ha Hk L Ne. apply is_under_cases in Ha. apply is_under_cases.
  destruct Ha as [->|[[-> Hp]|[N [r ->]]]].
  - apply prefixb_len in Hk. lia.
  - right. left. split; [reflexivity|]. apply (absolute_prefix k p Hp Hk). intros ->. simpl in L. lia.
  - right. right. split; [exact N|]. apply prefixb_spec in Hk. destruct Hk as [y Hy].
    (* k ++ y = a ++ "/" ++ r with |a| < |k| *)
    destruct (append_split a k ("/" ++ r) y Hy) as (m & -> & Hm); [lia|].
    destruct m as [|c m]; [rewrite append_nil_r in L; lia|]. simpl in Hm. injection Hm as <- _.
    exists m. reflexivity.
Qed.

(* F4: a proper ancestor of k is no longer than k's parent *)
Lemma has_slash_app a b : has_slash (a ++ b) = has_slash a || has_slash b.
Proof. induction a as [|c a IH]; simpl; [reflexivity|]. rewrite IH. apply orb_assoc. Qed.

Lemma proper_ancestor_parent a k :
  is_under a k = true -> a <> k -> a <> "" -> exists q, path_parent k = Some q /\ slen a <= slen q.
Proof.
  intros H Ne Ne0. apply is_under_cases in H. destruct H as [->|[[-> Hk]|[N [r ->]]]]; [contradiction| |].
  - (* a = "/" *)
    unfold absolute in Hk. destruct k as [|c k]; [discriminate|].
    unfold path_parent. destruct (String.eqb (String c k) "/") eqn:E; [apply String.eqb_eq in E; congruence|].
    destruct (before_last_slash (String c k)) as [pre|] eqn:B.
    + destruct pre as [|x pre]; [exists "/"; split; [reflexivity | simpl; lia]|].
      exists (String x pre). split; [reflexivity | simpl; lia].
    + apply before_last_slash_none in B. apply prefixb_spec in Hk. destruct Hk as [r0 Hr]. simpl in Hr. injection Hr as -> _.
      simpl in B. discriminate.
  - (* k = a / r *)
    set (k := (a ++ "/" ++ r)%string).
    assert (k <> "") as Kne by (unfold k; destruct a; [contradiction | discriminate]).
    unfold path_parent. destruct k as [|c k'] eqn:EK; [contradiction|]. rewrite <- EK in *.
    destruct (String.eqb k "/") eqn:E.
    { apply String.eqb_eq in E. unfold k in E. destruct a as [|x a]; [contradiction|]. simpl in E. injection E as -> E.
      destruct a; discriminate E. }
    rewrite EK. rewrite <- EK. destruct (before_last_slash k) as [pre|] eqn:B.
    + destruct (before_last_slash_spec k pre B) as (last & Hs & Hl).
      assert (slen a <= slen pre) as L.
      { destruct (le_lt_dec (slen a) (slen pre)) as [ok|bad]; [exact ok|]. exfalso.
        (* pre ++ "/" ++ last = a ++ "/" ++ r with |pre| < |a|: then last contains the '/' after a *)
        unfold k in Hs. destruct (append_split pre a ("/" ++ last) ("/" ++ r) (eq_sym Hs)) as (m & Ha & Hm); [lia|].
        destruct m as [|c0 m]; [rewrite append_nil_r in Ha; subst a; lia|]. simpl in Hm. injection Hm as _ Hm.
        rewrite Hm in Hl. rewrite has_slash_app in Hl. simpl in Hl. rewrite orb_true_r in Hl. discriminate. }
      destruct pre as [|x pre]; [simpl in L; destruct a; [contradiction | simpl in L; lia]|].
      exists (String x pre). split; [reflexivity | exact L].
    + apply before_last_slash_none in B. unfold k in B. rewrite has_slash_app in B. simpl in B. rewrite orb_true_r in B. discriminate.
Qed.

(* ---------------- the chain of ancestor directories *)
Lemma parent_absolute p q : absolute p -> path_parent p = Some q -> absolute q /\ prefixb q p = true.
Proof.
  unfold absolute. intros Hp H. unfold path_parent in H. destruct p as [|c p]; [discriminate|].
  destruct (String.eqb (String c p) "/"); [discriminate|].
  destruct (before_last_slash (String c p)) as [pre|] eqn:B.
  - destruct (before_last_slash_spec _ _ B) as (last & Hs & _).
    destruct pre as [|x pre]; injection H as <-.
    + split; [reflexivity | exact Hp].
    + assert (prefixb (String x pre) (String c p) = true) as P by (apply prefixb_spec; eexists; exact Hs).
      split; [|exact P]. apply (absolute_prefix _ _ Hp P). discriminate.
  - apply before_last_slash_none in B. apply prefixb_spec in Hp. destruct Hp as [r0 Hr]. simpl in Hr. injection Hr as -> _.
    simpl in B. discriminate.
Qed.

Lemma chain_props n : forall p a, absolute p -> In a (ancestors_of n p) ->
  absolute a /\ is_under a p = true /\ slen a <= slen p.
Proof.
  induction n as [|n IH]; intros p a Hp Hin; [contradiction|]. cbn [ancestors_of] in Hin. destruct Hin as [<-|Hin].
  - split; [exact Hp|]. split; [apply is_under_refl | lia].
  - destruct (path_parent p) as [q|] eqn:Q; [|contradiction]. destruct (parent_absolute p q Hp Q) as [Hq Pq].
    destruct (IH q a Hq Hin) as (A1 & A2 & A3). split; [exact A1|]. split.
    + apply (is_under_trans a q p); [apply absolute_nonempty; exact A1 | exact A2 |].
      apply is_under_parent; [exact Q | apply absolute_nonempty; exact Hq].
    + pose proof (path_parent_shorter p q Q). lia.
Qed.

(* the head is the longest element; the others are strictly shorter *)
Lemma chain_tail_shorter n p q a : absolute p -> path_parent p = Some q -> In a (ancestors_of n q) -> slen a < slen p.
Proof.
  intros Hp Q Hin. destruct (parent_absolute p q Hp Q) as [Hq _].
  destruct (chain_props n q a Hq Hin) as (_ & _ & L). pose proof (path_parent_shorter p q Q). lia.
Qed.

(* completeness: every absolute ancestor directory of p is in the chain *)
Lemma chain_complete : forall n p k, slen p < n -> absolute p -> absolute k -> is_under k p = true -> In k (ancestors_of n p).
Proof.
  induction n as [|n IH]; intros p k L Hp Hk U; [lia|]. cbn [ancestors_of].
  destruct (string_dec k p) as [->|Ne]; [left; reflexivity|]. right.
  destruct (proper_ancestor_parent k p U Ne (absolute_nonempty k Hk)) as (q & Q & Lq). rewrite Q.
  destruct (parent_absolute p q Hp Q) as [Hq Pq]. pose proof (path_parent_shorter p q Q) as Sh.
  apply IH; [lia | exact Hq | exact Hk |].
  destruct (Nat.eq_dec (slen k) (slen q)) as [E|NE].
  - assert (k = q) as ->; [|apply is_under_refl].
    apply prefixb_same_len; [|exact E]. apply (prefix_of_prefix k q p); [apply is_under_prefix; exact U | exact Pq | lia].
  - apply (ancestor_of_longer_prefix k q p U Pq); [lia | apply absolute_nonempty; exact Hk].
Qed.

(* ---------------- longest_prefix_key *)
Lemma lpk_spec ns s : forall best,
  (match best with Some (bk, bg) => prefixb bk s = true | None => True end) ->
  match longest_prefix_key ns s best with
  | None => best = None /\ forall k g, In (k, g) ns -> prefixb k s = false
  | Some (k, g) =>
      prefixb k s = true /\
      (forall k' g', In (k', g') ns -> prefixb k' s = true -> slen k' <= slen k) /\
      (match best with Some (bk, _) => slen bk <= slen k | None => True end) /\
      (best = Some (k, g) \/ In (k, g) ns)
  end.
Proof.
  induction ns as [|[k0 g0] r IH]; intros best Hb; cbn [longest_prefix_key].
  - destruct best as [[bk bg]|]; [|split; [reflexivity | intros k g []]].
    split; [exact Hb|]. split; [intros k' g' []|]. split; [lia | left; reflexivity].
  - set (best' := if prefixb k0 s then match best with
                                       | Some (bk, _) => if Nat.ltb (slen bk) (slen k0) then Some (k0, g0) else best
                                       | None => Some (k0, g0) end else best).
    assert (match best' with Some (bk, bg) => prefixb bk s = true | None => True end) as Hb'.
    { unfold best'. destruct (prefixb k0 s) eqn:P; [|exact Hb]. destruct best as [[bk bg]|]; [|exact P].
      destruct (Nat.ltb (slen bk) (slen k0)); [exact P | exact Hb]. }
    specialize (IH best' Hb'). destruct (longest_prefix_key r s best') as [[k g]|].
    + destruct IH as (A & B & C & D). split; [exact A|]. split; [|split].
      * intros k' g' [Hin|Hin] Hp; [|eapply B; eassumption]. injection Hin as <- <-.
        unfold best' in C. rewrite Hp in C. destruct best as [[bk bg]|]; [|exact C].
        destruct (Nat.ltb (slen bk) (slen k0)) eqn:Lt; [exact C|]. apply Nat.ltb_ge in Lt. lia.
      * unfold best' in C. destruct best as [[bk bg]|]; [|exact I]. destruct (prefixb k0 s); [|exact C].
        destruct (Nat.ltb (slen bk) (slen k0)) eqn:Lt; [apply Nat.ltb_lt in Lt; lia | exact C].
      * destruct D as [D|D]; [|right; right; exact D]. unfold best' in D.
        destruct (prefixb k0 s); [|left; exact D]. destruct best as [[bk bg]|].
        -- destruct (Nat.ltb (slen bk) (slen k0)); [right; left; symmetry; injection D as <- <-; reflexivity | left; exact D].
        -- right. left. injection D as <- <-. reflexivity.
    + destruct IH as [E F]. unfold best' in E. destruct (prefixb k0 s) eqn:P.
      * destruct best as [[bk bg]|]; [destruct (Nat.ltb (slen bk) (slen k0)); discriminate | discriminate].
      * split; [exact E|]. intros k g [Hin|Hin]; [injection Hin as <- <-; exact P | eapply F; exact Hin].
Qed.

(* with unique keys, membership determines node_get *)
Lemma node_get_in ns k g : NoDup (map fst ns) -> In (k, g) ns -> node_get k ns = Some g.
Proof.
  induction ns as [|[k0 g0] r IH]; intros ND Hin; [contradiction|]. cbn [node_get]. cbn [map fst] in ND.
  apply NoDup_cons_iff in ND. destruct ND as [NI ND]. destruct Hin as [Hin|Hin].
  - injection Hin as -> ->. rewrite String.eqb_refl. reflexivity.
  - destruct (String.eqb k k0) eqn:E; [|apply IH; assumption].
    apply String.eqb_eq in E. subst k0. exfalso. apply NI. apply in_map_iff. exists (k, g). split; [reflexivity | exact Hin].
Qed.
Lemma node_get_some_in ns k g : node_get k ns = Some g -> In (k, g) ns.
Proof.
  induction ns as [|[k0 g0] r IH]; [discriminate|]. cbn [node_get]. destruct (String.eqb k k0) eqn:E.
  - apply String.eqb_eq in E. subst k0. intro H. injection H as ->. left. reflexivity.
  - intro H. right. apply IH. exact H.
Qed.

Lemma node_insert_keys k g ns : forall x, In x (map fst (node_insert k g ns)) <-> x = k \/ In x (map fst ns).
Proof.
  induction ns as [|[k0 g0] r IH]; intro x; cbn [node_insert map fst].
  - cbn [In]. split; [intros [<-|[]]; left; reflexivity | intros [->|[]]; left; reflexivity].
  - destruct (String.eqb k k0) eqn:E; cbn [map fst In].
    + apply String.eqb_eq in E. subst k0. split; [intros [<-|H]; [left; reflexivity | right; right; exact H] | intros [->|[<-|H]]; [left | left | right]; try reflexivity; exact H].
    + rewrite IH. split; [intros [<-|[->|H]]; [right; left | left | right; right]; try reflexivity; exact H
                         | intros [->|[<-|H]]; [right; left | left | right; right]; try reflexivity; exact H].
Qed.
Lemma node_insert_nodup k g ns : NoDup (map fst ns) -> NoDup (map fst (node_insert k g ns)).
Proof.
  induction ns as [|[k0 g0] r IH]; intro ND; cbn [node_insert map fst].
  - constructor; [intros [] | constructor].
  - cbn [map fst] in ND. apply NoDup_cons_iff in ND. destruct ND as [NI ND]. destruct (String.eqb k k0) eqn:E; cbn [map fst].
    + apply String.eqb_eq in E. subst k0. constructor; assumption.
    + constructor; [|apply IH; exact ND]. intro H. apply node_insert_keys in H. destruct H as [->|H]; [rewrite String.eqb_refl in E; discriminate | contradiction].
Qed.
Lemma filter_new_nodup origin files : NoDup (map fst (f_nodes (filter_new origin files))).
Proof.
  unfold filter_new. assert (NoDup (map fst (f_nodes (filter_init origin)))) as I by (cbn; constructor; [intros [] | constructor]).
  revert I. generalize (filter_init origin). induction files as [|x r IH]; intros f I; cbn [fold_left]; [exact I|].
  apply IH. unfold add_file. cbn [f_nodes]. apply node_insert_nodup. exact I.
Qed.

Lemma filter_all {A} (P : A -> bool) l : (forall a, In a l -> P a = true) -> filter P l = l.
Proof. induction l as [|x l IH]; intro H; cbn [filter]; [reflexivity|]. rewrite (H x (or_introl eq_refl)), IH; [reflexivity | intros a Ha; apply H; right; exact Ha]. Qed.
Lemma filter_none {A} (P : A -> bool) l : (forall a, In a l -> P a = false) -> filter P l = [].
Proof. induction l as [|x l IH]; intro H; cbn [filter]; [reflexivity|]. rewrite (H x (or_introl eq_refl)). apply IH. intros a Ha; apply H; right; exact Ha. Qed.

(* the chain is strictly decreasing in length: a length threshold at a member splits it there *)
Lemma chain_split n : forall p k, absolute p -> In k (ancestors_of n p) ->
  filter (fun a => Nat.leb (slen a) (slen k)) (ancestors_of n p) = k :: filter (fun a => Nat.ltb (slen a) (slen k)) (ancestors_of n p).
Proof.
  induction n as [|n IH]; intros p k Hp Hin; [contradiction|]. cbn [ancestors_of] in *.
  destruct Hin as [<-|Hin].
  - cbn [filter]. rewrite Nat.leb_refl, Nat.ltb_irrefl. f_equal.
    destruct (path_parent p) as [q|] eqn:Q; [|reflexivity]. apply filter_ext_in. intros a Ha.
    pose proof (chain_tail_shorter n p q a Hp Q Ha) as L.
    assert ((Nat.leb (slen a) (slen p)) = true) as -> by (apply Nat.leb_le; lia). symmetry. apply Nat.ltb_lt. exact L.
  - destruct (path_parent p) as [q|] eqn:Q; [|contradiction].
    pose proof (chain_tail_shorter n p q k Hp Q Hin) as L. cbn [filter].
    assert ((Nat.leb (slen p) (slen k)) = false) as -> by (apply Nat.leb_gt; exact L).
    assert ((Nat.ltb (slen p) (slen k)) = false) as -> by (apply Nat.ltb_ge; lia).
    apply IH; [apply (parent_absolute p q Hp Q) | exact Hin].
Qed.

Section Equiv.
  Variable gm : string -> string -> bool.
  Variable f : ifilter.
  Variable path : string.
  Variable is_dir : bool.
  Hypothesis Hp : absolute path.
  Hypothesis Hk : forall k g, In (k, g) (f_nodes f) -> absolute k.
  Hypothesis ND : NoDup (map fst (f_nodes f)).

  Let chain := ancestors_of (S (slen path)) path.
  Let walk := spec_walk gm f path is_dir.

  Lemma walk_filter_ext (P Q : string -> bool) l :
    (forall a, In a l -> node_get a (f_nodes f) <> None -> P a = Q a) -> walk (filter P l) = walk (filter Q l).
  Proof.
    induction l as [|a l IH]; intro H; [reflexivity|]. cbn [filter].
    assert (walk (filter P l) = walk (filter Q l)) as R by (apply IH; intros x Hx; apply H; right; exact Hx).
    destruct (node_get a (f_nodes f)) as [g|] eqn:G.
    - rewrite <- (H a (or_introl eq_refl)); [|rewrite G; discriminate]. destruct (P a); [|exact R].
      unfold walk in *. cbn [spec_walk]. rewrite G. rewrite R. reflexivity.
    - assert (forall l', walk (a :: l') = walk l') as Skip by (intro l'; unfold walk; cbn [spec_walk]; rewrite G; reflexivity).
      destruct (P a), (Q a); rewrite ?Skip; exact R.
  Qed.

  Lemma chain_member a : In a chain -> absolute a /\ is_under a path = true /\ prefixb a path = true /\ slen a <= slen path.
  Proof.
    intro H. destruct (chain_props _ path a Hp H) as (A & B & C). split; [exact A|]. split; [exact B|]. split; [apply is_under_prefix; exact B | exact C].
  Qed.

  (* a member of the chain strictly shorter than a byte prefix k of the path is no longer than k's parent *)
  Lemma member_below_parent a k : In a chain -> prefixb k path = true -> slen a < slen k ->
    exists q, path_parent k = Some q /\ slen a <= slen q.
  Proof.
    intros Ha Pk L. destruct (chain_member a Ha) as (A & U & _ & _).
    assert (is_under a k = true) as Uk by (apply (ancestor_of_longer_prefix a k path U Pk L); apply absolute_nonempty; exact A).
    apply proper_ancestor_parent; [exact Uk | intros ->; lia | apply absolute_nonempty; exact A].
  Qed.

  Lemma loop_is_walk : forall fuel s, slen s < fuel -> prefixb s path = true ->
    match_loop gm true fuel f path is_dir s = walk (filter (fun a => Nat.leb (slen a) (slen s)) chain).
  Proof.
    induction fuel as [|fuel IH]; intros s Lf Ps; [lia|]. cbn [match_loop].
    pose proof (lpk_spec (f_nodes f) s None I) as LS.
    destruct (longest_prefix_key (f_nodes f) s None) as [[k g]|].
    2:{ destruct LS as [_ NoKey]. symmetry.
        rewrite (walk_filter_ext (fun a => Nat.leb (slen a) (slen s)) (fun _ => false) chain); [rewrite filter_none; [reflexivity | reflexivity]|].
        intros a Ha Hn. apply Nat.leb_gt. destruct (le_lt_dec (slen a) (slen s)) as [Le|Gt]; [|exact Gt]. exfalso.
        destruct (chain_member a Ha) as (_ & _ & Pa & _).
        destruct (node_get a (f_nodes f)) as [ga|] eqn:G; [|contradiction].
        pose proof (prefix_of_prefix a s path Pa Ps Le) as X.
        rewrite (NoKey a ga (node_get_some_in _ _ _ G)) in X. discriminate. }
    destruct LS as (Pk & Max & _ & [Bad|Kin]); [discriminate|].
    assert (absolute k) as Ak by (eapply Hk; exact Kin).
    assert (prefixb k path = true) as Pkp by (eapply prefixb_trans; eassumption).
    pose proof (prefixb_len k s Pk) as Lks.
    (* node-bearing members within |s| are within |k| *)
    assert (forall a, In a chain -> node_get a (f_nodes f) <> None -> slen a <= slen s -> slen a <= slen k) as Within.
    { intros a Ha Hn Le. destruct (chain_member a Ha) as (_ & _ & Pa & _).
      destruct (node_get a (f_nodes f)) as [ga|] eqn:G; [|contradiction].
      apply (Max a ga (node_get_some_in _ _ _ G)). apply (prefix_of_prefix a s path Pa Ps Le). }
    (* what `next` is *)
    assert ((match path_parent k with Some q => match_loop gm true fuel f path is_dir q | None => MNone end)
            = walk (filter (fun a => Nat.ltb (slen a) (slen k)) chain)) as Next.
    { destruct (path_parent k) as [q|] eqn:Q.
      - destruct (parent_absolute k q Ak Q) as [_ Pqk]. pose proof (path_parent_shorter k q Q) as Sh.
        rewrite IH; [|lia | eapply prefixb_trans; eassumption]. f_equal. apply filter_ext_in. intros a Ha.
        destruct (Nat.ltb_spec (slen a) (slen k)) as [Lt|Ge].
        + destruct (member_below_parent a k Ha Pkp Lt) as (q' & Q' & Lq). rewrite Q in Q'. injection Q' as <-. apply Nat.leb_le. exact Lq.
        + apply Nat.leb_gt. lia.
      - symmetry. rewrite filter_none; [reflexivity|]. intros a Ha. apply Nat.ltb_ge.
        destruct (le_lt_dec (slen k) (slen a)) as [ok|Lt]; [exact ok|]. exfalso.
        destruct (member_below_parent a k Ha Pkp Lt) as (q' & Q' & _). rewrite Q in Q'. discriminate. }
    destruct (is_under k path) eqn:U; cbn [andb negb].
    - (* k is an ancestor directory of the path: it is the nearest node-bearing one *)
      assert (In k chain) as Kc by (apply chain_complete; [lia | exact Hp | exact Ak | exact U]).
      rewrite (walk_filter_ext (fun a => Nat.leb (slen a) (slen s)) (fun a => Nat.leb (slen a) (slen k)) chain).
      2:{ intros a Ha Hn. destruct (Nat.leb_spec (slen a) (slen s)) as [Le|Gt].
          - symmetry. apply Nat.leb_le. apply Within; assumption.
          - symmetry. apply Nat.leb_gt. lia. }
      unfold chain at 1. rewrite (chain_split _ path k Hp Kc). fold chain. unfold walk at 1. cbn [spec_walk].
      rewrite (node_get_in _ _ _ ND Kin). fold walk. rewrite Next. reflexivity.
    - (* a byte prefix that is not an ancestor: skipped; nothing node-bearing lies between its parent and s *)
      rewrite Next. apply walk_filter_ext. intros a Ha Hn.
      destruct (Nat.leb_spec (slen a) (slen s)) as [Le|Gt].
      + apply Nat.ltb_lt. pose proof (Within a Ha Hn Le) as Lk.
        destruct (Nat.eq_dec (slen a) (slen k)) as [E|NE]; [|lia]. exfalso.
        destruct (chain_member a Ha) as (_ & Ua & Pa & _).
        assert (a = k) as -> by (apply prefixb_same_len; [apply (prefix_of_prefix a k path Pa Pkp); lia | exact E]).
        rewrite U in Ua. discriminate.
      + apply Nat.ltb_ge. lia.
  Qed.

  Theorem match_path_is_spec : match_path gm true f path is_dir = spec_match gm f path is_dir.
  Proof.
    unfold match_path, spec_match. rewrite loop_is_walk; [|lia | apply prefixb_refl].
    fold chain. unfold walk. f_equal. apply filter_all. intros a Ha. apply Nat.leb_le. apply (chain_member a Ha).
  Qed.
End Equiv.

(* filters built by IgnoreFilter::new satisfy the hypotheses when origin and ignore-file directories are absolute *)
Lemma filter_new_keys origin files k g :
  (forall d l, In (Some d, l) files -> absolute d) ->
  In (k, g) (f_nodes (filter_new origin files)) -> absolute k.
Proof.
  intro Hd. unfold filter_new.
  assert (forall k g, In (k, g) (f_nodes (filter_init origin)) -> absolute k) as I
    by (intros k0 g0 [H|[]]; injection H as <- _; reflexivity).
  revert I. generalize (filter_init origin). revert Hd. induction files as [|[od l] r IH]; intros Hd f0 I; cbn [fold_left].
  - apply I.
  - apply IH; [intros d l' H; eapply Hd; right; exact H|]. intros k0 g0 Hin. unfold add_file in Hin. cbn [f_nodes fst snd] in Hin.
    assert (In k0 (map fst (node_insert (match od with Some d => d | None => "/" end)
                              (add_lines (match od with Some d => d | None => "/" end) l
                                 (match node_get (match od with Some d => d | None => "/" end) (f_nodes f0) with Some g1 => g1 | None => mkGi (match od with Some d => d | None => "/" end) [] end))
                              (f_nodes f0)))) as Hm by (apply in_map_iff; exists (k0, g0); split; [reflexivity | exact Hin]).
    apply node_insert_keys in Hm. destruct Hm as [->|Hm].
    + destruct od as [d|]; [eapply Hd; left; reflexivity | reflexivity].
    + apply in_map_iff in Hm. destruct Hm as ([k1 g1] & E & Hin1). cbn [fst] in E. subst k1. eapply I. exact Hin1.
Qed.

Theorem filter_new_match_is_spec gm origin files path is_dir :
  absolute path -> (forall d l, In (Some d, l) files -> absolute d) ->
  match_path gm true (filter_new origin files) path is_dir = spec_match gm (filter_new origin files) path is_dir.
Proof.
  intros Hp Hd. apply match_path_is_spec; [exact Hp | intros k g; apply filter_new_keys; exact Hd | apply filter_new_nodup].
Qed.
