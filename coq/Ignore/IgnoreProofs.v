From Coq Require Import List NArith String Ascii Bool Lia.
From WX Require Import Base.Bytes Glob.Glob Glob.Gitignore Glob.PathLemmas Ignore.IgnoreFilter.
Import ListNotations.
Open Scope string_scope.
Open Scope list_scope.

(* every member of the ancestor chain of p is p itself or a directory p lies under ("" is the parent
   of a bare relative name and is never a key) *)
Lemma ancestors_under n p d :
  In d (ancestors_of n p) -> d <> "" -> is_under d p = true.
Proof.
  revert p. induction n as [|n IH]; intros p Hin Hd; simpl in Hin; [contradiction|].
  destruct Hin as [<-|Hin]; [apply is_under_refl|].
  destruct (path_parent p) as [q|] eqn:E; [|contradiction].
  specialize (IH q Hin Hd).
  destruct (String.eqb_spec q "") as [->|Hq].
  - (* q = "": its chain is just [""] *)
    destruct n; simpl in Hin; [contradiction|]. destruct Hin as [<-|Hin]; [contradiction|].
    simpl in Hin. contradiction.
  - eapply is_under_trans; [exact Hd | exact IH | apply is_under_parent; assumption].
Qed.

Lemma node_get_insert_same k g ns : node_get k (node_insert k g ns) = Some g.
Proof.
  induction ns as [|[k' g'] r IH]; simpl; [rewrite String.eqb_refl; reflexivity|].
  destruct (String.eqb_spec k k') as [->|Hn]; simpl.
  - rewrite String.eqb_refl. reflexivity.
  - destruct (String.eqb_spec k k'); [contradiction | exact IH].
Qed.

Lemma node_get_insert_other k k2 g ns : k2 <> k -> node_get k2 (node_insert k g ns) = node_get k2 ns.
Proof.
  intro Hne. induction ns as [|[k' g'] r IH]; simpl.
  - destruct (String.eqb_spec k2 k); [contradiction | reflexivity].
  - destruct (String.eqb_spec k k') as [->|Hn]; simpl.
    + destruct (String.eqb_spec k2 k'); [contradiction | reflexivity].
    + destruct (String.eqb_spec k2 k'); [reflexivity | exact IH].
Qed.

Section Matcher.
  Variable gm : string -> string -> bool.

  (* the walk only ever looks at nodes keyed by a directory in the list *)
  Lemma spec_walk_ext f f' path is_dir dirs :
    f_origin f = f_origin f' ->
    (forall d, In d dirs -> node_get d (f_nodes f) = node_get d (f_nodes f')) ->
    spec_walk gm f path is_dir dirs = spec_walk gm f' path is_dir dirs.
  Proof.
    intros Ho. induction dirs as [|d r IH]; intro H; simpl; [reflexivity|].
    rewrite <- (H d (or_introl eq_refl)).
    assert (forall g, eval_node gm f g path is_dir = eval_node gm f' g path is_dir) as E
      by (intro g; unfold eval_node; rewrite Ho; reflexivity).
    destruct (node_get d (f_nodes f)) as [g|].
    - rewrite E. destruct (eval_node gm f' g path is_dir); try reflexivity.
      apply IH. intros d' Hd. apply H. right. exact Hd.
    - apply IH. intros d' Hd. apply H. right. exact Hd.
  Qed.

  (* C03 non-interference: replacing (adding, removing the patterns of) the node of a directory d
     that the path does not lie under never changes the verdict *)
  Theorem non_interference f d g path is_dir :
    d <> "" -> is_under d path = false ->
    spec_match gm (mkFilter (f_origin f) (node_insert d g (f_nodes f))) path is_dir = spec_match gm f path is_dir.
  Proof.
    intros Hd Hu. unfold spec_match. apply spec_walk_ext; [reflexivity|].
    intros x Hx. simpl. apply node_get_insert_other. intros ->.
    apply ancestors_under in Hx; [congruence | exact Hd].
  Qed.

  (* a whole ignore file added for directory d is such a replacement *)
  Corollary add_file_non_interference f d lines path is_dir :
    d <> "" -> is_under d path = false ->
    spec_match gm (add_file f (Some d, lines)) path is_dir = spec_match gm f path is_dir.
  Proof. intros Hd Hu. unfold add_file. simpl. apply non_interference; assumption. Qed.

  (* provenance: whatever decides comes from a pattern stored for an ancestor directory of the path *)
  Lemma last_match_from gs path is_dir acc g :
    (last_match gm gs path is_dir acc = MIgnore g \/ last_match gm gs path is_dir acc = MWhite g) ->
    In g gs \/ acc = MIgnore g \/ acc = MWhite g.
  Proof.
    revert acc. induction gs as [|x r IH]; intros acc H; simpl in *; [right; exact H|].
    apply IH in H. destruct H as [H|H]; [left; right; exact H|].
    destruct (gm (g_actual x) path && (negb (g_onlydir x) || is_dir)).
    - destruct (g_white x); destruct H as [H|H]; inversion H; subst; left; left; reflexivity.
    - right. exact H.
  Qed.

  Lemma matched_stripped_from gi p is_dir g :
    (matched_stripped gm gi p is_dir = MIgnore g \/ matched_stripped gm gi p is_dir = MWhite g) -> In g (gi_globs gi).
  Proof.
    intro H. unfold matched_stripped in H. apply last_match_from in H.
    destruct H as [H|[H|H]]; [exact H | discriminate | discriminate].
  Qed.

  Lemma parents_walk_from n gi p g :
    (parents_walk gm n gi p = MIgnore g \/ parents_walk gm n gi p = MWhite g) -> In g (gi_globs gi).
  Proof.
    revert p. induction n as [|n IH]; intros p H; simpl in H; [destruct H; discriminate|].
    destruct (path_parent p) as [q|]; [|destruct H; discriminate].
    destruct (matched_stripped gm gi q true) eqn:E.
    - apply (IH q). exact H.
    - apply (matched_stripped_from gi q true). rewrite E. destruct H as [H|H]; inversion H; subst; auto.
    - apply (matched_stripped_from gi q true). rewrite E. destruct H as [H|H]; inversion H; subst; auto.
  Qed.

  Lemma eval_node_from f gi path is_dir g :
    (eval_node gm f gi path is_dir = MIgnore g \/ eval_node gm f gi path is_dir = MWhite g) -> In g (gi_globs gi).
  Proof.
    unfold eval_node, matched_or_parents, matched. intro H.
    destruct (is_under (f_origin f) path); destruct (gi_globs gi) eqn:Eg; try (destruct H; discriminate).
    - rewrite <- Eg. destruct (matched_stripped gm gi (gi_strip (gi_root gi) path) is_dir) eqn:E.
      + eapply parents_walk_from. exact H.
      + apply (matched_stripped_from gi (gi_strip (gi_root gi) path) is_dir). rewrite E. destruct H as [H|H]; inversion H; subst; auto.
      + apply (matched_stripped_from gi (gi_strip (gi_root gi) path) is_dir). rewrite E. destruct H as [H|H]; inversion H; subst; auto.
    - rewrite <- Eg. eapply matched_stripped_from. exact H.
  Qed.

  Theorem decision_provenance f path is_dir g :
    (spec_match gm f path is_dir = MIgnore g \/ spec_match gm f path is_dir = MWhite g) ->
    exists d gi, (d <> "" -> is_under d path = true) /\ node_get d (f_nodes f) = Some gi /\ In g (gi_globs gi).
  Proof.
    unfold spec_match. generalize (S (String.length path)). intro n.
    assert (forall dirs, (forall d, In d dirs -> In d (ancestors_of n path)) ->
              (spec_walk gm f path is_dir dirs = MIgnore g \/ spec_walk gm f path is_dir dirs = MWhite g) ->
              exists d gi, In d (ancestors_of n path) /\ node_get d (f_nodes f) = Some gi /\ In g (gi_globs gi)) as W.
    { induction dirs as [|d r IH]; intros Hsub H; simpl in H; [destruct H; discriminate|].
      destruct (node_get d (f_nodes f)) as [gi|] eqn:E.
      - destruct (eval_node gm f gi path is_dir) eqn:Ev.
        + apply IH; [intros x Hx; apply Hsub; right; exact Hx | exact H].
        + exists d, gi. split; [apply Hsub; left; reflexivity|]. split; [exact E|].
          apply (eval_node_from f gi path is_dir). rewrite Ev. destruct H as [H|H]; inversion H; subst; auto.
        + exists d, gi. split; [apply Hsub; left; reflexivity|]. split; [exact E|].
          apply (eval_node_from f gi path is_dir). rewrite Ev. destruct H as [H|H]; inversion H; subst; auto.
      - apply IH; [intros x Hx; apply Hsub; right; exact Hx | exact H]. }
    intro H. destruct (W (ancestors_of n path) (fun d Hd => Hd) H) as (d & gi & Hin & Hg & Hgl).
    exists d, gi. split; [|split; assumption].
    intro Hd. eapply ancestors_under; eassumption.
  Qed.

  (* ---- construction: a node's patterns are exactly the lines of the files given for its directory,
          in their listed order; files for other directories are irrelevant ---- *)
  Definition file_key (file : ifile) : string := match fst file with Some d => d | None => "/" end.

  Definition compile_lines (from : string) (lines : list string) : list gglob :=
    flat_map (fun l => if keep_line l then match add_line (Some from) l with Some x => [x] | None => [] end else []) lines.

  Definition globs_for (k : string) (files : list ifile) : list gglob :=
    flat_map (fun file => if String.eqb (file_key file) k then compile_lines k (snd file) else []) files.

  Definition node_globs (f : ifilter) (k : string) : list gglob :=
    match node_get k (f_nodes f) with Some g => gi_globs g | None => [] end.
  Definition node_root (f : ifilter) (k : string) : string :=
    match node_get k (f_nodes f) with Some g => gi_root g | None => k end.

  Lemma add_file_node_globs f file k :
    node_globs (add_file f file) k =
    node_globs f k ++ (if String.eqb (file_key file) k then compile_lines k (snd file) else []).
  Proof.
    unfold add_file, node_globs. fold (file_key file). simpl f_nodes.
    destruct (String.eqb_spec (file_key file) k) as [<-|Hn].
    - rewrite node_get_insert_same. simpl. unfold compile_lines.
      destruct (node_get (file_key file) (f_nodes f)); reflexivity.
    - rewrite node_get_insert_other by congruence. rewrite app_nil_r. reflexivity.
  Qed.

  Lemma add_file_node_root f file k : node_root (add_file f file) k = node_root f k.
  Proof.
    unfold add_file, node_root. fold (file_key file). simpl f_nodes.
    destruct (String.eqb_spec (file_key file) k) as [<-|Hn].
    - rewrite node_get_insert_same. simpl. destruct (node_get (file_key file) (f_nodes f)); reflexivity.
    - rewrite node_get_insert_other by congruence. reflexivity.
  Qed.

  Lemma fold_add_file_globs files f k :
    node_globs (fold_left add_file files f) k = node_globs f k ++ globs_for k files.
  Proof.
    revert f. induction files as [|file r IH]; intro f; simpl; [rewrite app_nil_r; reflexivity|].
    rewrite IH, add_file_node_globs. unfold globs_for. simpl. rewrite app_assoc. reflexivity.
  Qed.

  Lemma fold_add_file_root files f k : node_root (fold_left add_file files f) k = node_root f k.
  Proof. revert f. induction files as [|file r IH]; intro f; simpl; [reflexivity|]. rewrite IH. apply add_file_node_root. Qed.

  Lemma fold_add_file_origin files f : f_origin (fold_left add_file files f) = f_origin f.
  Proof. revert f. induction files as [|file r IH]; intro f; simpl; [reflexivity|]. rewrite IH. reflexivity. Qed.

  (* the verdict depends on a filter only through origin, and root + pattern list of each node;
     an absent node and a node without patterns are indistinguishable *)
  Lemma eval_node_empty f k path is_dir : eval_node gm f (mkGi k []) path is_dir = MNone.
  Proof. unfold eval_node, matched_or_parents, matched. simpl. destruct (is_under _ _); reflexivity. Qed.

  Lemma spec_walk_same_nodes f f' path is_dir dirs :
    f_origin f = f_origin f' ->
    (forall d, node_globs f d = node_globs f' d) -> (forall d, node_root f d = node_root f' d) ->
    spec_walk gm f path is_dir dirs = spec_walk gm f' path is_dir dirs.
  Proof.
    intros Ho Hg Hr. induction dirs as [|d r IH]; simpl; [reflexivity|].
    specialize (Hg d). specialize (Hr d). unfold node_globs, node_root in Hg, Hr.
    assert (forall g, eval_node gm f g path is_dir = eval_node gm f' g path is_dir) as E
      by (intro g; unfold eval_node; rewrite Ho; reflexivity).
    assert (forall r0 f0, eval_node gm f0 (mkGi r0 []) path is_dir = MNone) as Z
      by (intros; unfold eval_node, matched_or_parents, matched; simpl; destruct (is_under _ _); reflexivity).
    destruct (node_get d (f_nodes f)) as [[r1 g1]|], (node_get d (f_nodes f')) as [[r2 g2]|]; simpl in *; subst.
    - rewrite E. destruct (eval_node gm f' _ path is_dir); try reflexivity. exact IH.
    - rewrite Z. exact IH.
    - rewrite Z. exact IH.
    - exact IH.
  Qed.

  (* C03 order invariance: two listings whose per-directory subsequences coincide give the same
     verdict for every path (files applying in the same directory keep their order = precedence) *)
  Theorem order_invariant origin files files' path is_dir :
    (forall k, globs_for k files = globs_for k files') ->
    spec_match gm (filter_new origin files) path is_dir = spec_match gm (filter_new origin files') path is_dir.
  Proof.
    intro H. unfold spec_match, filter_new. apply spec_walk_same_nodes.
    - rewrite !fold_add_file_origin. reflexivity.
    - intro d. rewrite !fold_add_file_globs, H. reflexivity.
    - intro d. rewrite !fold_add_file_root. reflexivity.
  Qed.

  Lemma globs_for_filter k files :
    globs_for k files = globs_for k (filter (fun file => String.eqb (file_key file) k) files).
  Proof.
    unfold globs_for. induction files as [|file r IH]; simpl; [reflexivity|].
    destruct (String.eqb (file_key file) k) eqn:E; simpl; [rewrite E, IH | rewrite IH]; reflexivity.
  Qed.

  Corollary order_invariant_subsequences origin files files' path is_dir :
    (forall k, filter (fun file => String.eqb (file_key file) k) files =
               filter (fun file => String.eqb (file_key file) k) files') ->
    spec_match gm (filter_new origin files) path is_dir = spec_match gm (filter_new origin files') path is_dir.
  Proof.
    intro H. apply order_invariant. intro k. rewrite (globs_for_filter k files), (globs_for_filter k files'), H. reflexivity.
  Qed.

  (* adding files one by one is the same as constructing with the whole list *)
  Theorem add_file_equiv origin files file :
    add_file (filter_new origin files) file = filter_new origin (files ++ [file]).
  Proof. unfold filter_new. rewrite fold_left_app. reflexivity. Qed.

  (* nearest first: the walk returns the first non-None evaluation in chain order *)
  Theorem nearest_wins f path is_dir d rest gi m :
    node_get d (f_nodes f) = Some gi -> eval_node gm f gi path is_dir = m -> m <> MNone ->
    spec_walk gm f path is_dir (d :: rest) = m.
  Proof. intros Hg He Hm. simpl. rewrite Hg, He. destruct m; [contradiction | reflexivity | reflexivity]. Qed.

  Theorem farther_only_if_nearer_silent f path is_dir d rest :
    (node_get d (f_nodes f) = None \/ exists gi, node_get d (f_nodes f) = Some gi /\ eval_node gm f gi path is_dir = MNone) ->
    spec_walk gm f path is_dir (d :: rest) = spec_walk gm f path is_dir rest.
  Proof. intros [H|(gi & H & E)]; simpl; rewrite H; [reflexivity | rewrite E; reflexivity]. Qed.

  (* within one directory the last matching line decides *)
  Theorem last_line_wins gs g path is_dir acc :
    gm (g_actual g) path && (negb (g_onlydir g) || is_dir) = true ->
    last_match gm (gs ++ [g]) path is_dir acc = (if g_white g then MWhite g else MIgnore g).
  Proof.
    revert acc. induction gs as [|x r IH]; intros acc H; simpl; [rewrite H; reflexivity | apply IH; exact H].
  Qed.
End Matcher.

(* the defect that was repaired: with the original string-prefix lookup (guard = false) the ignore file
   of /p/test decides for /p/tests/x.log *)
Lemma string_prefix_lookup_refuted :
  let f := filter_new "/p" [(Some "/p", ["*.log"]); (Some "/p/test", ["!*.log"])] in
  match_path gm_glob false f "/p/tests/x.log" false <> spec_match gm_glob f "/p/tests/x.log" false /\
  match_path gm_glob true f "/p/tests/x.log" false = spec_match gm_glob f "/p/tests/x.log" false /\
  is_under "/p/test" "/p/tests/x.log" = false.
Proof. vm_compute. repeat split; try reflexivity. discriminate. Qed.
