(* Model of ignore-files/src/filter.rs (IgnoreFilter) and filterer/ignore/src/lib.rs (IgnoreFilterer).
   The trie is an association list from key strings (display() of the directory) to compiled
   gitignore sets; get_ancestor = longest key that is a byte-prefix of the query. *)
From Coq Require Import List NArith String Ascii Bool.
From WX Require Import Base.Bytes Glob.Glob Glob.Gitignore.
Import ListNotations.
Open Scope string_scope.

Definition nodes := list (string * gitignore).

Record ifilter : Type := mkFilter { f_origin : string; f_nodes : nodes }.

Fixpoint node_get (k : string) (ns : nodes) : option gitignore :=
  match ns with
  | [] => None
  | (k', g) :: r => if String.eqb k k' then Some g else node_get k r
  end.

Fixpoint node_insert (k : string) (g : gitignore) (ns : nodes) : nodes :=
  match ns with
  | [] => [(k, g)]
  | (k', g') :: r => if String.eqb k k' then (k, g) :: r else (k', g') :: node_insert k g r
  end.

(* radix_trie get_ancestor on String keys: the longest stored key that is a byte prefix of s *)
Fixpoint longest_prefix_key (ns : nodes) (s : string) (best : option (string * gitignore)) :=
  match ns with
  | [] => best
  | (k, g) :: r =>
      let best' := if prefixb k s
                   then match best with
                        | Some (bk, _) => if Nat.ltb (String.length bk) (String.length k) then Some (k, g) else best
                        | None => Some (k, g)
                        end
                   else best in
      longest_prefix_key r s best'
  end.

(* an ignore file as the filter sees it: where it applies (None = global) and its lines *)
Definition ifile := (option string * list string)%type.

Definition keep_line (l : string) : bool := negb (orb (String.eqb l "") (prefixb "#" l)).

Definition add_lines (from : string) (lines : list string) (g : gitignore) : gitignore :=
  mkGi (gi_root g)
       (gi_globs g ++ flat_map (fun l => if keep_line l then
                                           match add_line (Some from) l with Some x => [x] | None => [] end
                                         else []) lines).

(* one iteration of the loop in IgnoreFilter::new = add_file = add_globs *)
Definition add_file (f : ifilter) (file : ifile) : ifilter :=
  let key := match fst file with Some d => d | None => "/" end in
  let builder := match node_get key (f_nodes f) with
                 | Some g => g
                 | None => mkGi key []
                 end in
  mkFilter (f_origin f) (node_insert key (add_lines key (snd file) builder) (f_nodes f)).

(* IgnoreFilter::new: the root node is keyed "/" but its gitignore root is the origin *)
Definition filter_init (origin : string) : ifilter := mkFilter origin [("/", mkGi origin [])].
Definition filter_new (origin : string) (files : list ifile) : ifilter :=
  fold_left add_file files (filter_init origin).
(* IgnoreFilter::empty keys its first node by the origin itself *)
Definition filter_empty (origin : string) : ifilter := mkFilter origin [(origin, mkGi origin [])].

Section Matcher.
  Variable gm : string -> string -> bool.

  Definition eval_node (f : ifilter) (g : gitignore) (path : string) (is_dir : bool) : gmatch :=
    if is_under (f_origin f) path then matched_or_parents gm g path is_dir else matched gm g path is_dir.

  (* match_path.  guard = true is the code after the fix (a node whose key is a byte prefix but not an
     ancestor directory of the path is skipped); guard = false is the code as originally pinned. *)
  Fixpoint match_loop (guard : bool) (fuel : nat) (f : ifilter) (path : string) (is_dir : bool)
           (search : string) : gmatch :=
    match fuel with
    | O => MNone
    | S fuel' =>
        match longest_prefix_key (f_nodes f) search None with
        | None => MNone
        | Some (k, g) =>
            let next := match path_parent k with
                        | Some p => match_loop guard fuel' f path is_dir p
                        | None => MNone
                        end in
            if andb guard (negb (is_under k path)) then next
            else match eval_node f g path is_dir with
                 | MNone => next
                 | m => m
                 end
        end
    end.

  Definition match_path (guard : bool) (f : ifilter) (path : string) (is_dir : bool) : gmatch :=
    match_loop guard (S (String.length path)) f path is_dir path.

  (* ---- git-style reference: the ancestor directories of the path, nearest first ---- *)
  Fixpoint ancestors_of (fuel : nat) (p : string) : list string :=
    match fuel with
    | O => []
    | S f => p :: match path_parent p with Some q => ancestors_of f q | None => [] end
    end.

  Fixpoint spec_walk (f : ifilter) (path : string) (is_dir : bool) (dirs : list string) : gmatch :=
    match dirs with
    | [] => MNone
    | d :: r =>
        match node_get d (f_nodes f) with
        | None => spec_walk f path is_dir r
        | Some g => match eval_node f g path is_dir with
                    | MNone => spec_walk f path is_dir r
                    | m => m
                    end
        end
    end.

  Definition spec_match (f : ifilter) (path : string) (is_dir : bool) : gmatch :=
    spec_walk f path is_dir (ancestors_of (S (String.length path)) path).

  (* glob.from() scope re-check, used by check_dir and by IgnoreFilterer *)
  Definition in_scope (g : gglob) (path : string) : bool :=
    match g_from g with None => true | Some d => is_under d path end.

  Definition check_dir (guard : bool) (f : ifilter) (path : string) : bool :=
    match match_path guard f path true with
    | MNone => true
    | MIgnore g => negb (in_scope g path)
    | MWhite _ => true
    end.

  (* IgnoreFilterer::check_event over the (path, is_dir) pairs of an event *)
  Fixpoint check_paths (guard : bool) (f : ifilter) (ps : list (string * bool)) (pass : bool) : bool :=
    match ps with
    | [] => pass
    | (p, d) :: r =>
        let pass' := match match_path guard f p d with
                     | MNone => pass
                     | MIgnore g => if in_scope g p then false else pass
                     | MWhite _ => true
                     end in
        check_paths guard f r pass'
    end.
  Definition check_event (guard : bool) (f : ifilter) (ps : list (string * bool)) : bool :=
    check_paths guard f ps true.
End Matcher.

Definition show_gmatch (m : gmatch) : string :=
  match m with
  | MNone => "none"
  | MIgnore g => "ignore:" ++ g_original g
  | MWhite g => "white:" ++ g_original g
  end.
