(* The verdict of a filter built from a list of ignore files depends, for a given path, only on the files whose key (the directory
   they apply in, "/" for global ones) is an ancestor directory of the path -- each key's files in their relative order. *)
From Coq Require Import List String Bool Arith Lia.
From WX Require Import Base.Bytes Glob.Glob Glob.Gitignore Ignore.IgnoreFilter Ignore.IgnoreProofs Ignore.IgnoreEquiv.
Import ListNotations.
Open Scope string_scope.
Open Scope list_scope.

Lemma spec_walk_same_nodes_on gm f f' path is_dir dirs :
  f_origin f = f_origin f' ->
  (forall d, In d dirs -> node_globs f d = node_globs f' d) -> (forall d, In d dirs -> node_root f d = node_root f' d) ->
  spec_walk gm f path is_dir dirs = spec_walk gm f' path is_dir dirs.
Proof.
  intros Ho. induction dirs as [|d r IH]; intros Hg Hr; cbn [spec_walk]; [reflexivity|].
  pose proof (Hg d (or_introl eq_refl)) as Gd. pose proof (Hr d (or_introl eq_refl)) as Rd.
  assert (spec_walk gm f path is_dir r = spec_walk gm f' path is_dir r) as IH'
    by (apply IH; intros d0 H0; [apply Hg | apply Hr]; right; exact H0).
  unfold node_globs, node_root in Gd, Rd.
  assert (forall g, eval_node gm f g path is_dir = eval_node gm f' g path is_dir) as E
    by (intro g; unfold eval_node; rewrite Ho; reflexivity).
  assert (forall r0 f0, eval_node gm f0 (mkGi r0 []) path is_dir = MNone) as Z
    by (intros; unfold eval_node, matched_or_parents, matched; simpl; destruct (is_under _ _); reflexivity).
  destruct (node_get d (f_nodes f)) as [[r1 g1]|], (node_get d (f_nodes f')) as [[r2 g2]|]; simpl in *; subst.
  - rewrite E. destruct (eval_node gm f' _ path is_dir); try reflexivity. exact IH'.
  - rewrite Z. exact IH'.
  - rewrite Z. exact IH'.
  - exact IH'.
Qed.

Theorem spec_match_keys gm origin files files' path is_dir :
  (forall k, In k (ancestors_of (S (String.length path)) path) -> globs_for k files = globs_for k files') ->
  spec_match gm (filter_new origin files) path is_dir = spec_match gm (filter_new origin files') path is_dir.
Proof.
  intro H. unfold spec_match, filter_new. apply spec_walk_same_nodes_on.
  - rewrite !fold_add_file_origin. reflexivity.
  - intros d Hd. rewrite !fold_add_file_globs, (H d Hd). reflexivity.
  - intros d _. rewrite !fold_add_file_root. reflexivity.
Qed.

Theorem check_dir_keys gm origin files files' path :
  absolute path ->
  (forall d l, In (Some d, l) files -> absolute d) -> (forall d l, In (Some d, l) files' -> absolute d) ->
  (forall k, In k (ancestors_of (S (String.length path)) path) -> globs_for k files = globs_for k files') ->
  check_dir gm true (filter_new origin files) path = check_dir gm true (filter_new origin files') path.
Proof.
  intros Ap A1 A2 H. unfold check_dir.
  rewrite (filter_new_match_is_spec gm origin files path true Ap A1), (filter_new_match_is_spec gm origin files' path true Ap A2).
  rewrite (spec_match_keys gm origin files files' path true H). reflexivity.
Qed.

Lemma globs_for_app k a b : globs_for k (a ++ b) = globs_for k a ++ globs_for k b.
Proof. unfold globs_for. apply flat_map_app. Qed.

(* only the files with that key count *)
Lemma globs_for_none k files : (forall file, In file files -> file_key file <> k) -> globs_for k files = [].
Proof.
  intro H. unfold globs_for. induction files as [|file r IH]; cbn [flat_map]; [reflexivity|].
  assert (String.eqb (file_key file) k = false) as -> by (apply String.eqb_neq; apply H; left; reflexivity).
  cbn [app]. apply IH. intros f0 H0. apply H. right. exact H0.
Qed.
