(* C14 -- ignore-file discovery finds exactly the applicable files and prunes ignored dirs.
   Proved for the stack-machine model: the exact shape / tagging of every returned file, the find_file rule and the explicit-watch
   relation; pruning is permanent (once a directory has been skipped nothing from it or below it is returned afterwards);
   completeness (every directory reachable from the origin through directories is visited -- each of its existing non-empty
   .ignore / .gitignore / .hgignore files is returned -- or lies in or below a pruned directory, and a directory is pruned only
   because it is a VCS metadata directory, unrelated to the explicit watches, or ignored by the filter the walk had built by
   then); termination within the fuel from_origin provides; all for every file system listing with absolute, distinct paths.
   EXACTNESS and ORDER INDEPENDENCE (repaired code): the result is exactly the explicit / origin-level files plus the ignore files of
   every OPEN reachable directory (it and every directory above it is related to the watches, is no VCS metadata directory and,
   unless it is the origin, is not ignored by the filter made of the base files and the ignore files of the directories above
   it); hence any two listings of the same file system give the same set of files.
   Proofs: Discover/DiscoverProofs.v, Discover/DiscoverPrune.v, Discover/DiscoverComplete.v *)
From Coq Require Import List NArith String Ascii Bool Permutation.
From WX Require Import Base.Bytes Glob.Glob Glob.Gitignore Ignore.IgnoreFilter Gen.Origins_gen Discover.Discover Discover.DiscoverProofs Discover.DiscoverPrune Discover.DiscoverComplete Ignore.IgnoreEquiv.
Import ListNotations.
Open Scope string_scope.
Open Scope list_scope.

Theorem C14_discovered_files_exact_partial : forall gm content hard defer orig fs origin watches explicit excludes f,
  In f (from_origin gm content hard defer orig fs origin watches explicit excludes) ->
  (exists p, In p explicit /\ f = mkDf p (Some origin) None) \/
  (exists e, excludes = Some e /\ find_file fs e = true /\ f = mkDf e None (Some PT_Git)) \/
  (exists name t, In (name, t) origin_files /\ find_file fs (join origin name) = true /\
                  f = mkDf (join origin name) (Some origin) (Some t)) \/
  (exists d name to, In (name, to) dir_files /\ f = mkDf (join d name) (Some d) to /\
                     find_file fs (join d name) = true /\ watch_related watches d = true).
Proof. exact discovered_files_exact. Qed.
Print Assumptions C14_discovered_files_exact_partial.

Theorem C14_find_file : forall fs p, find_file fs p = true <-> fs_get fs p = Some (KFile true).
Proof. exact find_file_spec. Qed.
Print Assumptions C14_find_file.

Theorem C14_skip_purges : forall t p q, In q (t_visit (do_skip t p)) -> is_under p q = false.
Proof. exact do_skip_purges. Qed.
Print Assumptions C14_skip_purges.

Theorem C14_skip_records : forall t p, In p (t_skip (do_skip t p)).
Proof. exact do_skip_records. Qed.
Print Assumptions C14_skip_records.

Example C14_example :
  let fs := [("/o", KDir); ("/o/.gitignore", KFile true); ("/o/tests", KDir); ("/o/test", KDir);
             ("/o/test/.ignore", KFile true); ("/o/tests/.gitignore", KFile true); ("/o/test/sub", KDir);
             ("/o/test/sub/.hgignore", KFile false); ("/o/.git", KDir); ("/o/.git/.gitignore", KFile true);
             ("/o/tests/.git", KDir); ("/o/tests/.git/.gitignore", KFile true)] in
  let content := fun p : string => if String.eqb p "/o/.gitignore" then ["test/"] else ["x"] in
  map show_dfile (from_origin gm_glob content true true true fs "/o" [] [] None)
  = ["/o/.gitignore|/o|Git"; "/o/tests/.gitignore|/o/tests|Git"].
Proof. vm_compute. reflexivity. Qed.

(* pruning is permanent: from any state of the walk, nothing is returned later from a skipped directory or below it *)
Theorem C14_pruned_stays_out : forall gm content hard defer orig fs base watches,
  (forall e, In e fs -> absolute (fst e)) ->
  forall n t, PInv t ->
  forall f, In f (t_files (run gm content hard defer orig n fs base watches t)) ->
  In f (t_files t) \/ exists d, d_in f = Some d /\ forall p, In p (t_skip t) -> is_under p d = false.
Proof. exact pruned_stays_out. Qed.
Print Assumptions C14_pruned_stays_out.

(* ... and every state the walk of from_origin reaches is such a state *)
Theorem C14_walk_states_have_the_invariant : forall gm content hard defer orig fs base watches,
  (forall e, In e fs -> absolute (fst e)) -> absolute base ->
  forall n filt files, PInv (run gm content hard defer orig n fs base watches (mkT [base] [] filt files)).
Proof. intros gm content hard defer orig fs base watches Hfs Hb n filt files. apply run_pinv; [exact Hfs | apply init_pinv; exact Hb]. Qed.
Print Assumptions C14_walk_states_have_the_invariant.

(* VCS metadata directories (repaired code): the walk never puts one on its stack, so no returned file lives in one, whatever
   the ignore files say -- in particular whatever negated patterns on parent directories say *)
Theorem C14_vcs_dirs_never_entered : forall gm content defer orig fs base watches n t,
  NV base t ->
  forall f, In f (t_files (run gm content true defer orig n fs base watches t)) ->
  In f (t_files t) \/ exists d, d_in f = Some d /\ (d = base \/ vcs_dir d = false).
Proof. exact vcs_dirs_never_entered. Qed.
Print Assumptions C14_vcs_dirs_never_entered.

(* as pinned, a negated pattern on a parent directory re-included the VCS directory *)
Theorem C14_vcs_dir_entered_refuted :
  map show_dfile (from_origin gm_glob wcontent false false false wfs "/o" [] [] None) = ["/o/test2/.gitignore|/o/test2|Git"; "/o/test2/test/.hg/.ignore|/o/test2/test/.hg|-"] /\
  map show_dfile (from_origin gm_glob wcontent true false false wfs "/o" [] [] None) = ["/o/test2/.gitignore|/o/test2|Git"].
Proof. exact vcs_dir_entered_refuted. Qed.
Print Assumptions C14_vcs_dir_entered_refuted.

(* completeness (repaired code): every directory that can be reached from the origin through directories is visited -- all of its
   ignore files that exist and are non-empty are returned, tagged with it -- or it lies in or below a directory the walk pruned,
   and that directory is a VCS metadata directory, unrelated to the explicit watches, or was ignored, when it was about to be
   visited, by the filter of a state of the walk in which every directory above it had been visited (so that filter held every
   ignore file above it: C14_walk_filter_is_the_discovered_files) *)
Theorem C14_every_reachable_directory_visited_or_pruned : forall gm content fs origin watches explicit excludes,
  (forall e, In e fs -> absolute (fst e)) -> absolute origin -> NoDup (map fst fs) ->
  forall d, rdir fs origin d ->
    (forall nt, In nt dir_files -> find_file fs (join d (fst nt)) = true ->
       In (mkDf (join d (fst nt)) (Some d) (snd nt)) (from_origin gm content true true true fs origin watches explicit excludes)) \/
    (exists p, is_under p d = true /\
       (vcs_dir p = true \/ watch_related watches p = false \/
        exists t0, reach gm content true true true fs origin watches (fo_init content fs origin explicit excludes) t0 /\
                   In p (t_visit t0) /\ check_dir gm true (t_filter t0) p = false /\ p <> origin /\
                   forall a, rdir fs origin a -> is_under a p = true -> a <> p -> Done fs t0 a)).
Proof. exact from_origin_complete_repaired. Qed.
Print Assumptions C14_every_reachable_directory_visited_or_pruned.

(* the filter of every state of the walk is the initial filter plus the ignore files discovered so far, in order *)
Theorem C14_walk_filter_is_the_discovered_files : forall gm content hard defer orig fs base watches init t,
  reach gm content hard defer orig fs base watches init t ->
  exists l, t_files t = t_files init ++ l /\ t_filter t = fold_left add_file (map (as_ifile content) l) (t_filter init).
Proof. exact reach_filter. Qed.
Print Assumptions C14_walk_filter_is_the_discovered_files.

(* as pinned, a negated pattern in the ignore file next to a directory could not re-include it *)
Theorem C14_negated_child_missed_refuted :
  map show_dfile (from_origin gm_glob ncontent true false false nfs "/o" [] [] None) = ["/o/.gitignore|/o|Git"; "/o/sub/.gitignore|/o/sub|Git"] /\
  map show_dfile (from_origin gm_glob ncontent true true false nfs "/o" [] [] None)
  = ["/o/.gitignore|/o|Git"; "/o/sub/.gitignore|/o/sub|Git"; "/o/sub/c/.gitignore|/o/sub/c|Git"] /\
  check_dir gm_glob true (filter_new "/o" (map (as_ifile ncontent) [mkDf "/o/.gitignore" (Some "/o") (Some PT_Git); mkDf "/o/sub/.gitignore" (Some "/o/sub") (Some PT_Git)])) "/o/sub/c" = true.
Proof. exact negated_child_missed_refuted. Qed.
Print Assumptions C14_negated_child_missed_refuted.

(* the walk's stack has run empty when from_origin stops it *)
Theorem C14_walk_terminates : forall gm content hard defer orig fs origin watches explicit excludes,
  (forall e, In e fs -> absolute (fst e)) -> absolute origin -> NoDup (map fst fs) ->
  t_visit (run gm content hard defer orig (S (List.length fs)) fs origin watches (fo_init content fs origin explicit excludes)) = [] /\
  from_origin gm content hard defer orig fs origin watches explicit excludes
  = t_files (run gm content hard defer orig (S (List.length fs)) fs origin watches (fo_init content fs origin explicit excludes)).
Proof. intros gm content hard defer orig fs origin watches explicit excludes H1 H2 H3. split; [apply from_origin_walk_ends; assumption | apply from_origin_walk]. Qed.
Print Assumptions C14_walk_terminates.

Example C14_completeness_hypotheses_met :
  (forall e, In e ex_fs -> absolute (fst e)) /\ NoDup (map fst ex_fs) /\ rdir ex_fs "/o" "/o/tests" /\ rdir ex_fs "/o" "/o/test/sub".
Proof. exact ex_fs_wellformed. Qed.

(* as pinned, a lone `*` in an origin-level ignore file pruned the origin itself *)
Theorem C14_origin_pruned_refuted :
  map show_dfile (from_origin gm_glob ocontent true true false ofs "/o" [] [] None) = ["/o/.git/info/exclude|/o|Git"] /\
  map show_dfile (from_origin gm_glob ocontent true true true ofs "/o" [] [] None)
  = ["/o/.git/info/exclude|/o|Git"; "/o/.gitignore|/o|Git"; "/o/src/.ignore|/o/src|-"].
Proof. exact origin_pruned_refuted. Qed.
Print Assumptions C14_origin_pruned_refuted.

(* exactness: what from_origin returns, as a set, in terms that do not mention the walk *)
Theorem C14_result_exact : forall gm content fs origin watches explicit excludes,
  (forall e, In e fs -> absolute (fst e)) -> absolute origin -> NoDup (map fst fs) -> fs_get fs origin = Some KDir ->
  forall f, In f (from_origin gm content true true true fs origin watches explicit excludes) <->
            In f (fo_files fs origin explicit excludes) \/
            exists d, rdir fs origin d /\ Open gm content fs origin watches (fo_base content fs origin explicit excludes) d /\ In f (dirfiles fs d).
Proof. exact from_origin_exact. Qed.
Print Assumptions C14_result_exact.

(* the result does not depend on the directory listing order *)
Theorem C14_listing_order_independent : forall gm content fs fs' origin watches explicit excludes,
  (forall e, In e fs -> absolute (fst e)) -> NoDup (map fst fs) -> absolute origin -> fs_get fs origin = Some KDir ->
  Permutation fs fs' ->
  forall f, In f (from_origin gm content true true true fs origin watches explicit excludes) <->
            In f (from_origin gm content true true true fs' origin watches explicit excludes).
Proof. exact from_origin_permutation. Qed.
Print Assumptions C14_listing_order_independent.

(* Open is decidable data, not a hidden universal: on the example tree /o/tests is open, /o/test (ignored by /o/.gitignore) and
   everything below it is not *)
Example C14_open_example :
  let content := fun p : string => if String.eqb p "/o/.gitignore" then ["test/"] else ["x"] in
  let Bf := fo_base content ex_fs "/o" [] None in
  forallb (pass gm_glob content ex_fs "/o" [] Bf) ("/o/tests" :: anc "/o" "/o/tests") = true /\
  forallb (pass gm_glob content ex_fs "/o" [] Bf) ("/o/test/sub" :: anc "/o" "/o/test/sub") = false.
Proof. vm_compute. split; reflexivity. Qed.
