(* C14 -- ignore-file discovery finds exactly the applicable files and prunes ignored dirs.
   PARTIAL: proved for the stack-machine model are the exact shape / tagging of every returned file, the
   find_file rule and the explicit-watch relation, and pruning: once a directory has been skipped nothing from it or
   from anywhere below it is returned afterwards, for every file system with absolute paths and every state the walk
   reaches.  Completeness (every non-pruned directory is visited) and the independence from the listing order are checked by
   the correspondence run (two listing orders + the real crate), see DESIGN.md.
   Proofs: Discover/DiscoverProofs.v, Discover/DiscoverPrune.v *)
From Coq Require Import List NArith String Ascii Bool.
From WX Require Import Base.Bytes Glob.Glob Glob.Gitignore Ignore.IgnoreFilter Gen.Origins_gen Discover.Discover Discover.DiscoverProofs Discover.DiscoverPrune Ignore.IgnoreEquiv.
Import ListNotations.
Open Scope string_scope.
Open Scope list_scope.

Theorem C14_discovered_files_exact_partial : forall gm content hard fs origin watches explicit excludes f,
  In f (from_origin gm content hard fs origin watches explicit excludes) ->
  (exists p, In p explicit /\ f = mkDf p (Some origin) None) \/
  (exists e, excludes = Some e /\ find_file fs e = true /\ f = mkDf e None (Some PT_Git)) \/
  (exists name t, In (name, t) origin_files /\ find_file fs (join origin name) = true /\
                  f = mkDf (join origin name) (Some origin) (Some t)) \/
  (exists d name to, In (name, to) dir_files /\ f = mkDf (join d name) (Some d) to /\
                     find_file fs (join d name) = true /\ watch_related watches d = true).
Proof. exact discovered_files_exact. Qed.
Print Assumptions C14_discovered_files_exact_partial.

Theorem C14_find_file : forall fs p, find_file fs p = true <-> fs_get fs p = Some (KFile true).
Proof. exact find_file_spec. Qed.
Print Assumptions C14_find_file.

Theorem C14_skip_purges : forall t p q, In q (t_visit (do_skip t p)) -> is_under p q = false.
Proof. exact do_skip_purges. Qed.
Print Assumptions C14_skip_purges.

Theorem C14_skip_records : forall t p, In p (t_skip (do_skip t p)).
Proof. exact do_skip_records. Qed.
Print Assumptions C14_skip_records.

Example C14_example :
  let fs := [("/o", KDir); ("/o/.gitignore", KFile true); ("/o/tests", KDir); ("/o/test", KDir);
             ("/o/test/.ignore", KFile true); ("/o/tests/.gitignore", KFile true); ("/o/test/sub", KDir);
             ("/o/test/sub/.hgignore", KFile false); ("/o/.git", KDir); ("/o/.git/.gitignore", KFile true);
             ("/o/tests/.git", KDir); ("/o/tests/.git/.gitignore", KFile true)] in
  let content := fun p : string => if String.eqb p "/o/.gitignore" then ["test/"] else ["x"] in
  map show_dfile (from_origin gm_glob content true fs "/o" [] [] None)
  = ["/o/.gitignore|/o|Git"; "/o/tests/.gitignore|/o/tests|Git"].
Proof. vm_compute. reflexivity. Qed.

(* pruning is permanent: from any state of the walk, nothing is returned later from a skipped directory or below it *)
Theorem C14_pruned_stays_out : forall gm content hard fs base watches,
  (forall e, In e fs -> absolute (fst e)) ->
  forall n t, PInv t ->
  forall f, In f (t_files (run gm content hard n fs base watches t)) ->
  In f (t_files t) \/ exists d, d_in f = Some d /\ forall p, In p (t_skip t) -> is_under p d = false.
Proof. exact pruned_stays_out. Qed.
Print Assumptions C14_pruned_stays_out.

(* ... and every state the walk of from_origin reaches is such a state *)
Theorem C14_walk_states_have_the_invariant : forall gm content hard fs base watches,
  (forall e, In e fs -> absolute (fst e)) -> absolute base ->
  forall n filt files, PInv (run gm content hard n fs base watches (mkT [base] [] filt files)).
Proof. intros gm content hard fs base watches Hfs Hb n filt files. apply run_pinv; [exact Hfs | apply init_pinv; exact Hb]. Qed.
Print Assumptions C14_walk_states_have_the_invariant.

(* VCS metadata directories (repaired code): the walk never puts one on its stack, so no returned file lives in one, whatever
   the ignore files say -- in particular whatever negated patterns on parent directories say *)
Theorem C14_vcs_dirs_never_entered : forall gm content fs base watches n t,
  NV base t ->
  forall f, In f (t_files (run gm content true n fs base watches t)) ->
  In f (t_files t) \/ exists d, d_in f = Some d /\ (d = base \/ vcs_dir d = false).
Proof. exact vcs_dirs_never_entered. Qed.
Print Assumptions C14_vcs_dirs_never_entered.

(* as pinned, a negated pattern on a parent directory re-included the VCS directory *)
Theorem C14_vcs_dir_entered_refuted :
  map show_dfile (from_origin gm_glob wcontent false wfs "/o" [] [] None) = ["/o/test2/.gitignore|/o/test2|Git"; "/o/test2/test/.hg/.ignore|/o/test2/test/.hg|-"] /\
  map show_dfile (from_origin gm_glob wcontent true wfs "/o" [] [] None) = ["/o/test2/.gitignore|/o/test2|Git"].
Proof. exact vcs_dir_entered_refuted. Qed.
Print Assumptions C14_vcs_dir_entered_refuted.
