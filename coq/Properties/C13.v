(* C13 -- watcher registration converges to the configured path set.  Proofs: Fs/FsProofs.v, Fs/ConfigWatch.v
   PARTIAL in one respect: what the real notify backends do with a registered path (inotify etc.) is outside
   the model; the recording watcher of the harness implements notify's watch/unwatch contract. *)
From Coq Require Import List NArith Bool String.
From WX Require Import Fs.FsWorker Fs.FsProofs Fs.ConfigWatch Fs.ConfigRace Gen.Changeable_gen Fs.Changeable Fs.ChangeableProofs.
Import ListNotations.
Open Scope N_scope.

(* every turn of the repaired worker loop keeps "own record = registered with the live watcher", whatever
   the three configuration reads returned (concurrent changes in the middle of a turn) and whatever fails *)
Theorem C13_pass_invariant : forall fail_watch fail_unwatch ps1 k ps2 w,
  Inv w -> Inv (pass fail_watch fail_unwatch true ps1 k ps2 w).
Proof. exact pass_inv. Qed.
Print Assumptions C13_pass_invariant.

(* convergence: one turn over a stable configuration registers exactly the configured paths (with their
   recursion mode) that were already registered or whose registration succeeds, with the configured watcher
   kind; an empty configuration releases the watcher *)
Theorem C13_converges : forall fail_watch fail_unwatch,
  (forall i, fail_unwatch i = false) ->
  forall ps k w, Inv w ->
  let w' := pass fail_watch fail_unwatch true ps k ps w in
  (ps = [] -> w_watcher w' = None) /\
  (ps <> [] -> w_kind w' = k /\ exists reg, w_watcher w' = Some reg /\
     forall q, In q reg <-> In q ps /\ (fail_watch (wp_id q) = false \/ (In q (reg_of w) /\ kind_eqb (w_kind w) k = true))).
Proof. exact pass_converges. Qed.
Print Assumptions C13_converges.

(* ... and such a turn happens after the last change: a worker that is blocked waiting has started a turn
   after the latest change, for every interleaving of changes and worker progress *)
Theorem C13_no_lost_change : forall ls, mode (crun true ls) = Waiting -> seen (crun true ls) = gen (crun true ls).
Proof. exact waiting_is_up_to_date. Qed.
Print Assumptions C13_no_lost_change.

(* a failing registration is reported once per attempt and does not prevent the others *)
Theorem C13_error_per_attempt : forall fail_watch w p reg,
  w_watcher w = Some reg -> fail_watch (wp_id p) = true ->
  w_errors (do_watch fail_watch w p) = S (w_errors w) /\ w_watcher (do_watch fail_watch w p) = Some reg.
Proof. intros fw w p reg W F. unfold do_watch. rewrite W, F. split; reflexivity. Qed.
Print Assumptions C13_error_per_attempt.

(* regression witnesses of the two repaired defects *)
Theorem C13_kind_change_refuted :
  let ps := [mkWp 1 true; mkWp 2 true] in
  let w := pass (fun _ => false) (fun _ => false) false ps KNative ps fsw0 in
  reg_of (pass (fun _ => false) (fun _ => false) false ps KPoll ps w) = [] /\
  set_eq (reg_of (pass (fun _ => false) (fun _ => false) true ps KPoll ps w)) ps = true.
Proof. exact kind_change_refuted. Qed.
Print Assumptions C13_kind_change_refuted.

Theorem C13_lost_change_refuted :
  let s := crun false [Change; Next] in mode s = Waiting /\ seen s <> gen s.
Proof. exact lost_change_refuted. Qed.
Print Assumptions C13_lost_change_refuted.

(* the same at the granularity of the individual synchronisation operations of ConfigWatched::next and
   Config::signal_change, whose order is translated from config.rs on every run: for every interleaving with any number of
   concurrent signal_change calls, a worker that sleeps in next() with no notification in flight has seen the latest change *)
Theorem C13_no_lost_wakeup : forall ls, asleep prog (run prog ls) -> rseen (run prog ls) = cnt (run prog ls).
Proof. exact no_lost_wakeup. Qed.
Print Assumptions C13_no_lost_wakeup.

Theorem C13_signal_change_order : Gen.ConfigNext_gen.signal_ops = ["inc"; "notify"]%string.
Proof. exact signal_shape. Qed.
Print Assumptions C13_signal_change_order.

Theorem C13_racy_order_refuted :
  let s := run racy [LN; LN; LN; LN; LN; LN; LAgain; LN; LI; LT; LN; LN; LN] in asleep racy s /\ rseen s <> cnt s.
Proof. exact racy_order_refuted. Qed.
Print Assumptions C13_racy_order_refuted.

(* ---- reconfiguring from within a handler (lib/src/changeable.rs; the call and clone modes are translated from the source) *)
Theorem C13_changeable_modes_of_the_source : src_call = Some GetThenCall /\ src_clone = Some Share.
Proof. exact source_modes. Qed.
Print Assumptions C13_changeable_modes_of_the_source.

(* ... never deadlocks: whatever handlers do from within a call (replace any handler, their own included, call others, clone) *)
Theorem C13_reconfig_never_deadlocks : forall l s, locked s = [] ->
  match exec GetThenCall Share l s with Deadlock _ => False | _ => True end.
Proof. exact never_deadlocks. Qed.
Print Assumptions C13_reconfig_never_deadlocks.

(* ... does not affect the invocation in progress, and takes effect for the next one *)
Theorem C13_reconfig_from_within : forall h f0 g s sl,
  lookup h (slot_of s) = Some sl -> lookup sl (value s) = Some f0 -> locked s = [] ->
  exists s', exec GetThenCall Share [Call h [Replace h g]; Call h []] s = Done s' /\ trace s' = (h, g) :: (h, f0) :: trace s.
Proof. exact replace_from_within. Qed.
Print Assumptions C13_reconfig_from_within.

(* ... and reaches every clone of the handle (the error hook of Watchexec::main calls through a clone made when main starts) *)
Theorem C13_reconfig_reaches_clones : forall h h' f0 g s sl,
  lookup h (slot_of s) = Some sl -> lookup sl (value s) = Some f0 -> locked s = [] -> h' <> h ->
  exists s', exec GetThenCall Share [Clone h h'; Replace h g; Call h' []] s = Done s' /\ trace s' = (h', g) :: trace s.
Proof. exact clones_share. Qed.
Print Assumptions C13_reconfig_reaches_clones.

Theorem C13_call_under_lock_refuted :
  match exec CallUnderLock Share [Call 0 [Replace 0 1]; Call 0 []] init with Deadlock _ => True | _ => False end /\
  invocations (exec GetThenCall Share [Call 0 [Replace 0 1]; Call 0 []] init) = [(0, 0); (0, 1)].
Proof. exact call_under_lock_refuted. Qed.
Print Assumptions C13_call_under_lock_refuted.

Theorem C13_snapshot_clone_refuted :
  invocations (exec GetThenCall Snapshot [Clone 0 7; Replace 0 1; Call 7 []] init) = [(7, 0)] /\
  invocations (exec GetThenCall Share [Clone 0 7; Replace 0 1; Call 7 []] init) = [(7, 1)].
Proof. exact snapshot_clone_refuted. Qed.
Print Assumptions C13_snapshot_clone_refuted.
