(* C06 -- graceful stop: signal first, no kill before the grace period, kill at expiry.
   Proofs: Job/JobGrace.v, Job/JobTickets.v *)
From Coq Require Import List Arith NArith String Ascii Bool.
From WX Require Import Job.JobModel Job.JobExt Job.JobGrace Job.JobTickets Job.JobWitness.
Import ListNotations.
Open Scope N_scope.

Theorem C06_signal_immediately : forall E V w ch sig grace f (restart : bool),
  cs w = Running ch -> signal_ok E (nsignals w) = true ->
  let w' := handle E V w (if restart then CTryGracefulRestart sig grace else CGracefulStop sig grace) f in
  obs w' = (now w, OSignal ch sig) :: obs w /\
  timer w' = Some (now w + grace, f, restart) /\
  cs w' = Running ch /\
  on_end_restart w' = (if restart then Some f else on_end_restart w).
Proof. exact graceful_signals_immediately. Qed.
Print Assumptions C06_signal_immediately.

Theorem C06_idle_noop : forall E V w sig grace f (restart : bool),
  (forall c, cs w <> Running c) ->
  handle E V w (if restart then CTryGracefulRestart sig grace else CGracefulStop sig grace) f = raise w f.
Proof. exact graceful_idle_noop. Qed.
Print Assumptions C06_idle_noop.

Theorem C06_no_early_kill : forall V w,
  In STimer (enabled V w) -> exists d f r, timer w = Some (d, f, r) /\ d <= now w.
Proof. exact no_early_kill. Qed.
Print Assumptions C06_no_early_kill.

Theorem C06_kill_at_expiry_under_maximal_progress : forall w d f r,
  timer w = Some (d, f, r) -> d <= now w -> ended w = false -> busy_until w <= now w ->
  In STimer (enabled fixed w).
Proof. exact kill_at_expiry. Qed.
Print Assumptions C06_kill_at_expiry_under_maximal_progress.

Theorem C06_forced_stop_kills_and_reaps : forall E V w ch d f,
  timer w = Some (d, f, false) -> cs w = Running ch -> kill_ok E (nkills w) = true ->
  task_step E V w STimer =
  settle_park (finish_end (raise (end_flags (fst (do_kill_wait E (set_timer w None) ch))) f)) /\
  exists st, obs (fst (do_kill_wait E (set_timer w None) ch)) = (now w, OReap ch st) :: (now w, OKill ch) :: obs w.
Proof.
  intros E V w ch d f T C K. split; [apply (forced_stop_kills E V w ch d f T C K)|].
  destruct (do_kill_wait_ok E (set_timer w None) ch K) as (st & O & _). exists st. exact O.
Qed.
Print Assumptions C06_forced_stop_kills_and_reaps.

Theorem C06_normal_held : forall V w, timer w <> None -> ~ In SNormal (enabled V w).
Proof. exact normal_held. Qed.
Print Assumptions C06_normal_held.

(* the replacement starts exactly once: the restart marker only exists together with its armed timer, so
   after the restart was carried out nothing remains that could spawn again *)
Theorem C06_restart_once : forall E ls,
  forallb api_label ls = true -> Jt (run E fixed ls) /\ Jo (run E fixed ls).
Proof. exact restart_marker_invariant. Qed.
Print Assumptions C06_restart_once.

Theorem C06_restart_twice_refuted :
  spawns (run env_ign v_only_clear_restart_pinned h_restart_twice) = 3%nat /\ spawns (run env_ign fixed h_restart_twice) = 2%nat.
Proof. exact restart_twice_refuted. Qed.
Print Assumptions C06_restart_twice_refuted.
