(* C05 -- on-busy policy: do-nothing, queue, restart and signal behave as documented.
   Proofs: Cli/OnBusyProofs.v (run-level model of the CLI's action logic) and C04 (no two live processes).
   The Job API calls of each arm of the decision, the signal expression of signal mode and the mode shorthands are
   TRANSLATED from cli/src/config.rs and cli/src/args/events.rs on every run (Gen/CliOnBusy_gen.v); T is the model
   instantiated with that table.  The decision is taken on the state seen by the in-job query; `Change true` is a change
   whose calls are processed after the command has ended meanwhile.
   PARTIAL: in queue mode the reset of the `queued` flag happens a few instructions after the queued run was started:
   a change handled exactly in between is not modelled (it needs a zero debounce to matter). *)
From Coq Require Import List NArith Bool String.
From WX Require Job.JobModel Job.JobInv.
From WX Require Import Gen.CliOnBusy_gen Cli.OnBusy Cli.OnBusyTable Cli.OnBusyProofs.
Import ListNotations.
Open Scope N_scope.

Notation step := (OnBusy.step T).
Notation run := (OnBusy.run T).
Notation boot := (OnBusy.boot T).

Theorem C05_handler_table : T = mkTab [KSignal] [KRestart; KNoop] [KNoop; KWaitEnd; KStart; KNoop] [] [KStart; KNoop].
Proof. exact table_shape. Qed.
Print Assumptions C05_handler_table.

Theorem C05_shorthands_and_signal_expr :
  onbusy_shorthands = ("Signal", "Restart")%string /\ onbusy_default = "do-nothing"%string /\
  onbusy_signal_expr = "signal.or(stop_signal).unwrap_or(Signal::Terminate)"%string.
Proof. exact shorthands_shape. Qed.
Print Assumptions C05_shorthands_and_signal_expr.

Theorem C05_no_overlap : forall E V ls, (List.length (JobInv.live (JobModel.run E V ls)) <= 1)%nat.
Proof. exact JobInv.at_most_one_live. Qed.
Print Assumptions C05_no_overlap.

Theorem C05_startup : forall o, o_postpone o = false -> running (boot o) = true /\ log (boot o) = [AStart; AChange].
Proof. exact startup_runs. Qed.
Print Assumptions C05_startup.

Theorem C05_postpone : forall o, o_postpone o = true -> boot o = st0.
Proof. exact postpone_waits. Qed.
Print Assumptions C05_postpone.

Theorem C05_idle_starts : forall o s r, running s = false ->
  running (step o s (Change r)) = true /\ log (step o s (Change r)) = AStart :: AChange :: log s.
Proof. exact idle_change_starts. Qed.
Print Assumptions C05_idle_starts.

Theorem C05_do_nothing : forall o s, eff_mode o = MDoNothing -> running s = true ->
  log (step o s (Change false)) = AChange :: log s /\ running (step o s (Change false)) = true /\
  deferred (step o s (Change false)) = deferred s.
Proof. exact do_nothing. Qed.
Print Assumptions C05_do_nothing.

Theorem C05_signal_only : forall o s, eff_mode o = MSignal -> running s = true ->
  log (step o s (Change false)) = ASignal (busy_signal o) :: AChange :: log s /\ running (step o s (Change false)) = true.
Proof. exact signal_only. Qed.
Print Assumptions C05_signal_only.

Theorem C05_signal_is_the_configured_one : forall o s, o_signal o = Some s -> busy_signal o = s /\ eff_mode o = MSignal.
Proof. intros o s H. split; [apply busy_signal_precedence | eapply signal_shorthand]; exact H. Qed.
Print Assumptions C05_signal_is_the_configured_one.

Theorem C05_restart_shorthand : forall o, o_signal o = None -> o_restart o = true -> eff_mode o = MRestart.
Proof. exact restart_shorthand. Qed.
Print Assumptions C05_restart_shorthand.

Theorem C05_restart : forall o s, eff_mode o = MRestart -> running s = true ->
  log (step o s (Change false)) = AStopStart (stop_sig o) :: AChange :: log s /\ running (step o s (Change false)) = true /\
  pending (step o s (Change false)) = false.
Proof. exact restart_restarts. Qed.
Print Assumptions C05_restart.

Theorem C05_restart_when_command_ends_at_the_decision : forall o s, eff_mode o = MRestart -> running s = true -> deferred s = None ->
  log (step o s (Change true)) = AStart :: AExit :: AChange :: log s /\ running (step o s (Change true)) = true /\
  pending (step o s (Change true)) = false.
Proof. exact restart_raced. Qed.
Print Assumptions C05_restart_when_command_ends_at_the_decision.

Theorem C05_queue_once : forall o s n, eff_mode o = MQueue -> running s = true -> deferred s = None -> n <> 0%nat ->
  let s' := step o (fold_left (step o) (repeat (Change false) n) s) Exit in
  running s' = true /\ starts s' = S (starts s) /\ deferred s' = None /\ pending s' = false.
Proof. exact queue_once. Qed.
Print Assumptions C05_queue_once.

Theorem C05_freshness_restart : forall o es, eff_mode o = MRestart -> pending (run o es) = false.
Proof. exact restart_fresh. Qed.
Print Assumptions C05_freshness_restart.

Theorem C05_freshness_queue_partial : forall o es,
  eff_mode o = MQueue -> let s := run o es in pending s = true -> running s = true /\ deferred s = Some [KStart; KNoop].
Proof. exact queue_fresh. Qed.
Print Assumptions C05_freshness_queue_partial.

Theorem C05_starts_only_when_idle : forall o s e, DefOk s -> In AStart (log (step o s e)) -> ~ In AStart (log s) ->
  (exists r, e = Change r /\ (running s = false \/ r = true)) \/ (e = Exit /\ running s = true /\ deferred s <> None).
Proof. exact starts_only_when_idle. Qed.
Print Assumptions C05_starts_only_when_idle.
