(* C05 -- on-busy policy: do-nothing, queue, restart and signal behave as documented.
   Proofs: Cli/OnBusyProofs.v (run-level model of the CLI's action logic) and C04 (no two live processes).
   PARTIAL: (1) the run-level model treats the handling of one change batch as atomic; the interleaving of the
   handler's controls with the job task is covered by the job model (C04, C06, C10) and by the in-process and
   end-to-end runs; (2) in queue mode the reset of the `queued` flag happens a few instructions after the queued
   run was started: a change handled exactly in between is not modelled (it needs a zero debounce to matter). *)
From Coq Require Import List NArith Bool.
From WX Require Job.JobModel Job.JobInv.
From WX Require Import Cli.OnBusy Cli.OnBusyProofs.
Import ListNotations.
Open Scope N_scope.

Theorem C05_no_overlap : forall E V ls, (List.length (JobInv.live (JobModel.run E V ls)) <= 1)%nat.
Proof. exact JobInv.at_most_one_live. Qed.
Print Assumptions C05_no_overlap.

Theorem C05_startup : forall o, o_postpone o = false -> running (boot o) = true /\ log (boot o) = [AStart; AChange].
Proof. exact startup_runs. Qed.
Print Assumptions C05_startup.

Theorem C05_postpone : forall o, o_postpone o = true -> boot o = st0.
Proof. exact postpone_waits. Qed.
Print Assumptions C05_postpone.

Theorem C05_idle_starts : forall o s, running s = false ->
  running (step o s Change) = true /\ log (step o s Change) = AStart :: AChange :: log s.
Proof. exact idle_change_starts. Qed.
Print Assumptions C05_idle_starts.

Theorem C05_do_nothing : forall o s, eff_mode o = MDoNothing -> running s = true ->
  log (step o s Change) = AChange :: log s /\ running (step o s Change) = true /\ queued (step o s Change) = queued s.
Proof. exact do_nothing. Qed.
Print Assumptions C05_do_nothing.

Theorem C05_signal_only : forall o s, eff_mode o = MSignal -> running s = true ->
  log (step o s Change) = ASignal (busy_signal o) :: AChange :: log s /\ running (step o s Change) = true.
Proof. exact signal_only. Qed.
Print Assumptions C05_signal_only.

Theorem C05_signal_is_the_configured_one : forall o s, o_signal o = Some s -> busy_signal o = s /\ eff_mode o = MSignal.
Proof. intros o s H. split; [apply busy_signal_precedence | eapply signal_shorthand]; exact H. Qed.
Print Assumptions C05_signal_is_the_configured_one.

Theorem C05_restart_shorthand : forall o, o_signal o = None -> o_restart o = true -> eff_mode o = MRestart.
Proof. exact restart_shorthand. Qed.
Print Assumptions C05_restart_shorthand.

Theorem C05_restart : forall o s, eff_mode o = MRestart -> running s = true ->
  log (step o s Change) = AStopStart (stop_sig o) :: AChange :: log s /\ running (step o s Change) = true /\ pending (step o s Change) = false.
Proof. exact restart_restarts. Qed.
Print Assumptions C05_restart.

Theorem C05_queue_once : forall o s n, eff_mode o = MQueue -> running s = true -> n <> 0%nat ->
  let s' := step o (fold_left (step o) (repeat Change n) s) Exit in
  running s' = true /\ starts s' = S (starts s) /\ queued s' = false /\ pending s' = false.
Proof. exact queue_once. Qed.
Print Assumptions C05_queue_once.

Theorem C05_freshness_restart : forall o es, eff_mode o = MRestart -> pending (run o es) = false.
Proof. exact restart_fresh. Qed.
Print Assumptions C05_freshness_restart.

Theorem C05_freshness_queue_partial : forall o es,
  eff_mode o = MQueue -> let s := run o es in pending s = true -> running s = true /\ queued s = true.
Proof. exact queue_fresh. Qed.
Print Assumptions C05_freshness_queue_partial.

Theorem C05_starts_only_when_idle : forall o s e, In AStart (log (step o s e)) -> ~ In AStart (log s) ->
  (e = Change /\ running s = false) \/ (e = Exit /\ running s = true /\ queued s = true).
Proof. exact starts_only_when_idle. Qed.
Print Assumptions C05_starts_only_when_idle.
