(* C15 -- runtime errors reach the error handler once and stop nothing unless elevated.
   Proofs: Worker/ErrorHook.v, Worker/ThrottleProofs.v *)
From Coq Require Import List NArith Bool.
From WX Require Import Worker.Throttle Worker.ThrottleProofs Worker.ErrorHook.
Import ListNotations.
Open Scope N_scope.

(* every filter error is sent to the error channel exactly once, in order, and only those *)
Theorem C15_filter_errors_exact : forall l,
  filter_errors l = map (fun x => e_id (snd x)) (filter (fun x => errors_on (snd x)) l).
Proof. exact errors_exact. Qed.
Print Assumptions C15_filter_errors_exact.

(* the handler sees exactly the errors up to (and including) the first one it turns critical *)
Theorem C15_exactly_once : forall beh errs, fst (error_hook beh errs) = prefix_until (stops beh) errs.
Proof. exact handled_exactly. Qed.
Print Assumptions C15_exactly_once.

Theorem C15_no_elevation_continues : forall beh errs,
  (forall i, In (RErr i) errs -> stops beh i = false) -> ~ In RExit errs ->
  error_hook beh errs = (map (fun e => match e with RErr i => i | RExit => 0%N end) errs, HookRunning).
Proof. exact no_elevation_continues. Qed.
Print Assumptions C15_no_elevation_continues.

Theorem C15_elevation_ends_main : forall beh pre i post,
  (forall j, In (RErr j) pre -> stops beh j = false) -> ~ In RExit pre -> beh i = HElevate ->
  main_of (snd (error_hook beh (pre ++ RErr i :: post))) = MainErr (CElevated i).
Proof. exact elevation_ends_main. Qed.
Print Assumptions C15_elevation_ends_main.

Theorem C15_critical_ends_main : forall beh pre i c post,
  (forall j, In (RErr j) pre -> stops beh j = false) -> ~ In RExit pre -> beh i = HCritical c ->
  main_of (snd (error_hook beh (pre ++ RErr i :: post))) = MainErr (COther c).
Proof. exact critical_ends_main. Qed.
Print Assumptions C15_critical_ends_main.

(* containment: an erroring event is in no batch and does not disturb the others (C01 conservation holds
   with the erroring events simply absent from the delivered sequence) *)
Theorem C15_containment : forall l th, concat (map b_ids (collect l th)) = inputs_ok l.
Proof. exact conservation_all. Qed.
Print Assumptions C15_containment.
