(* C03 -- ignore files apply only inside their directory; the nearest match wins.
   All statements are for an arbitrary glob matcher gm.  spec_match is the git-style reference walk
   (ancestor directories of the path, nearest first, global node last); match_path true is the model of
   IgnoreFilter::match_path after the repair, match_path false the string-prefix lookup as pinned.
   Proofs: Ignore/IgnoreProofs.v, Ignore/IgnoreEquiv.v (the repaired code's lookup IS the reference walk) *)
From Coq Require Import List NArith String Ascii Bool.
From WX Require Import Base.Bytes Glob.Glob Glob.Gitignore Glob.PathLemmas Ignore.IgnoreFilter Ignore.IgnoreProofs Ignore.IgnoreEquiv.
Import ListNotations.
Open Scope string_scope.
Open Scope list_scope.

(* an ignore file never changes the verdict for a path outside the directory it applies in -- also
   when that directory's name is a textual prefix of the path's directory (is_under is component-wise) *)
Theorem C03_non_interference : forall gm f d g path is_dir,
  d <> "" -> is_under d path = false ->
  spec_match gm (mkFilter (f_origin f) (node_insert d g (f_nodes f))) path is_dir = spec_match gm f path is_dir.
Proof. exact non_interference. Qed.
Print Assumptions C03_non_interference.

Theorem C03_add_file_non_interference : forall gm f d lines path is_dir,
  d <> "" -> is_under d path = false ->
  spec_match gm (add_file f (Some d, lines)) path is_dir = spec_match gm f path is_dir.
Proof. exact add_file_non_interference. Qed.
Print Assumptions C03_add_file_non_interference.

(* whatever pattern decides (ignore or negated re-include) was stored for a directory the path is in *)
Theorem C03_negation_scoped : forall gm f path is_dir g,
  (spec_match gm f path is_dir = MIgnore g \/ spec_match gm f path is_dir = MWhite g) ->
  exists d gi, (d <> "" -> is_under d path = true) /\ node_get d (f_nodes f) = Some gi /\ In g (gi_globs gi).
Proof. exact decision_provenance. Qed.
Print Assumptions C03_negation_scoped.

Theorem C03_nearest_wins : forall gm f path is_dir d rest gi m,
  node_get d (f_nodes f) = Some gi -> eval_node gm f gi path is_dir = m -> m <> MNone ->
  spec_walk gm f path is_dir (d :: rest) = m.
Proof. exact nearest_wins. Qed.
Print Assumptions C03_nearest_wins.

Theorem C03_farther_only_if_nearer_silent : forall gm f path is_dir d rest,
  (node_get d (f_nodes f) = None \/ exists gi, node_get d (f_nodes f) = Some gi /\ eval_node gm f gi path is_dir = MNone) ->
  spec_walk gm f path is_dir (d :: rest) = spec_walk gm f path is_dir rest.
Proof. exact farther_only_if_nearer_silent. Qed.
Print Assumptions C03_farther_only_if_nearer_silent.

Theorem C03_last_line_wins : forall gm gs g path is_dir acc,
  gm (g_actual g) path && (negb (g_onlydir g) || is_dir) = true ->
  last_match gm (gs ++ [g]) path is_dir acc = (if g_white g then MWhite g else MIgnore g).
Proof. exact last_line_wins. Qed.
Print Assumptions C03_last_line_wins.

(* any listing order that keeps the relative order of the files of each directory gives the same verdicts *)
Theorem C03_order_invariant : forall gm origin files files' path is_dir,
  (forall k, filter (fun file => String.eqb (file_key file) k) files =
             filter (fun file => String.eqb (file_key file) k) files') ->
  spec_match gm (filter_new origin files) path is_dir = spec_match gm (filter_new origin files') path is_dir.
Proof. exact order_invariant_subsequences. Qed.
Print Assumptions C03_order_invariant.

Theorem C03_add_file_equiv : forall origin files file,
  add_file (filter_new origin files) file = filter_new origin (files ++ [file]).
Proof. exact add_file_equiv. Qed.
Print Assumptions C03_add_file_equiv.

(* the repaired defect, kept as a regression witness: the string-prefix lookup let /p/test decide for
   /p/tests/x.log; the guarded lookup agrees with the reference *)
Theorem C03_string_prefix_lookup_refuted :
  let f := filter_new "/p" [(Some "/p", ["*.log"]); (Some "/p/test", ["!*.log"])] in
  match_path gm_glob false f "/p/tests/x.log" false <> spec_match gm_glob f "/p/tests/x.log" false /\
  match_path gm_glob true f "/p/tests/x.log" false = spec_match gm_glob f "/p/tests/x.log" false /\
  is_under "/p/test" "/p/tests/x.log" = false.
Proof. exact string_prefix_lookup_refuted. Qed.
Print Assumptions C03_string_prefix_lookup_refuted.

(* the repaired lookup (longest byte-prefix key of the trie, non-ancestor keys skipped, then the key's parent)
   computes exactly the reference walk, for every filter with absolute unique keys and every absolute path *)
Theorem C03_match_path_is_spec : forall gm f path is_dir,
  absolute path -> (forall k g, In (k, g) (f_nodes f) -> absolute k) -> NoDup (map fst (f_nodes f)) ->
  match_path gm true f path is_dir = spec_match gm f path is_dir.
Proof. exact match_path_is_spec. Qed.
Print Assumptions C03_match_path_is_spec.

(* ... in particular for everything IgnoreFilter::new builds from ignore files of absolute directories *)
Theorem C03_filter_new_match_is_spec : forall gm origin files path is_dir,
  absolute path -> (forall d l, In (Some d, l) files -> absolute d) ->
  match_path gm true (filter_new origin files) path is_dir = spec_match gm (filter_new origin files) path is_dir.
Proof. exact filter_new_match_is_spec. Qed.
Print Assumptions C03_filter_new_match_is_spec.

Example C03_example :
  let f := filter_new "/p" [(None, ["*.tmp"]); (Some "/p", ["*.log"; "target/"]); (Some "/p/test", ["!keep.log"; "/local"])] in
  show_gmatch (spec_match gm_glob f "/p/test/keep.log" false) = "white:!keep.log" /\
  show_gmatch (spec_match gm_glob f "/p/tests/keep.log" false) = "ignore:*.log" /\
  show_gmatch (spec_match gm_glob f "/p/test/a/x.tmp" false) = "ignore:*.tmp" /\
  show_gmatch (spec_match gm_glob f "/p/test/target/x" false) = "ignore:target/" /\
  show_gmatch (spec_match gm_glob f "/p/tests/local" false) = "none" /\
  show_gmatch (spec_match gm_glob f "/p/test/local" false) = "ignore:/local".
Proof. vm_compute. repeat split; reflexivity. Qed.
