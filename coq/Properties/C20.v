(* C20 -- project origins are exactly the marked ancestors.  Statements only; proofs are in
   Codec/OriginsProofs.v. *)
From Coq Require Import List String Bool.
From WX Require Import Gen.Origins_gen Codec.Origins Codec.OriginsProofs.
Import ListNotations.

(* origins() returns exactly the members of the chain {path, parents...} whose listing has a marker
   of the right node type, for every file system fs and every start path *)
Theorem C20_origins_exact : forall (fs : path -> listing) (p q : path),
  In q (origins fs p) <-> In q (chain p) /\ is_marked (fs q).
Proof. exact origins_exact. Qed.
Print Assumptions C20_origins_exact.

(* the chain is the path and its ancestors, nothing else *)
Theorem C20_chain_is_ancestors : forall p q : path,
  In q (chain p) <-> fst q = fst p /\ exists d, snd p = d ++ snd q.
Proof. exact chain_spec. Qed.
Print Assumptions C20_chain_is_ancestors.

Theorem C20_wrong_node_type : forall k l n t,
  lookup l n = Some t -> t <> ntype_of k -> has k l n = false.
Proof. exact wrong_node_type. Qed.
Print Assumptions C20_wrong_node_type.

Theorem C20_types_exact : forall (l : listing) (t : ptype),
  In t (types l) <-> exists k n, In (k, n, t) type_markers /\ node_is k l n.
Proof. exact types_exact. Qed.
Print Assumptions C20_types_exact.

Theorem C20_types_nodup : forall l, NoDup (types l).
Proof. intro l. apply nodup_pt_NoDup. Qed.
Print Assumptions C20_types_nodup.

Theorem C20_type_table_documented : forall m, In m type_markers <-> In m doc_type_markers.
Proof. exact type_markers_documented. Qed.
Print Assumptions C20_type_table_documented.

Theorem C20_typed_dir_is_origin : forall l t, In t (types l) -> is_marked l.
Proof. exact typed_dir_is_origin. Qed.
Print Assumptions C20_typed_dir_is_origin.

(* every project type is VCS xor software suite *)
Theorem C20_classification : forall t : ptype, is_vcs t = negb (is_soft t).
Proof. exact classification. Qed.
Print Assumptions C20_classification.

Theorem C20_enumeration_complete : forall t : ptype, In t all_ptypes.
Proof. exact all_ptypes_complete. Qed.
Print Assumptions C20_enumeration_complete.

(* non-vacuity: a chain with a wrong-type marker, a real marker two levels up *)
Example C20_example :
  let fs := fun q : path =>
    match q with
    | (true, ["b"; "a"]%string) => [("Cargo.toml"%string, DirT)]
    | (true, ["a"]%string) => [("x"%string, FileT)]
    | (true, []) => [("go.mod"%string, FileT); (".git"%string, OtherT)]
    | _ => []
    end in
  origins fs (true, ["b"; "a"]%string) = [(true, [])] /\ types (fs (true, [])) = [PT_Go].
Proof. vm_compute. split; reflexivity. Qed.
