(* C10 -- controls run in send order within a priority; urgent before high before normal.
   Proofs: Job/JobOrder.v.  sents p / takes p are the flags accepted into / taken out of the queue of
   priority p, oldest first, as recorded by the model's bookkeeping observations. *)
From Coq Require Import List Arith NArith String Ascii Bool.
From WX Require Import Job.JobModel Job.JobExt Job.JobOrder Gen.JobApi_gen.
Import ListNotations.
Open Scope list_scope.

(* FIFO, nothing lost, nothing invented: accepted = executed ++ still queued, in order -- for every
   label sequence (any interleaving of senders), environment and variant *)
Theorem C10_fifo_within_priority : forall E V ls p,
  sents p (obs (run E V ls)) = takes p (obs (run E V ls)) ++ map snd (queue p (run E V ls)).
Proof. exact fifo. Qed.
Print Assumptions C10_fifo_within_priority.

Theorem C10_executed_once : forall E V ls p,
  NoDup (sents p (obs (run E V ls))) -> NoDup (takes p (obs (run E V ls))).
Proof. exact executed_once. Qed.
Print Assumptions C10_executed_once.

(* what awaiting only the last ticket of a multi-control operation relies on *)
Theorem C10_last_ticket_implies_all : forall E V ls p f pre post g,
  sents p (obs (run E V ls)) = pre ++ f :: post -> NoDup (sents p (obs (run E V ls))) ->
  In f (takes p (obs (run E V ls))) -> In g pre -> In g (takes p (obs (run E V ls))).
Proof. exact last_implies_all. Qed.
Print Assumptions C10_last_ticket_implies_all.

Theorem C10_priority_at_decision : forall w s,
  In s (enabled fixed w) ->
  match s with
  | SNormal => qu w = [] /\ qh w = [] /\ timer w = None
  | SHigh => qu w = []
  | _ => True
  end.
Proof. exact priority_at_decision. Qed.
Print Assumptions C10_priority_at_decision.

(* regression witness: the pinned select! could take a normal control while an urgent one was pending *)
Theorem C10_priority_at_decision_refuted :
  let w := set_queues init [(CDelete, 1%nat)] [] [(CSyncFunc 1, 0%nat)] in
  In SNormal (enabled pinned w) /\ qu w <> [].
Proof. exact priority_at_decision_refuted. Qed.
Print Assumptions C10_priority_at_decision_refuted.

(* the API table translated from job.rs: delete_now is urgent, to_wait is high, everything else normal *)
Theorem C10_api_priorities :
  forall n p cs, In (n, p, cs) job_api ->
    p = (if String.eqb n "delete_now" then "Urgent" else if String.eqb n "to_wait" then "High" else "Normal")%string.
Proof.
  intros n p cs H. vm_compute in H.
  repeat (destruct H as [H|H]; [inversion H; subst; reflexivity|]). contradiction.
Qed.
Print Assumptions C10_api_priorities.
