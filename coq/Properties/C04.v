(* C04 -- a job never has two live processes at once.  Proofs: Job/JobInv.v
   `run E V ls` is the state of the job task model after ANY sequence of labels (sends of any controls at
   any priority, task steps with any select! choice, time advances), for ANY child behaviour, spawn / signal /
   kill fault pattern E and any code variant V. *)
From Coq Require Import List Arith NArith String Ascii Bool.
From WX Require Import Job.JobModel Job.JobInv.
Import ListNotations.

Theorem C04_at_most_one_live : forall E V ls, (List.length (live (run E V ls)) <= 1)%nat.
Proof. exact at_most_one_live. Qed.
Print Assumptions C04_at_most_one_live.

(* the spawned-and-unreaped children are exactly the one the job state says is running *)
Theorem C04_live_is_running : forall E V ls,
  live (run E V ls) = match cs (run E V ls) with Running c => [c] | _ => [] end.
Proof. exact run_inv. Qed.
Print Assumptions C04_live_is_running.

(* a spawn only ever happens from a state with no live child: every arm that spawns does so after the
   previous child was reaped (kill+wait, or the process-end branch) *)
Theorem C04_spawn_after_reap : forall E w,
  live w = [] -> (forall c, cs w <> Running c) -> Inv (fst (do_spawn E w)).
Proof. exact do_spawn_inv. Qed.
Print Assumptions C04_spawn_after_reap.

Example C04_example :
  let E := mkEnv (fun c => if Nat.eqb c 1 then Some 5%N else None) (fun _ _ => RIgnore) (fun n => negb (Nat.eqb n 2)) (fun _ => true) (fun _ => true) in
  let ls := [LSend PNormal CStart 1%nat; LTask SNormal; LSend PNormal CTryRestart 3%nat; LTask SNormal; LAdvance 5%N; LTask SWait;
             LSend PNormal CStart 5%nat; LTask SNormal; LSend PNormal CStart 7%nat; LTask SNormal] in
  live (run E fixed ls) = [2%nat] /\ List.length (kids (run E fixed ls)) = 3%nat.
Proof. vm_compute. split; reflexivity. Qed.
