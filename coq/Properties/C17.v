(* C17 -- path summaries handed to commands are faithful.  Proofs: Codec/PathsProofs.v *)
From Coq Require Import List NArith String Ascii Bool.
From WX Require Import Base.Show Base.Bytes Base.BytesProofs Gen.FsKinds_gen Gen.PathCats_gen Codec.Paths Codec.PathsProofs.
Import ListNotations.

(* every path of every event that has a kind is listed in the variable of that kind's category, and
   common ++ entry gives back the path (component-wise) *)
Theorem C17_reconstruct : forall (b : list pev) e p d k,
  In e b -> In (p, d) (pv_paths e) -> In k (pv_kinds e) ->
  exists ent suf, In ent (entries_of b (path_category k)) /\ ent = render_path suf /\ common_or_nil b ++ suf = p.
Proof. exact reconstruct. Qed.
Print Assumptions C17_reconstruct.

(* and nothing else is listed *)
Theorem C17_bucket_exact : forall (b : list pev) c ent,
  In ent (entries_of b c) ->
  exists e p d k suf, In e b /\ In (p, d) (pv_paths e) /\ In k (pv_kinds e) /\ path_category k = c /\
                      ent = render_path suf /\ common_or_nil b ++ suf = p.
Proof. exact bucket_exact. Qed.
Print Assumptions C17_bucket_exact.

(* entries are strictly byte-sorted (hence de-duplicated) *)
Theorem C17_sorted_nodup : forall b c, ssorted (entries_of b c).
Proof. exact entries_sorted. Qed.
Print Assumptions C17_sorted_nodup.

(* the common path is a prefix of every trunk and the longest such *)
Theorem C17_common_longest : forall b pre,
  common_of b = Some pre ->
  (forall t, In t (all_trunks b) -> is_prefix pre t) /\
  (forall q, (forall t, In t (all_trunks b) -> is_prefix q t) -> is_prefix q pre).
Proof. exact common_longest. Qed.
Print Assumptions C17_common_longest.

Theorem C17_common_none : forall b,
  common_of b = None ->
  all_trunks b = [] \/ forall q, (forall t, In t (all_trunks b) -> is_prefix q t) -> q = [].
Proof. exact common_none. Qed.
Print Assumptions C17_common_none.

(* the common path is a prefix of every listed path, so stripping it never falls back *)
Theorem C17_common_is_prefix : forall b e pd,
  In e b -> In pd (pv_paths e) -> is_prefix (common_or_nil b) (fst pd).
Proof. exact common_prefixes_every_path. Qed.
Print Assumptions C17_common_is_prefix.

Theorem C17_no_path_no_effect : forall e b, pv_paths e = [] -> summarise (e :: b) = summarise b.
Proof. exact no_path_no_effect. Qed.
Print Assumptions C17_no_path_no_effect.

Theorem C17_no_kind_no_entry : forall e b, pv_kinds e = [] -> pairs (e :: b) = pairs b.
Proof. exact no_kind_no_pairs. Qed.
Print Assumptions C17_no_kind_no_entry.

(* line format: per event, in event order, one line per (path, kind) pair (or one "other" line per path) *)
Theorem C17_simple_format_order : forall a b, simple_format (a ++ b) = simple_format a ++ simple_format b.
Proof. exact simple_format_app. Qed.
Print Assumptions C17_simple_format_order.

Theorem C17_simple_format_lines : forall e line,
  In line (simple_lines_of e) <->
  exists pd, In pd (pv_paths e) /\
    ((pv_kinds e = [] /\ line = (simple_prefix_nokind ++ ":" ++ render_path (fst pd))%string) \/
     exists k, In k (pv_kinds e) /\ line = (simple_prefix k ++ ":" ++ render_path (fst pd))%string).
Proof. exact simple_line_In. Qed.
Print Assumptions C17_simple_format_lines.

Theorem C17_simple_format_count : forall e,
  List.length (simple_lines_of e) = List.length (pv_paths e) * Nat.max 1 (List.length (pv_kinds e)).
Proof. exact simple_lines_count. Qed.
Print Assumptions C17_simple_format_count.

Example C17_example :
  summarise [mkPev [(["/"; "p"; "a"; "x"], false); (["/"; "p"; "b"], true)]%string
                   [EventKind_Create CreateKind_File; EventKind_Modify (ModifyKind_Data DataChange_Any)];
             mkPev [(["/"; "p"; "a"; "x"], false)]%string [EventKind_Create CreateKind_Any];
             mkPev [] [EventKind_Remove RemoveKind_Any]]
  = [("COMMON", "/p"); ("CREATED", "a/x:b"); ("WRITTEN", "a/x:b")]%string.
Proof. vm_compute. reflexivity. Qed.
