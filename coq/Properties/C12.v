(* C12 -- explicit CLI filters are honoured under every mix of ignore-discovery flags.
   Proofs: Cli/IgnoreSourcesProofs.v.  The statements quantify over all 64 flag combinations and over
   arbitrary lists of discovered project / global ignore files and explicit --ignore-file entries. *)
From Coq Require Import List NArith String Ascii Bool.
From WX Require Import Gen.Origins_gen Gen.FsKinds_gen Gen.CliFilter_gen Gen.CliFlags_gen Cli.IgnoreSources Cli.IgnoreSourcesProofs.
Import ListNotations.
Open Scope list_scope.

Theorem C12_explicit_files_kept : forall fl vcs proj glob expl i,
  In i expl -> In (mkSrc i AGlobal None) (selected true fl vcs proj glob expl).
Proof. exact explicit_files_kept. Qed.
Print Assumptions C12_explicit_files_kept.

Theorem C12_flag_exact : forall fl vcs proj glob expl f,
  wf_proj proj -> wf_glob glob -> ~ In f (expl_g expl) ->
  (In f (selected true fl vcs proj glob expl) <->
   In f (selected true flags0 vcs proj glob expl) /\ removed_by fl f = false).
Proof. exact flag_exact. Qed.
Print Assumptions C12_flag_exact.

(* the exact membership condition of every selected file *)
Theorem C12_selected_characterised : forall fl vcs proj glob expl f,
  wf_proj proj -> wf_glob glob ->
  (In f (selected true fl vcs proj glob expl) <->
   In f (expl_g expl) \/
   (no_discover (normalise fl) = false /\
    ((In f (expl_o expl ++ proj) /\ no_project (normalise fl) = false /\ vcs_ok vcs f = true) \/
     (In f glob /\ no_global (normalise fl) = false /\ keepvcs vcs f = true)) /\
    (no_vcs (normalise fl) = true -> s_to f = None))).
Proof. exact selected_In. Qed.
Print Assumptions C12_selected_characterised.

Theorem C12_default_ignores_exact : forall fl,
  use_default_ignores fl = negb (no_default fl || ignore_nothing fl && sets F_no_default_ignore).
Proof. exact use_default_exact. Qed.
Print Assumptions C12_default_ignores_exact.

Theorem C12_ignore_nothing_is_all : forall fl,
  ignore_nothing fl = true ->
  let n := normalise fl in
  no_vcs n = true /\ no_project n = true /\ no_global n = true /\ no_default n = true /\ no_discover n = true.
Proof. exact ignore_nothing_is_all. Qed.
Print Assumptions C12_ignore_nothing_is_all.

(* regression witness of the repaired defect *)
Theorem C12_explicit_files_lost_refuted :
  selected false (mkFlags false false false false true false) [] [] [] [7%N] = [] /\
  selected false (mkFlags false false false false false true) [] [] [] [7%N] = [] /\
  selected false (mkFlags false true true false false false) [] [] [] [7%N] = [] /\
  In (mkSrc 7 AGlobal None) (selected true (mkFlags true true true true true true) [] [] [] [7%N]).
Proof. exact explicit_files_lost_refuted. Qed.
Print Assumptions C12_explicit_files_lost_refuted.

(* no assumption on what from_origin returned -- in particular when the project's .git/config names its own excludes file, which from_origin
   lists at global scope: a global ignore file that belongs to no VCS (the application's own) is kept unless a flag names it *)
Theorem C12_global_nonvcs_kept : forall fixed fl vcs proj glob expl f,
  In f glob -> s_in f = AGlobal -> s_to f = None ->
  no_global (normalise fl) = false -> no_discover (normalise fl) = false ->
  In f (selected fixed fl vcs proj glob expl).
Proof. exact global_nonvcs_kept. Qed.
Print Assumptions C12_global_nonvcs_kept.

Theorem C12_project_excludes_replaces_user_git :
  let proj := [mkSrc 8 AGlobal (Some PT_Git); mkSrc 1 AOrigin (Some PT_Git)] in
  let glob := [mkSrc 6 AGlobal (Some PT_Git); mkSrc 7 AGlobal None] in
  map s_id (selected true flags0 [PT_Git] proj glob []) = [8; 1; 7]%N /\
  map s_id (selected true (mkFlags false true false false false false) [PT_Git] proj glob []) = [6; 7]%N.
Proof. exact project_excludes_replaces_user_git. Qed.
Print Assumptions C12_project_excludes_replaces_user_git.
