(* C08 -- quit always terminates and leaves no supervised process behind.
   Proofs: Job/JobQuit.v (job task level), Worker/Quit.v (all jobs, process groups, CLI decision).
   Time is the model's clock under an eager runtime: the clock moves only when the task has nothing to do and a
   sleeping task is woken at its wake-up instant (the "small margin" of the property is the runtime's latency,
   measured by the harness).  `slack w` is the sum of the grace periods then in effect: the remainder of an armed
   graceful stop, the graces of graceful controls still queued, and the sleeps of queued async hooks.
   PARTIAL: group members other than the leader are covered by C08_group_clean only when the group was killed;
   the case where it is not is the known finding recorded by C08_known_finding_straggler. *)
From Coq Require Import List NArith Bool.
From WX Require Import Job.JobModel Job.JobInv Job.JobQuit Worker.Quit Gen.Signals_gen Worker.Throttle Worker.SourcePrio.
Import ListNotations.
Open Scope N_scope.

Theorem C08_graceful_job_bounded : forall E ls sig grace f1 f2 ch,
  let w := run E fixed ls in
  ended w = false ->
  let q := quit_job w sig grace f1 f2 in
  let w' := eager_run E (S (4 * mu q + nu q)) ch q in
  ended w' = true /\ now w' <= now w + (slack w + grace) /\ survivors w' = [].
Proof. exact graceful_quit_clean. Qed.
Print Assumptions C08_graceful_job_bounded.

Theorem C08_eager_is_a_run : forall E ch w w', eager_step E ch w = Some w' -> exists l, w' = step E fixed w l.
Proof. exact eager_step_is_step. Qed.
Print Assumptions C08_eager_is_a_run.

Theorem C08_quit_always_terminates : forall m t0 jobs,
  (forall j, In j jobs -> reachable j /\ now (j_w j) = t0) ->
  (forall j, In j jobs -> ended (quit_one m j) = true /\ survivors (quit_one m j) = []) /\
  main_done m t0 jobs <= t0 + bound m jobs.
Proof. exact quit_always_terminates. Qed.
Print Assumptions C08_quit_always_terminates.

Theorem C08_abort_is_prompt : forall t0 jobs,
  (forall j, In j jobs -> reachable j /\ now (j_w j) = t0) -> main_done Abort t0 jobs = t0.
Proof. exact abort_is_prompt. Qed.
Print Assumptions C08_abort_is_prompt.

Theorem C08_no_leader_survives_any_run : forall E ls, EndInv (run E fixed ls).
Proof. exact run_end_inv. Qed.
Print Assumptions C08_no_leader_survives_any_run.

Theorem C08_group_clean_partial : forall strag w,
  (forall c, In c (spawned w) -> strag c = true -> killed w c = true) -> group_survivors strag w = [].
Proof. exact group_clean. Qed.
Print Assumptions C08_group_clean_partial.

Theorem C08_known_finding_straggler :
  let w' := quit_one (Graceful 15 100) (mkJ witness_env witness_world (fun _ => 0%nat)) in
  ended w' = true /\ survivors w' = [] /\ group_survivors (fun _ => true) w' = [0%nat].
Proof. exact straggler_survives. Qed.
Print Assumptions C08_known_finding_straggler.

Theorem C08_cli_signal_quits : forall signals mapped sq eof s,
  (s = 2 \/ s = 15) -> In s signals -> ~ In s mapped -> cli_wants_quit signals mapped sq eof = true.
Proof. exact cli_signal_quits. Qed.
Print Assumptions C08_cli_signal_quits.

Theorem C08_cli_first_quit_is_graceful : forall ss st,
  cli_quit_manner 0 ss st = Graceful (match ss with Some s => s | None => 15 end) st.
Proof. exact cli_first_quit_is_graceful. Qed.
Print Assumptions C08_cli_first_quit_is_graceful.

(* the path from the OS signal to the handler's quit request: with the priorities the signal source is translated to use, an
   interrupt / terminate signal is in a batch the instant the collector receives it -- the filterer is not asked, a debounce window
   in progress is closed by it -- and the handler that sees it requests the quit (C08_cli_signal_quits) *)
Theorem C08_quit_signal_reaches_handler : forall t n s R th id v,
  quit_signal_number t = Some n ->
  let s' := on_event s (R, th, signal_event id t v) in
  t_set s' = [] /\ exists b rest, t_out s' = b :: rest /\ b_deliver b = R /\ last (b_ids b) 0 = id.
Proof. exact quit_signal_reaches_handler. Qed.
Print Assumptions C08_quit_signal_reaches_handler.

Theorem C08_quit_signal_never_a_filter_error : forall t n id v,
  quit_signal_number t = Some n -> errors_on (signal_event id t v) = false.
Proof. exact quit_signal_never_errors. Qed.
Print Assumptions C08_quit_signal_never_a_filter_error.
