(* C11 -- path filter verdicts follow the documented glob, ignore and extension rules.
   Statements hold for an arbitrary glob matcher gm; the last four are about the concrete glob token semantics the
   correspondence uses.  Proofs: Globset/GlobsetProofs.v, Globset/CliLayer.v, Glob/GlobLemmas.v *)
From Coq Require Import List NArith String Ascii Bool.
From WX Require Import Base.Bytes Glob.Glob Glob.Gitignore Ignore.IgnoreFilter Globset.Globset Globset.GlobsetProofs
  Gen.FsKinds_gen Gen.CliFilter_gen Globset.CliLayer Glob.GlobLemmas.
Import ListNotations.
Open Scope string_scope.
Open Scope list_scope.

Theorem C11_no_path_passes : forall gm f, gs_check_event gm f [] = true.
Proof. exact no_path_passes. Qed.
Print Assumptions C11_no_path_passes.

Theorem C11_whitelisted_passes : forall gm f paths p d,
  In (p, d) paths -> In p (gs_whitelist f) -> gs_check_event gm f paths = true.
Proof. exact whitelisted_passes. Qed.
Print Assumptions C11_whitelisted_passes.

(* the code's verdict is the sentence of the property written as a boolean formula *)
Theorem C11_verdict_formula : forall gm f paths, gs_check_event gm f paths = spec_formula gm f paths.
Proof. exact verdict_formula. Qed.
Print Assumptions C11_verdict_formula.

Theorem C11_ignore_precedence : forall gm f p d, ignored gm f p d = true -> path_passes gm f (p, d) = false.
Proof. exact ignore_precedence. Qed.
Print Assumptions C11_ignore_precedence.

Theorem C11_all_ignored_rejected : forall gm f paths,
  paths <> [] -> (forall pd, In pd paths -> ~ In (fst pd) (gs_whitelist f)) ->
  (forall pd, In pd paths -> ignored gm f (fst pd) (snd pd) = true) -> gs_check_event gm f paths = false.
Proof. exact all_ignored_rejected. Qed.
Print Assumptions C11_all_ignored_rejected.

Theorem C11_empty_config_passes : forall gm origin paths,
  gs_check_event gm (gsf_new origin [] [] [] [] []) paths = true.
Proof. exact empty_config_passes. Qed.
Print Assumptions C11_empty_config_passes.

(* inserting a non-negated ignore pattern anywhere in the list never turns a rejection into a pass *)
Theorem C11_monotone : forall gm f g pre post paths,
  g_white g = false -> gi_globs (gs_ignores f) = pre ++ post ->
  gs_check_event gm (mkGsf (gs_origin f) (gs_filters f) (mkGi (gi_root (gs_ignores f)) (pre ++ g :: post))
                           (gs_whitelist f) (gs_ignore_files f) (gs_exts f)) paths = true ->
  gs_check_event gm f paths = true.
Proof. exact monotone. Qed.
Print Assumptions C11_monotone.

Theorem C11_cli_layer : forall allowed kinds inner,
  cli_check allowed kinds inner = true <->
  (forall k e, In k kinds -> fs_event_of k = Some e -> In e allowed) /\ inner = true.
Proof. exact cli_layer. Qed.
Print Assumptions C11_cli_layer.

Theorem C11_fs_event_total : forall k, fs_event_of k = None <-> (k = EventKind_Any \/ k = EventKind_Other).
Proof. exact fs_event_total. Qed.
Print Assumptions C11_fs_event_total.

Example C11_example :
  let f := gsf_new "/p" [("*.rs", Some "/p")] [("target/", Some "/p"); ("!keep.rs", None)] ["/p/watched.txt"]
                   [(Some "/p/sub", ["gen.rs"])] ["toml"] in
  gs_check_event gm_glob f [("/p/src/a.rs", false)] = true /\
  gs_check_event gm_glob f [("/p/src/a.txt", false)] = false /\
  gs_check_event gm_glob f [("/p/Cargo.toml", false)] = true /\
  gs_check_event gm_glob f [("/p/x.toml", true)] = false /\
  gs_check_event gm_glob f [("/p/target", true)] = false /\
  gs_check_event gm_glob f [("/p/sub/gen.rs", false)] = false /\
  gs_check_event gm_glob f [("/p/watched.txt", false)] = true /\
  gs_check_event gm_glob f [("/p/src/a.txt", false); ("/p/b.rs", false)] = true.
Proof. vm_compute. repeat split; reflexivity. Qed.

(* ---- the glob grammar itself (token semantics of the model, compared with globset on every run) *)
Theorem C11_glob_literal : forall s t, tmatch (lits s) t = String.eqb s t.
Proof. exact literal_matches_itself_only. Qed.
Print Assumptions C11_glob_literal.

Theorem C11_glob_star_stays_in_its_component : forall s, tmatch [TStar] s = negb (has_slash s).
Proof. exact star_alone. Qed.
Print Assumptions C11_glob_star_stays_in_its_component.

Theorem C11_glob_question_mark : forall s, tmatch [TAny] s = match s with String c EmptyString => negb (is_sep c) | _ => false end.
Proof. exact any_alone. Qed.
Print Assumptions C11_glob_question_mark.

Theorem C11_glob_recursive_prefix : forall name s,
  tmatch (TRecPre :: lits name) s = String.eqb name s || after_some_slash (String.eqb name) s.
Proof. exact recursive_prefix. Qed.
Print Assumptions C11_glob_recursive_prefix.
