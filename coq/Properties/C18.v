(* C18 -- commands are spawned with exactly the configured program and arguments.
   Proof of the argv / wrapper / CLI logic; what execve, setsid and setpgid do with it is validated
   by the correspondence run with real child processes.  Proofs: Cli/ArgvProofs.v *)
From Coq Require Import List NArith String Ascii Bool.
From WX Require Import Base.Show Base.Bytes Cli.Argv Cli.ArgvProofs.
Import ListNotations.

Theorem C18_exec_verbatim : forall prog args, to_argv (Exec prog args) = prog :: args.
Proof. exact exec_verbatim. Qed.
Print Assumptions C18_exec_verbatim.

Theorem C18_exec_no_splitting : forall prog args,
  List.length (to_argv (Exec prog args)) = S (List.length args) /\
  forall i, nth_error (to_argv (Exec prog args)) (S i) = nth_error args i.
Proof. exact exec_no_splitting. Qed.
Print Assumptions C18_exec_no_splitting.

Theorem C18_shell_order : forall sh command args,
  to_argv (ShellP sh command args) =
  [sh_prog sh] ++ sh_options sh ++ (match sh_progopt sh with Some o => [o] | None => [] end) ++ [command] ++ args.
Proof. exact shell_order. Qed.
Print Assumptions C18_shell_order.

Theorem C18_shell_command_position : forall sh command args,
  nth_error (to_argv (ShellP sh command args))
            (1 + List.length (sh_options sh) + (match sh_progopt sh with Some _ => 1 | None => 0 end)) = Some command.
Proof. exact shell_command_position. Qed.
Print Assumptions C18_shell_command_position.

Theorem C18_wrapper_choice : forall o,
  In KillOnDrop (wrappers o) /\
  (In ProcessSession (wrappers o) <-> session o = true) /\
  (In ProcessGroupLeader (wrappers o) <-> session o = false /\ grouped o = true) /\
  (In ResetSigmask (wrappers o) <-> reset_sigmask o = true).
Proof. exact wrapper_choice. Qed.
Print Assumptions C18_wrapper_choice.

Theorem C18_cli_noshell_verbatim : forall shell_opt env_shell wrap p args,
  exists o, interpret true shell_opt env_shell wrap (p :: args) = ICommand (Exec p args) o /\
            to_argv (Exec p args) = p :: args.
Proof. exact cli_noshell_verbatim. Qed.
Print Assumptions C18_cli_noshell_verbatim.

Theorem C18_cli_shell_join : forall sh env_shell wrap prog shprog shopts,
  sh <> ""%string -> sh <> "none"%string -> split_ws sh = shprog :: shopts ->
  exists o, interpret false (Some sh) env_shell wrap prog =
            ICommand (ShellP (mkShell shprog shopts (Some "-c"%string)) (sep_by " " prog) []) o /\
            to_argv (ShellP (mkShell shprog shopts (Some "-c"%string)) (sep_by " " prog) [])
              = shprog :: shopts ++ ["-c"%string; sep_by " " prog].
Proof. exact cli_shell_join. Qed.
Print Assumptions C18_cli_shell_join.

Theorem C18_cli_wrap_mode : forall no_shell shell_opt env_shell wrap prog p o,
  interpret no_shell shell_opt env_shell wrap prog = ICommand p o ->
  grouped o = (match wrap with WrapGroup => true | _ => false end) /\
  session o = (match wrap with WrapSession => true | _ => false end) /\ reset_sigmask o = false.
Proof. exact cli_wrap_mode. Qed.
Print Assumptions C18_cli_wrap_mode.

Example C18_example :
  to_argv (ShellP (mkShell "bash" ["-e"; "-u"] (Some "-c")) "echo 'a  b' $X *" ["x y"; ""])%string
    = ["bash"; "-e"; "-u"; "-c"; "echo 'a  b' $X *"; "x y"; ""]%string /\
  interpret false (Some "bash  -e"%string) None WrapGroup ["echo"; "a b"]%string
    = ICommand (ShellP (mkShell "bash" ["-e"] (Some "-c")) "echo a b" [])%string (mkOpts true false false).
Proof. vm_compute. split; reflexivity. Qed.
