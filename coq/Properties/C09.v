(* C09 -- job lifecycle follows the documented state machine.  Proofs: Job/JobSpec.v
   spec_exec is the reference machine written from the rustdoc; handle is the arm of the detailed task
   model.  The graceful controls' timing is the subject of C06 / C07. *)
From Coq Require Import List Arith NArith String Ascii Bool.
From WX Require Import Job.JobModel Job.JobExt Job.JobSpec Job.JobWitness Job.JobGrace.
Import ListNotations.
Open Scope N_scope.

(* every simple control refines the reference: same observable state (current, previous, hook, ended)
   afterwards, same effects (hook call, spawn attempt, signal, kill, reap, marker) in the same order, ticket
   resolved exactly when the reference says so -- for every state, environment and fault *)
Theorem C09_refines : forall E w c f, simple_ctrl c = true -> refines E w (handle E fixed w c f) c f.
Proof. exact handle_refines. Qed.
Print Assumptions C09_refines.

Theorem C09_start_noop_running : forall E V w ch f, cs w = Running ch -> handle E V w CStart f = raise w f.
Proof. intros E V w ch f C. cbn [handle]. rewrite C. reflexivity. Qed.
Print Assumptions C09_start_noop_running.

Theorem C09_stop_noop_idle : forall E V w f, (forall ch, cs w <> Running ch) -> handle E V w CStop f = raise w f.
Proof. intros E V w f H. cbn [handle]. destruct (cs w) eqn:C; try reflexivity. exfalso; eapply H; reflexivity. Qed.
Print Assumptions C09_stop_noop_idle.

Theorem C09_try_restart_never_starts_idle : forall E V w f,
  (forall ch, cs w <> Running ch) -> handle E V w CTryRestart f = raise w f.
Proof. intros E V w f H. cbn [handle]. destruct (cs w) eqn:C; try reflexivity. exfalso; eapply H; reflexivity. Qed.
Print Assumptions C09_try_restart_never_starts_idle.

Theorem C09_signal_noop_idle : forall E V w s f, (forall ch, cs w <> Running ch) -> handle E V w (CSignal s) f = raise w f.
Proof. intros E V w s f H. cbn [handle]. destruct (cs w) eqn:C; try reflexivity. exfalso; eapply H; reflexivity. Qed.
Print Assumptions C09_signal_noop_idle.

Theorem C09_wait_idle_immediate : forall E w f, (forall ch, cs w <> Running ch) -> handle E fixed w CNextEnding f = raise w f.
Proof. intros E w f H. cbn [handle v_wait_idle fixed]. destruct (cs w) eqn:C; try reflexivity. exfalso; eapply H; reflexivity. Qed.
Print Assumptions C09_wait_idle_immediate.

(* the spawn hook runs exactly once per spawn attempt, immediately before it, with the hook installed then *)
Theorem C09_hook_once_per_spawn : forall E y,
  effects (obs (fst (do_spawn E y))) =
  effects (obs y) ++ (match hook y with Some h => [EHook h] | None => [] end) ++ [ESpawn (spawn_ok E (attempts y))].
Proof. intros E y. pose proof (do_spawn_spec E y) as H. cbn zeta in H. destruct H as (_ & _ & _ & _ & H). exact H. Qed.
Print Assumptions C09_hook_once_per_spawn.

(* restart always leaves a fresh process running: Stop then Start from a running child, when kill and spawn
   succeed, ends in Running with a child that did not exist before *)
Theorem C09_restart_fresh : forall E w ch f1 f2,
  cs w = Running ch -> kill_ok E (nkills w) = true ->
  let w1 := handle E fixed w CStop f1 in
  spawn_ok E (attempts w1) = true ->
  cs (handle E fixed w1 CStart f2) = Running (List.length (kids w)).
Proof. exact restart_fresh. Qed.
Print Assumptions C09_restart_fresh.

Theorem C09_wait_idle_refuted :
  raisedb (run env_term v_only_wait_idle_pinned h_wait_idle) 1%nat = false /\ raisedb (run env_term fixed h_wait_idle) 1%nat = true.
Proof. exact wait_idle_refuted. Qed.
Print Assumptions C09_wait_idle_refuted.
