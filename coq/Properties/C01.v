(* C01 -- accepted events reach the action handler exactly once; rejected ones never.
   Proofs: Worker/ThrottleProofs.v, Worker/Queue.v.  `l` is ANY sequence of received events (receive time,
   throttle in force, event with priority / emptiness / filter verdict): any number of producers and any
   handler durations only determine which such sequence occurs. *)
From Coq Require Import List NArith Bool Permutation.
From WX Require Import Worker.Throttle Worker.ThrottleProofs Worker.Queue.
Import ListNotations.
Open Scope N_scope.

(* delivered ++ still being collected = the received events that are urgent, empty or passed, in order:
   each exactly once, nothing else *)
Theorem C01_conservation : forall l, delivered (run_events l) ++ t_set (run_events l) = inputs_ok l.
Proof. exact conservation. Qed.
Print Assumptions C01_conservation.

Theorem C01_conservation_all : forall l th, concat (map b_ids (collect l th)) = inputs_ok l.
Proof. exact conservation_all. Qed.
Print Assumptions C01_conservation_all.

Theorem C01_rejected_never : forall l th i,
  In i (concat (map b_ids (collect l th))) ->
  exists x, In x l /\ e_id (snd x) = i /\ accepted (snd x) = true /\ errors_on (snd x) = false.
Proof. exact rejected_never. Qed.
Print Assumptions C01_rejected_never.

Theorem C01_no_empty_batch : forall l th b, In b (collect l th) -> b_ids b <> [].
Proof. exact no_empty_batch. Qed.
Print Assumptions C01_no_empty_batch.

(* the queue between the producers and the worker: received ++ still queued is a permutation of sent,
   for any interleaving of pushes and pops and any tie-breaking among equal priorities *)
Theorem C01_queue_conservation : forall (A : Type) (q : list (item A)) ls q',
  qrun A q ls q' -> Permutation (popped A ls ++ q') (pushed A ls ++ q).
Proof. exact queue_conservation. Qed.
Print Assumptions C01_queue_conservation.

Theorem C01_queue_pop_is_max : forall (A : Type) q (x : item A) q', qstep A q (QPop A x) q' -> forall y, In y q' -> (fst y <= fst x)%nat.
Proof. exact pop_is_max. Qed.
Print Assumptions C01_queue_pop_is_max.

Example C01_example :
  let e i u m v := mkEv i u m v in
  map b_ids (collect [(10, 50, e 1 false false Pass); (20, 50, e 2 false false Reject); (30, 50, e 3 false false FErr);
                      (40, 50, e 4 false true Reject); (45, 50, e 5 true false Reject); (200, 50, e 6 false false Pass)] 50)
  = [[1; 4; 5]; [6]].
Proof. vm_compute. reflexivity. Qed.
