(* C07 -- every control completes and every ticket resolves.  Proofs: Job/JobTickets.v, Job/JobOrder.v,
   Job/JobDrain.v, Flag/Flag.v.  Safety: no flag is ever lost; each control is executed at most once, in order; a
   raised flag wakes every waiter.  Liveness: under an eager runtime (the clock moves only when the task has nothing to
   do; a sleeping task is woken at its wake-up instant) every queued control is executed within the grace periods in
   effect, after which every ticket issued so far is resolved except wait-for-end tickets of a command still running.
   The runtime's own fairness and latency are not modelled (measured by the harness). *)
From Coq Require Import List Arith NArith String Ascii Bool.
From WX Require Import Job.JobModel Job.JobExt Job.JobOrder Job.JobTickets Job.JobQuit Job.JobDrain Job.JobWitness Flag.Flag.
Import ListNotations.
Open Scope N_scope.

(* no ticket is ever lost: for every API-shaped label sequence (any senders, any interleaving, any select!
   choices, any timing), every child behaviour and every spawn / signal / kill fault pattern, each accepted
   control's flag is already raised, or still held by the job, or the job has ended *)
Theorem C07_no_ticket_lost : forall E ls,
  forallb api_label ls = true ->
  forall f, sentP (run E fixed ls) f -> okP (run E fixed ls) f.
Proof. exact no_ticket_lost. Qed.
Print Assumptions C07_no_ticket_lost.

(* liveness: the eager runtime drains the job within the grace periods in effect (slack = remainder of an armed graceful stop +
   graces of queued graceful controls + sleeps of queued async hooks); then every ticket issued so far is resolved, or is a
   wait-for-end ticket of a command that is still running, or the job is gone *)
Theorem C07_every_ticket_resolves : forall E ls ch,
  forallb api_label ls = true ->
  let w := run E fixed ls in
  let w' := drain_run E (S (4 * mu w + nu w)) ch w in
  now w' <= now w + slack w /\
  forall f, sentP w f -> raisedP w' f \/ In f (on_end w') \/ ended w' = true.
Proof. exact every_ticket_resolves. Qed.
Print Assumptions C07_every_ticket_resolves.

Theorem C07_drain_is_a_run : forall E ch w w', drain_step E ch w = Some w' -> exists l, w' = step E fixed w l /\ api_label l = true.
Proof. exact drain_step_is_step. Qed.
Print Assumptions C07_drain_is_a_run.

(* the arm of a control settles the control's own flag: raised, or handed to a holder *)
Theorem C07_ticket_by_completion : forall E w c f,
  raisedP (handle E fixed w c f) f \/ In f (held (handle E fixed w c f)).
Proof. exact handle_own. Qed.
Print Assumptions C07_ticket_by_completion.

(* when the process ends every wait-for-end flag and a pending graceful stop's flag are raised *)
Theorem C07_process_end_releases : forall E w,
  (forall d g, timer w = Some (d, g, true) -> on_end_restart w = Some g) -> keeps w (handle_wait E fixed w).
Proof. exact handle_wait_keeps. Qed.
Print Assumptions C07_process_end_releases.

Theorem C07_each_control_once : forall E V ls p,
  NoDup (sents p (obs (run E V ls))) -> NoDup (takes p (obs (run E V ls))).
Proof. exact executed_once. Qed.
Print Assumptions C07_each_control_once.

(* a raised flag completes every task waiting on it, however many there are (repaired Flag) *)
Theorem C07_multi_waiter : forall (ops : list fop) (n : nat),
  (forall i, In (FPoll i) ops -> (i < n)%nat) ->
  let s := frun true ops finit in
  f_set s = true -> forall i, In i (f_pending s) -> False.
Proof. exact raised_flag_has_no_pending_waiter. Qed.
Print Assumptions C07_multi_waiter.

Theorem C07_single_slot_refuted :
  let s := frun false [FPoll 0; FPoll 1; FRaise]%nat finit in
  f_set s = true /\ In 0%nat (f_pending s) /\ ~ In 0%nat (f_woken s).
Proof. exact single_slot_loses_waiter. Qed.
Print Assumptions C07_single_slot_refuted.

(* regression witnesses of the two repaired ticket leaks *)
Theorem C07_ticket_lost_graceful_stop_refuted :
  ~ okP (run env_term v_only_timer_flag_pinned h_graceful) 3%nat /\ raisedb (run env_term fixed h_graceful) 3%nat = true.
Proof. exact ticket_lost_graceful_stop_refuted. Qed.
Print Assumptions C07_ticket_lost_graceful_stop_refuted.

Theorem C07_ticket_lost_restart_fail_refuted :
  ~ okP (run env_fail v_only_restart_fail_pinned h_restart_fail) 3%nat /\ raisedb (run env_fail fixed h_restart_fail) 3%nat = true.
Proof. exact ticket_lost_restart_fail_refuted. Qed.
Print Assumptions C07_ticket_lost_restart_fail_refuted.
