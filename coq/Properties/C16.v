(* C16 -- events survive a JSON round trip and the format is stable.  Proofs: Codec/EventsJsonProofs.v *)
From Coq Require Import List NArith ZArith String Ascii Bool.
From WX Require Import Base.Show Base.Bytes Codec.Json Gen.Signals_gen Codec.Signals
  Gen.FsKinds_gen Gen.EventNames_gen Codec.EventsJson Codec.EventsJsonProofs.
Import ListNotations.

(* every filesystem event kind's Debug rendering is a row of the table that maps back to it *)
Theorem C16_kind_roundtrip : forall k : EventKind, kind_of_full (debug_EventKind k) = k.
Proof. exact kind_roundtrip. Qed.
Print Assumptions C16_kind_roundtrip.

Theorem C16_kind_table_total : forall s, ~ In s (map fst full_table) -> kind_of_full s = EventKind_Other.
Proof. exact kind_table_total. Qed.
Print Assumptions C16_kind_table_total.

(* Tag -> SerdeTag -> Tag is the identity: all exit codes over the full non-zero i64 / i32 ranges, all
   pids, all signals, all kinds (wf_tag states only the ranges the Rust types enforce) *)
Theorem C16_tag_roundtrip : forall t : tag, wf_tag t = true -> serde_to_tag (tag_to_serde t) = t.
Proof. exact tag_roundtrip. Qed.
Print Assumptions C16_tag_roundtrip.

Theorem C16_serde_json_roundtrip : forall v : serde_tag,
  wf_serde v = true -> json_to_serde (serde_to_json v) = Some v.
Proof. exact serde_json_roundtrip. Qed.
Print Assumptions C16_serde_json_roundtrip.

Theorem C16_tag_json_roundtrip : forall t : tag, wf_tag t = true -> json_to_tag (tag_to_json t) = Some t.
Proof. exact tag_json_roundtrip. Qed.
Print Assumptions C16_tag_json_roundtrip.

(* whole events: any number and order of tags, any metadata map (kept as a byte-sorted key list) *)
Theorem C16_event_roundtrip : forall e : event, wf_event e = true -> json_to_event (event_to_json e) = Some e.
Proof. exact event_roundtrip. Qed.
Print Assumptions C16_event_roundtrip.

(* the field names, kind names and value names in the source are the documented ones *)
Theorem C16_field_names :
  tag_field_names = documented_tag_fields /\
  map (fun x => fst (fst x)) serde_tag_fields = documented_tag_fields /\
  map TagKind_name (tl all_TagKind) = documented_kinds /\
  map FileType_name all_FileType = documented_filetypes /\
  map FsEventKind_name all_FsEventKind = documented_simple /\
  map Source_name all_Source = documented_sources /\
  map ProcessDisposition_name all_ProcessDisposition = documented_dispositions /\
  map Keyboard_name all_Keyboard = ["eof"%string].
Proof. exact field_names_documented. Qed.
Print Assumptions C16_field_names.

(* a deserialised tag record with any combination of present / absent / contradictory fields becomes
   a tag of its own kind or the explicit Unknown tag, never a tag of another kind; serde_to_tag is total *)
Theorem C16_malformed_total : forall v : serde_tag,
  serde_to_tag v = TUnknown \/ tag_kind (serde_to_tag v) = st_kind v.
Proof. exact malformed_total. Qed.
Print Assumptions C16_malformed_total.

Theorem C16_json_malformed_total : forall j t,
  json_to_tag j = Some t ->
  exists v, json_to_serde j = Some v /\ (t = TUnknown \/ tag_kind t = st_kind v).
Proof. exact json_malformed_total. Qed.
Print Assumptions C16_json_malformed_total.

Example C16_example :
  let e := mkEvent [TPath "/a b" (Some FT_Dir); TFek (EventKind_Modify (ModifyKind_Name RenameMode_Both));
                    TCompletion (Some (ExitError (-9223372036854775808)%Z)); TSignal (Custom 40); TUnknown]
                   [("a"%string, ["x"%string]); ("b"%string, [])] in
  wf_event e = true /\ json_to_event (event_to_json e) = Some e /\
  json_to_tag (JObj [("kind"%string, JStr "completion"); ("disposition"%string, JStr "error")]) = Some TUnknown /\
  json_to_tag (JObj [("kind"%string, JStr "fs"); ("full"%string, JStr "Bogus(1)")]) = Some (TFek EventKind_Other).
Proof. vm_compute. repeat split; reflexivity. Qed.
