(* C19 -- signal names and exit statuses convert consistently.  Proofs: Codec/SignalsProofs.v *)
From Coq Require Import List NArith ZArith String Ascii Bool.
From WX Require Import Base.Show Base.Bytes Gen.Signals_gen Codec.Signals Codec.SignalsProofs.
Import ListNotations.

(* every signal that denotes an OS signal n displays as a string that parses to a signal denoting n *)
Theorem C19_display_parse : forall (s : signal) (n : Z),
  to_nix s = Some n -> exists s', from_str (display s) = Some s' /\ to_nix s' = Some n.
Proof. exact display_parse. Qed.
Print Assumptions C19_display_parse.

(* parsing is case-insensitive, for all strings *)
Theorem C19_case_insensitive : forall a b : string,
  to_upper a = to_upper b -> from_str a = from_str b.
Proof. exact case_insensitive. Qed.
Print Assumptions C19_case_insensitive.

(* short name, SIG-prefixed name and number agree for every platform signal, except for short names
   that are Windows control names *)
Theorem C19_spellings_agree : forall (name : string) (n : Z),
  In (name, n) nix_table ->
  name = ("SIG" ++ drop3 name)%string /\
  (find (fun w => String.eqb (fst w) (drop3 name)) windows_tab = None -> from_str (drop3 name) = from_str name) /\
  from_str name = from_str (show_Z n) /\
  exists s, from_str name = Some s /\ to_nix s = Some n.
Proof. exact spellings_agree. Qed.
Print Assumptions C19_spellings_agree.

Theorem C19_windows_precedence : forall (w : string) (t : sigtag) (s : string),
  In (w, t) windows_tab -> to_upper s = w -> from_str s = Some (First t).
Proof. exact windows_precedence. Qed.
Print Assumptions C19_windows_precedence.

Theorem C19_posix_numbers :
  to_nix (First S_Hangup) = Some 1%Z /\ to_nix (First S_Interrupt) = Some 2%Z /\
  to_nix (First S_Quit) = Some 3%Z /\ to_nix (First S_ForceStop) = Some 9%Z /\
  to_nix (First S_User1) = Some 10%Z /\ to_nix (First S_User2) = Some 12%Z /\
  to_nix (First S_Terminate) = Some 15%Z.
Proof. exact posix_numbers. Qed.
Print Assumptions C19_posix_numbers.

Theorem C19_from_i32_inverse : forall t n, to_nix (First t) = Some n -> from_i32 n = First t.
Proof. exact from_i32_inverse. Qed.
Print Assumptions C19_from_i32_inverse.

Theorem C19_from_i32_same_os_signal : forall n nm, nix_try_from n = Some nm -> to_nix (from_i32 n) = Some n.
Proof. exact from_i32_same_os_signal. Qed.
Print Assumptions C19_from_i32_same_os_signal.

(* exit status -> ProcessEnd preserves success, the exit code ... *)
Theorem C19_exit_codes : forall c : N, (c < 256)%N ->
  process_end_of (c * 256) = Some (if N.eqb c 0 then Success else ExitError (Z.of_N c)).
Proof. exact exited_codes. Qed.
Print Assumptions C19_exit_codes.

(* ... and the terminating signal, with or without the core-dump bit *)
Theorem C19_exit_signals : forall sg core : N, (1 <= sg)%N -> (sg < 127)%N -> (core < 2)%N ->
  process_end_of (sg + 128 * core) = Some (ExitSignal (from_i32 (Z.of_N sg))).
Proof. exact signaled_status. Qed.
Print Assumptions C19_exit_signals.

Theorem C19_into_exitstatus_roundtrip : forall c : N, (c < 256)%N ->
  let p := if N.eqb c 0 then Success else ExitError (Z.of_N c) in
  match into_wait p with Some w => process_end_of w = Some p | None => False end.
Proof. exact into_from_roundtrip_codes. Qed.
Print Assumptions C19_into_exitstatus_roundtrip.

Theorem C19_map_signal : forall a b : string, has_char ":" a = false ->
  parse_map_signal (a ++ String ":" b) =
  match from_str a with
  | None => MapErr
  | Some f => match b with
              | EmptyString => MapOk f None
              | _ => match from_str b with Some t => MapOk f (Some t) | None => MapErr end
              end
  end.
Proof. exact map_signal_spec. Qed.
Print Assumptions C19_map_signal.

Theorem C19_map_signal_needs_colon : forall v, has_char ":" v = false -> parse_map_signal v = MapErr.
Proof. exact map_signal_needs_colon. Qed.
Print Assumptions C19_map_signal_needs_colon.

Example C19_example :
  from_str "sTop" = Some (First S_ForceStop) /\ from_str "sigstop" = Some (Custom 19) /\
  from_str "19" = Some (Custom 19) /\ from_str "usr1" = Some (First S_User1) /\
  process_end_of 139 = Some (ExitSignal (Custom 11)) /\
  parse_map_signal "hup:" = MapOk (First S_Hangup) None.
Proof. vm_compute. repeat split; reflexivity. Qed.
