(* C02 -- debounce: one action per window, never before the window has elapsed.
   Proofs: Worker/ThrottleProofs.v.  Times are those of an ideal clock; the real clock reads are never earlier. *)
From Coq Require Import List NArith Bool.
From WX Require Import Worker.Throttle Worker.ThrottleProofs Worker.ThrottleRt Worker.ThrottleRtProofs Gen.EventNames_gen.
Import ListNotations.
Open Scope N_scope.

Theorem C02_lower_bound : forall l th,
  (forall x, In x l -> snd (fst x) = th) -> mono 0 l ->
  forall b, In b (collect l th) -> b_urgent b = false -> b_first b + th <= b_deliver b.
Proof. exact lower_bound_const. Qed.
Print Assumptions C02_lower_bound.

(* no starvation in the model: on the ideal clock the batch goes out exactly at first + throttle, whatever rejected or erroring
   events keep arriving (the real clock adds the latency measured by the harness) *)
Theorem C02_upper_bound : forall l th,
  (forall x, In x l -> snd (fst x) = th) ->
  forall b, In b (collect l th) -> b_urgent b = false -> b_deliver b <= b_first b + th.
Proof. exact upper_bound_const. Qed.
Print Assumptions C02_upper_bound.

Theorem C02_delivery_time_exact : forall l th,
  (forall x, In x l -> snd (fst x) = th) -> mono 0 l ->
  forall b, In b (collect l th) -> b_urgent b = false -> b_deliver b = b_first b + th.
Proof. exact delivery_time_exact. Qed.
Print Assumptions C02_delivery_time_exact.

(* ---- the throttle changed at run time (Worker/ThrottleRt.v: inputs are events and configuration changes; a loop turn reads
   the value configured then, the time-out in progress was computed from the value read at the previous turn) *)
Theorem C02_runtime_machine_is_the_same_when_constant : forall th (l : list (N * ev)),
  proj (rt_run th (map (fun x => IEv (fst x) (snd x)) l)) = run_events (map (fun x => (fst x, th, snd x)) l) /\
  rt_collect th (map (fun x => IEv (fst x) (snd x)) l) = collect (map (fun x => (fst x, th, snd x)) l) th.
Proof. exact rt_const. Qed.
Print Assumptions C02_runtime_machine_is_the_same_when_constant.

Theorem C02_lower_bound_runtime : forall init l,
  rmono 0 l -> forall b, In b (rt_collect init l) -> b_urgent b = false ->
  exists v, In v (cfg_values init l) /\ b_first b + v <= b_deliver b.
Proof. exact rt_lower_bound. Qed.
Print Assumptions C02_lower_bound_runtime.

Theorem C02_runtime_conservation : forall init l, concat (map b_ids (rt_collect init l)) = rinputs_ok l.
Proof. exact rt_conservation_all. Qed.
Print Assumptions C02_runtime_conservation.

Theorem C02_urgent_flush : forall s R th e,
  e_urgent e = true ->
  let s' := on_event s (R, th, e) in
  t_set s' = [] /\ exists b rest, t_out s' = b :: rest /\ b_urgent b = true /\ b_deliver b = R /\ last (b_ids b) 0 = e_id e.
Proof. exact urgent_flushes. Qed.
Print Assumptions C02_urgent_flush.

Theorem C02_zero_throttle : forall s R e,
  t_set s = [] -> accepted e = true -> errors_on e = false ->
  let s' := on_event s (R, 0, e) in
  t_set s' = [] /\ exists rest u, t_out s' = mkB R R u [e_id e] :: rest.
Proof. exact zero_throttle. Qed.
Print Assumptions C02_zero_throttle.

(* a batch that is closed by the window running out is delivered exactly at first + throttle (ideal clock),
   whatever rejected or erroring events were received meanwhile: they never touch the set or its window *)
Theorem C02_timeout_close_time : forall s R th b,
  In b (t_out (flush_timeout s R th)) ->
  In b (t_out s) \/ (b_first b = t_last s /\ b_deliver b = t_last s + th /\ b_urgent b = false /\ t_last s + th < R).
Proof. exact flush_deliver_time. Qed.
Print Assumptions C02_timeout_close_time.

Theorem C02_rejected_leave_window_alone : forall s R th e,
  accepted e = false ->
  t_set (on_event s (R, th, e)) = t_set (flush_timeout s R th) /\ t_last (on_event s (R, th, e)) = t_last (flush_timeout s R th) /\
  t_out (on_event s (R, th, e)) = t_out (flush_timeout s R th).
Proof.
  intros s R th e A. unfold on_event. destruct (errors_on e); [repeat split; reflexivity|]. rewrite A. repeat split; reflexivity.
Qed.
Print Assumptions C02_rejected_leave_window_alone.

(* the priority order used by the queue, from the declaration order in events/src/event.rs *)
Theorem C02_priority_order : all_Priority = [Prio_Low; Prio_Normal; Prio_High; Prio_Urgent].
Proof. reflexivity. Qed.
Print Assumptions C02_priority_order.
