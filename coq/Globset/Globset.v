(* Model of filterer/globset/src/lib.rs: GlobsetFilterer::{new, check_event} (unix). *)
From Coq Require Import List NArith String Ascii Bool.
From WX Require Import Base.Bytes Glob.Glob Glob.Gitignore Ignore.IgnoreFilter.
Import ListNotations.
Open Scope string_scope.

Record gsf : Type := mkGsf {
  gs_origin : string;
  gs_filters : gitignore;
  gs_ignores : gitignore;
  gs_whitelist : list string;
  gs_ignore_files : ifilter;
  gs_exts : list string }.

(* builder.add_line(in_path, pattern) for every (pattern, in_path) *)
Definition compile_pats (origin : string) (ps : list (string * option string)) : gitignore :=
  mkGi origin (flat_map (fun p => match add_line (snd p) (fst p) with Some g => [g] | None => [] end) ps).

Definition gsf_new (origin : string) (filters ignores : list (string * option string))
           (whitelist : list string) (files : list ifile) (exts : list string) : gsf :=
  mkGsf origin (compile_pats origin filters) (compile_pats origin ignores) whitelist
        (filter_new origin files) exts.

Definition num_ignores (g : gitignore) : nat := List.length (filter (fun x => negb (g_white x)) (gi_globs g)).

(* Path::file_name / Path::extension on a clean path string *)
Fixpoint after_last (sep : ascii) (s : string) (cur : string) (seen : bool) : option string :=
  match s with
  | EmptyString => if seen then Some cur else None
  | String c r => if Ascii.eqb c sep then after_last sep r EmptyString true
                  else after_last sep r (cur ++ String c EmptyString) seen
  end.
Definition file_name (p : string) : option string :=
  let n := match after_last "/" p EmptyString false with Some x => x | None => p end in
  if orb (String.eqb n "") (String.eqb n "..") then None else Some n.
Definition extension (p : string) : option string :=
  match file_name p with
  | None => None
  | Some n =>
      match n with
      | String "." r => match after_last "." r EmptyString false with Some e => Some e | None => None end
      | _ => after_last "." n EmptyString false
      end
  end.

Section Matcher.
  Variable gm : string -> string -> bool.

  Definition is_ignore (m : gmatch) : bool := match m with MIgnore _ => true | _ => false end.

  Definition ignored (f : gsf) (p : string) (is_dir : bool) : bool :=
    is_ignore (matched gm (gs_ignores f) p is_dir).

  (* a filter pattern matches the path, or (1.x compatibility) the path rebased as origin//rest *)
  Definition filter_match (f : gsf) (p : string) (is_dir : bool) : bool :=
    is_ignore (matched gm (gs_filters f) p is_dir) ||
    (if is_under (gs_origin f) p then
       match strip_prefix (gs_origin f) p with
       | Some rest =>
           let based := match strip_prefix "/" rest with Some b => b | None => rest end in
           is_ignore (matched gm (gs_filters f) (gs_origin f ++ "//" ++ based) is_dir)
       | None => false
       end
     else false).

  Definition has_ext (f : gsf) (p : string) : bool :=
    match extension p with Some e => mem_str e (gs_exts f) | None => false end.

  (* the closure passed to paths.any(...) *)
  Definition path_passes (f : gsf) (pd : string * bool) : bool :=
    let (p, is_dir) := pd in
    if ignored f p is_dir then false else
    let filters_on := Nat.ltb 0 (num_ignores (gs_filters f)) in
    if andb filters_on (filter_match f p is_dir) then true else
    match gs_exts f with
    | [] => negb filters_on
    | _ =>
        if is_dir then false else
        match extension p with
        | Some e => if mem_str e (gs_exts f) then true else false
        | None => false
        end
    end.

  Definition gs_check_event (f : gsf) (paths : list (string * bool)) : bool :=
    if existsb (fun pd => mem_str (fst pd) (gs_whitelist f)) paths then true
    else if negb (check_event gm true (gs_ignore_files f) paths) then false
    else match paths with
         | [] => true
         | _ => existsb (path_passes f) paths
         end.

  (* ---- the sentence of the property as a formula ---- *)
  Definition configured (f : gsf) : bool :=
    orb (Nat.ltb 0 (num_ignores (gs_filters f))) (match gs_exts f with [] => false | _ => true end).

  Definition spec_formula (f : gsf) (paths : list (string * bool)) : bool :=
    match paths with
    | [] => true
    | _ =>
      if existsb (fun pd => mem_str (fst pd) (gs_whitelist f)) paths then true
      else if negb (check_event gm true (gs_ignore_files f) paths) then false
      else existsb (fun pd => negb (ignored f (fst pd) (snd pd)) &&
                              (negb (configured f) ||
                               (Nat.ltb 0 (num_ignores (gs_filters f)) && filter_match f (fst pd) (snd pd)) ||
                               (negb (snd pd) && has_ext f (fst pd)))) paths
    end.
End Matcher.

(* ---- CLI layer (cli/src/filterer.rs): fs-event-kind filter in front of the globset filterer ---- *)
