(* cli/src/filterer.rs WatchexecFilterer::check_event: the fs-event-kind filter in front of the globset
   filterer (filter programs are not modelled). *)
From Coq Require Import List NArith String Ascii Bool.
From WX Require Import Gen.FsKinds_gen Gen.CliFilter_gen.
Import ListNotations.

Definition kinds_allowed (allowed : list FsEvent) (kinds : list EventKind) : bool :=
  forallb (fun k => match fs_event_of k with
                    | Some e => existsb (FsEvent_eqb e) allowed
                    | None => true
                    end) kinds.

Definition cli_check (allowed : list FsEvent) (kinds : list EventKind) (inner : bool) : bool :=
  if kinds_allowed allowed kinds then inner else false.

Lemma FsEvent_eqb_eq a b : FsEvent_eqb a b = true <-> a = b.
Proof. destruct a, b; simpl; split; intro H; try reflexivity; discriminate. Qed.

(* an event passes the CLI layer iff every classifiable kind tag is allowed and the globset filterer passes *)
Lemma cli_layer allowed kinds inner :
  cli_check allowed kinds inner = true <->
  (forall k e, In k kinds -> fs_event_of k = Some e -> In e allowed) /\ inner = true.
Proof.
  unfold cli_check, kinds_allowed. split.
  - destruct (forallb _ kinds) eqn:E; [|discriminate]. intro H. split; [|exact H].
    rewrite forallb_forall in E. intros k e Hk He. specialize (E k Hk). rewrite He in E.
    apply existsb_exists in E. destruct E as (x & Hx & Hq). apply FsEvent_eqb_eq in Hq. subst. exact Hx.
  - intros [H ->]. assert (forallb (fun k => match fs_event_of k with Some e => existsb (FsEvent_eqb e) allowed | None => true end) kinds = true) as ->; [|reflexivity].
    apply forallb_forall. intros k Hk. destruct (fs_event_of k) as [e|] eqn:E; [|reflexivity].
    apply existsb_exists. exists e. split; [eapply H; eassumption | apply FsEvent_eqb_eq; reflexivity].
Qed.

(* the normalisation is defined on every kind: only Any and Other are unclassified *)
Lemma fs_event_total k : fs_event_of k = None <-> (k = EventKind_Any \/ k = EventKind_Other).
Proof.
  split.
  - destruct k as [|a|c|mk|r|]; simpl; intro H; try discriminate H; auto. destruct mk; discriminate H.
  - intros [->| ->]; reflexivity.
Qed.
