From Coq Require Import List NArith String Ascii Bool Lia.
From WX Require Import Base.Bytes Glob.Glob Glob.Gitignore Ignore.IgnoreFilter Globset.Globset.
Import ListNotations.
Open Scope string_scope.
Open Scope list_scope.

Section Matcher.
  Variable gm : string -> string -> bool.

  Lemma path_passes_formula f pd :
    path_passes gm f pd =
    negb (ignored gm f (fst pd) (snd pd)) &&
      (negb (configured f) ||
       (Nat.ltb 0 (num_ignores (gs_filters f)) && filter_match gm f (fst pd) (snd pd)) ||
       (negb (snd pd) && has_ext f (fst pd))).
  Proof.
    destruct pd as [p d]. unfold path_passes, configured, has_ext. simpl fst. simpl snd.
    destruct (ignored gm f p d); [reflexivity|]. simpl negb. rewrite andb_true_l.
    destruct (Nat.ltb 0 (num_ignores (gs_filters f))); destruct (filter_match gm f p d);
      destruct (gs_exts f) as [|e es]; destruct d; destruct (extension p) as [x|]; cbn [negb andb orb];
      try reflexivity; try (destruct (mem_str x (e :: es)); reflexivity); try (destruct (mem_str x []); reflexivity).
  Qed.

  Theorem verdict_formula f paths : gs_check_event gm f paths = spec_formula gm f paths.
  Proof.
    unfold gs_check_event, spec_formula. destruct paths as [|pd r]; [reflexivity|].
    destruct (existsb _ (pd :: r)); [reflexivity|].
    destruct (negb (check_event gm true (gs_ignore_files f) (pd :: r))); [reflexivity|].
    generalize (pd :: r). intro l. induction l as [|x l IH]; simpl; [reflexivity|].
    rewrite IH, path_passes_formula. reflexivity.
  Qed.

  Theorem no_path_passes f : gs_check_event gm f [] = true.
  Proof. reflexivity. Qed.

  Theorem whitelisted_passes f paths p d :
    In (p, d) paths -> In p (gs_whitelist f) -> gs_check_event gm f paths = true.
  Proof.
    intros Hin Hw. unfold gs_check_event.
    assert (existsb (fun pd => mem_str (fst pd) (gs_whitelist f)) paths = true) as ->; [|reflexivity].
    apply existsb_exists. exists (p, d). split; [exact Hin | apply mem_str_In; exact Hw].
  Qed.

  Theorem ignore_precedence f p d : ignored gm f p d = true -> path_passes gm f (p, d) = false.
  Proof. intro H. unfold path_passes. rewrite H. reflexivity. Qed.

  (* an event whose every path is matched by an ignore pattern is rejected whatever the filters say *)
  Corollary all_ignored_rejected f paths :
    paths <> [] -> (forall pd, In pd paths -> ~ In (fst pd) (gs_whitelist f)) ->
    (forall pd, In pd paths -> ignored gm f (fst pd) (snd pd) = true) -> gs_check_event gm f paths = false.
  Proof.
    intros Hne Hw Hi. unfold gs_check_event.
    assert (existsb (fun pd => mem_str (fst pd) (gs_whitelist f)) paths = false) as ->.
    { apply not_true_is_false. intro E. apply existsb_exists in E. destruct E as (pd & Hin & Hm).
      apply mem_str_In in Hm. exact (Hw pd Hin Hm). }
    destruct (negb (check_event gm true (gs_ignore_files f) paths)); [reflexivity|].
    destruct paths as [|x r]; [contradiction|].
    apply not_true_is_false. intro E. apply existsb_exists in E. destruct E as ([p d] & Hin & Hp).
    rewrite ignore_precedence in Hp; [discriminate | apply (Hi (p, d) Hin)].
  Qed.

  (* empty configuration *)
  Lemma matched_empty root p d : matched gm (mkGi root []) p d = MNone.
  Proof. reflexivity. Qed.

  Lemma check_paths_init_passes origin ps pass :
    check_paths gm true (filter_init origin) ps pass = pass.
  Proof.
    revert pass. induction ps as [|[p d] r IH]; intro pass; simpl; [reflexivity|].
    assert (match_path gm true (filter_init origin) p d = MNone) as ->; [|apply IH].
    unfold match_path. generalize (S (String.length p)) at 1. intro n.
    assert (forall n s, match_loop gm true n (filter_init origin) p d s = MNone) as Z.
    { clear. induction n as [|n IH]; intro s; [reflexivity|].
      cbn [match_loop]. unfold filter_init at 1. cbn [f_nodes longest_prefix_key].
      destruct (prefixb "/" s); [|reflexivity].
      assert (path_parent "/" = None) as -> by reflexivity.
      assert (eval_node gm (filter_init origin) (mkGi origin []) p d = MNone) as ->
        by (unfold eval_node, matched_or_parents, matched; simpl; destruct (is_under origin p); reflexivity).
      destruct (true && negb (is_under "/" p)); reflexivity. }
    apply Z.
  Qed.

  Theorem empty_config_passes origin paths :
    gs_check_event gm (gsf_new origin [] [] [] [] []) paths = true.
  Proof.
    unfold gs_check_event, gsf_new. simpl gs_whitelist. simpl gs_ignore_files.
    assert (existsb (fun pd : string * bool => mem_str (fst pd) []) paths = false) as ->
      by (induction paths; simpl; auto).
    unfold check_event, filter_new. simpl fold_left. rewrite check_paths_init_passes. simpl negb.
    destruct paths as [|[p d] r]; [reflexivity|].
    cbn [existsb]. assert (path_passes gm (mkGsf origin (compile_pats origin []) (compile_pats origin []) [] (filter_init origin) []) (p, d) = true) as -> by reflexivity.
    reflexivity.
  Qed.

  (* ---- monotonicity of ignore patterns ---- *)
  Lemma last_match_insert_ignore g pre post p d acc :
    g_white g = false ->
    is_ignore (last_match gm (pre ++ post) p d acc) = true ->
    is_ignore (last_match gm (pre ++ g :: post) p d acc) = true.
  Proof.
    intros Hg. revert acc. induction pre as [|x pre IH]; intros acc H; simpl in *.
    - (* g is consulted first, then post as before, starting from an accumulator that is Ignore or acc *)
      set (acc' := if gm (g_actual g) p && (negb (g_onlydir g) || d) then (if g_white g then MWhite g else MIgnore g) else acc).
      assert (forall a b, is_ignore (last_match gm post p d a) = true ->
                (is_ignore b = true \/ b = a) -> is_ignore (last_match gm post p d b) = true) as Mono.
      { clear. induction post as [|y post IH]; intros a b Ha Hb; simpl in *.
        - destruct Hb as [Hb| ->]; assumption.
        - destruct (gm (g_actual y) p && (negb (g_onlydir y) || d)).
          + exact Ha.
          + eapply IH; eassumption. }
      apply (Mono acc acc' H). unfold acc'.
      destruct (gm (g_actual g) p && (negb (g_onlydir g) || d)); [left; rewrite Hg; reflexivity | right; reflexivity].
    - apply IH. exact H.
  Qed.

  Lemma ignored_insert f g pre post p d :
    g_white g = false -> gi_globs (gs_ignores f) = pre ++ post ->
    ignored gm f p d = true ->
    ignored gm (mkGsf (gs_origin f) (gs_filters f) (mkGi (gi_root (gs_ignores f)) (pre ++ g :: post))
                      (gs_whitelist f) (gs_ignore_files f) (gs_exts f)) p d = true.
  Proof.
    intros Hg He H. unfold ignored, matched, matched_stripped in *. cbn [gs_ignores gi_globs gi_root].
    rewrite He in H.
    destruct (pre ++ post) as [|a' b'] eqn:Epp; [discriminate H|]. rewrite <- Epp in H.
    destruct (pre ++ g :: post) as [|a b] eqn:Epg; [destruct pre; discriminate|]. rewrite <- Epg.
    apply last_match_insert_ignore; assumption.
  Qed.

  (* adding a non-negated ignore pattern, at any position, can only turn passes into rejections *)
  Theorem monotone f g pre post paths :
    g_white g = false -> gi_globs (gs_ignores f) = pre ++ post ->
    gs_check_event gm (mkGsf (gs_origin f) (gs_filters f) (mkGi (gi_root (gs_ignores f)) (pre ++ g :: post))
                             (gs_whitelist f) (gs_ignore_files f) (gs_exts f)) paths = true ->
    gs_check_event gm f paths = true.
  Proof.
    intros Hg He. unfold gs_check_event. simpl gs_whitelist. simpl gs_ignore_files.
    destruct (existsb _ paths); [reflexivity|].
    destruct (negb (check_event gm true (gs_ignore_files f) paths)); [discriminate|].
    destruct paths as [|x r]; [reflexivity|].
    intro H. apply existsb_exists in H. destruct H as ([p d] & Hin & Hp). apply existsb_exists.
    exists (p, d). split; [exact Hin|].
    unfold path_passes in *. simpl gs_filters in Hp. simpl gs_exts in Hp.
    destruct (ignored gm f p d) eqn:Ei.
    - rewrite (ignored_insert f g pre post p d Hg He Ei) in Hp. discriminate.
    - destruct (ignored gm _ p d); [discriminate|].
      unfold filter_match in *. simpl gs_filters in Hp. simpl gs_origin in Hp. exact Hp.
  Qed.
End Matcher.
