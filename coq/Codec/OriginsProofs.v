From Coq Require Import List NArith String Ascii Bool Lia.
From WX Require Import Base.Bytes Gen.Origins_gen Codec.Origins.
Import ListNotations.
Open Scope list_scope.

Lemma ntype_eqb_eq a b : ntype_eqb a b = true <-> a = b.
Proof. destruct a, b; simpl; split; intro H; try reflexivity; discriminate. Qed.

Lemma mkind_eqb_eq a b : mkind_eqb a b = true <-> a = b.
Proof. destruct a, b; simpl; split; intro H; try reflexivity; discriminate. Qed.

Lemma ptype_eqb_eq a b : ptype_eqb a b = true <-> a = b.
Proof. destruct a, b; simpl; split; intro H; try reflexivity; discriminate. Qed.

Lemma has_node_is k l n : has k l n = true <-> node_is k l n.
Proof.
  unfold has, node_is. destruct (lookup l n) as [t|].
  - rewrite ntype_eqb_eq. split; [intros ->; reflexivity | intro H; inversion H; reflexivity].
  - split; discriminate.
Qed.

Lemma check_list_marked l : check_list l = true <-> is_marked l.
Proof.
  unfold check_list, is_marked. destruct l as [|e r].
  - split; [discriminate|]. intros (k & n & _ & H). unfold node_is in H. simpl in H. discriminate.
  - rewrite existsb_exists. split.
    + intros ([k n] & Hin & Hh). exists k, n. split; [exact Hin|]. apply has_node_is. exact Hh.
    + intros (k & n & Hin & Hh). exists (k, n). split; [exact Hin|]. apply has_node_is. exact Hh.
Qed.

Lemma origins_exact fs p q :
  In q (origins fs p) <-> In q (chain p) /\ is_marked (fs q).
Proof. unfold origins. rewrite filter_In, check_list_marked. tauto. Qed.

(* the chain is exactly the path and the paths obtained by dropping trailing components *)
Lemma ancestors_rc_spec a rc q :
  In q (ancestors_rc a rc) <-> exists d, d <> [] /\ rc = d ++ snd q /\ fst q = a.
Proof.
  revert q. induction rc as [|c r IH]; intros q; simpl.
  - split; [tauto|]. intros (d & Hd & He & _). destruct d; [congruence | discriminate].
  - split.
    + intros [<-|H].
      * exists [c]. simpl. repeat split; congruence.
      * apply IH in H. destruct H as (d & Hd & -> & Ha). exists (c :: d). simpl. repeat split; congruence.
    + intros (d & Hd & He & Ha). destruct d as [|c' d]; [congruence|]. simpl in He. inversion He; subst.
      destruct d as [|c'' d].
      * left. destruct q; simpl in *; subst; reflexivity.
      * right. apply IH. exists (c'' :: d). repeat split; congruence.
Qed.

Lemma chain_spec p q :
  In q (chain p) <-> fst q = fst p /\ exists d, snd p = d ++ snd q.
Proof.
  unfold chain, ancestors. simpl. rewrite ancestors_rc_spec. split.
  - intros [<-|(d & _ & He & Ha)]; [split; [reflexivity | exists []; reflexivity]|].
    split; [exact Ha | exists d; exact He].
  - intros (Ha & d & He). destruct d as [|c d].
    + left. destruct p, q; simpl in *; subst; reflexivity.
    + right. exists (c :: d). repeat split; [discriminate | exact He | exact Ha].
Qed.

Lemma wrong_node_type k l n t :
  lookup l n = Some t -> t <> ntype_of k -> has k l n = false.
Proof.
  intros Hl Hn. unfold has. rewrite Hl. destruct (ntype_eqb t (ntype_of k)) eqn:E; [|reflexivity].
  apply ntype_eqb_eq in E. contradiction.
Qed.

Lemma nodup_pt_In x l : In x (nodup_pt l) <-> In x l.
Proof.
  induction l as [|y r IH]; simpl; [tauto|].
  destruct (existsb (ptype_eqb y) r) eqn:E.
  - rewrite IH. split; [auto|]. intros [<-|H]; [|exact H].
    apply existsb_exists in E. destruct E as (z & Hz & Hy). apply ptype_eqb_eq in Hy. subst. exact Hz.
  - simpl. rewrite IH. tauto.
Qed.

Lemma nodup_pt_NoDup l : NoDup (nodup_pt l).
Proof.
  induction l as [|y r IH]; simpl; [constructor|].
  destruct (existsb (ptype_eqb y) r) eqn:E; [exact IH|].
  constructor; [|exact IH]. rewrite nodup_pt_In. intro H.
  assert (existsb (ptype_eqb y) r = true) as C.
  { apply existsb_exists. exists y. split; [exact H | apply ptype_eqb_eq; reflexivity]. }
  congruence.
Qed.

Lemma types_exact l t :
  In t (types l) <-> exists k n, In (k, n, t) type_markers /\ node_is k l n.
Proof.
  unfold types, types_raw. rewrite nodup_pt_In, in_flat_map. split.
  - intros ([[k n] t'] & Hin & Ht). destruct (has k l n) eqn:E; [|contradiction].
    destruct Ht as [<-|[]]. exists k, n. split; [exact Hin | apply has_node_is; exact E].
  - intros (k & n & Hin & Hn). exists (k, n, t). split; [exact Hin|].
    apply has_node_is in Hn. rewrite Hn. left. reflexivity.
Qed.

Lemma tm_eqb_eq a b : tm_eqb a b = true <-> a = b.
Proof.
  destruct a as [[k n] t], b as [[k' n'] t']. unfold tm_eqb.
  rewrite !andb_true_iff, mkind_eqb_eq, String.eqb_eq, ptype_eqb_eq.
  split; [intros [[-> ->] ->]; reflexivity | intro H; inversion H; auto].
Qed.

Lemma om_eqb_eq a b : om_eqb a b = true <-> a = b.
Proof.
  destruct a as [k n], b as [k' n']. unfold om_eqb. simpl.
  rewrite andb_true_iff, mkind_eqb_eq, String.eqb_eq.
  split; [intros [-> ->]; reflexivity | intro H; inversion H; auto].
Qed.

Definition subset_tm (a b : list (mkind * string * ptype)) : bool :=
  forallb (fun x => existsb (tm_eqb x) b) a.

Lemma subset_tm_spec a b : subset_tm a b = true -> forall x, In x a -> In x b.
Proof.
  unfold subset_tm. rewrite forallb_forall. intros H x Hx. specialize (H x Hx).
  apply existsb_exists in H. destruct H as (y & Hy & E). apply tm_eqb_eq in E. subst. exact Hy.
Qed.

(* the table in the source is the documented one (as sets) *)
Lemma type_markers_documented m : In m type_markers <-> In m doc_type_markers.
Proof.
  split; apply subset_tm_spec; vm_compute; reflexivity.
Qed.

(* every marker that yields a project type also makes the directory an origin *)
Lemma type_marker_is_origin_marker k n t : In (k, n, t) type_markers -> In (k, n) origin_markers.
Proof.
  assert (forallb (fun m => existsb (om_eqb (fst m)) origin_markers) type_markers = true) as H
    by (vm_compute; reflexivity).
  rewrite forallb_forall in H. intro Hin. specialize (H _ Hin). cbv beta in H.
  apply existsb_exists in H. destruct H as (y & Hy & E). apply om_eqb_eq in E. subst. exact Hy.
Qed.

Lemma typed_dir_is_origin l t : In t (types l) -> is_marked l.
Proof.
  rewrite types_exact. intros (k & n & Hin & Hn). exists k, n. split; [|exact Hn].
  eapply type_marker_is_origin_marker. exact Hin.
Qed.

Lemma all_ptypes_complete t : In t all_ptypes.
Proof. destruct t; vm_compute; tauto. Qed.

Lemma classification t : is_vcs t = negb (is_soft t).
Proof. destruct t; reflexivity. Qed.
