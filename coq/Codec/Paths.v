(* Model of crates/lib/src/paths.rs (common_prefix, summarise_events_to_env) and of
   cli/src/emits.rs::events_to_simple_format.  A path is its std::path component list; the root
   component is the string "/" (no normal component can contain a slash). *)
From Coq Require Import List NArith String Ascii Bool.
From WX Require Import Base.Show Base.Bytes Base.BytesProofs Gen.FsKinds_gen Gen.PathCats_gen.
Import ListNotations.
Open Scope string_scope.

Definition path := list string.

Definition render_path (p : path) : string :=
  match p with
  | "/" :: r => "/" ++ sep_by "/" r
  | _ => sep_by "/" p
  end.

(* Path::components() of a string: split on '/', empty pieces and "." dropped, leading '/' = root *)
Definition parse_path (s : string) : path :=
  let pieces := filter (fun c => negb (orb (String.eqb c "") (String.eqb c "."))) (split_on "/" s) in
  if prefixb "/" s then "/" :: pieces else pieces.

(* Path::parent *)
Definition parent (p : path) : option path :=
  match p with
  | [] => None
  | x :: r =>
      if andb (String.eqb x "/") (match r with [] => true | _ => false end) then None
      else Some (removelast p)
  end.

Record pev : Type := mkPev { pv_paths : list (path * bool) ; pv_kinds : list EventKind }.

(* the "trunk": the directory itself, or the parent of a non-directory (the path when it has none) *)
Definition trunk (pd : path * bool) : path :=
  if snd pd then fst pd else match parent (fst pd) with Some q => q | None => fst pd end.

Fixpoint common_len (a b : path) : nat :=
  match a, b with
  | x :: a', y :: b' => if String.eqb x y then S (common_len a' b') else O
  | _, _ => O
  end.

(* one turn of common_prefix's loop: truncate `longest` to the components shared with `p` *)
Definition cp_step (longest p : path) : path := firstn (common_len p longest) longest.

Definition common_prefix (l : list path) : option path :=
  match l with
  | [] => None
  | f :: r => match fold_left cp_step r f with [] => None | q => Some q end
  end.

Fixpoint strip (pre p : path) : option path :=
  match pre with
  | [] => Some p
  | x :: pre' => match p with
                 | y :: p' => if String.eqb x y then strip pre' p' else None
                 | [] => None
                 end
  end.

Definition all_trunks (b : list pev) : list path := flat_map (fun e => map trunk (pv_paths e)) b.
Definition common_of (b : list pev) : option path := common_prefix (all_trunks b).

(* kind buckets, flattened: one (kind, path) pair per kind tag and path of an event *)
Definition pairs (b : list pev) : list (EventKind * path) :=
  flat_map (fun e => flat_map (fun k => map (fun pd => (k, fst pd)) (pv_paths e)) (pv_kinds e)) b.

Definition entry (common : option path) (p : path) : string :=
  match common with
  | Some pre => match strip pre p with Some suf => render_path suf | None => render_path p end
  | None => render_path p
  end.

Definition entries_of (b : list pev) (c : string) : list string :=
  sort_dedup (map (fun kp => entry (common_of b) (snd kp))
                  (filter (fun kp => String.eqb (path_category (fst kp)) c) (pairs b))).

Definition categories : list string :=
  ["CREATED"; "META_CHANGED"; "OTHERWISE_CHANGED"; "REMOVED"; "RENAMED"; "WRITTEN"].

(* the resulting map, as a list sorted by variable name (COMMON sorts first) *)
Definition summarise (b : list pev) : list (string * string) :=
  (match common_of b with Some c => [("COMMON", render_path c)] | None => [] end) ++
  flat_map (fun c => match filter (fun kp => String.eqb (path_category (fst kp)) c) (pairs b) with
                     | [] => []
                     | _ => [(c, sep_by path_separator (entries_of b c))]
                     end) categories.

(* ---- events_to_simple_format ---- *)
Definition simple_lines_of (e : pev) : list string :=
  flat_map (fun pd =>
    match pv_kinds e with
    | [] => [simple_prefix_nokind ++ ":" ++ render_path (fst pd)]
    | ks => map (fun k => simple_prefix k ++ ":" ++ render_path (fst pd)) ks
    end) (pv_paths e).
Definition simple_format (b : list pev) : list string := flat_map simple_lines_of b.
