From Coq Require Import List NArith ZArith String Ascii Bool Lia.
From WX Require Import Base.Show Base.Bytes Base.ListX Gen.Signals_gen Codec.Signals.
Import ListNotations.
Open Scope list_scope.

Definition optZ_eqb (a b : option Z) : bool :=
  match a, b with Some x, Some y => Z.eqb x y | None, None => true | _, _ => false end.
Lemma optZ_eqb_eq a b : optZ_eqb a b = true -> a = b.
Proof. destruct a, b; simpl; intro H; try discriminate; try reflexivity. apply Z.eqb_eq in H. congruence. Qed.

Definition optsig_eqb (a b : option signal) : bool :=
  match a, b with Some x, Some y => signal_eqb x y | None, None => true | _, _ => false end.
Lemma sigtag_eqb_eq a b : sigtag_eqb a b = true -> a = b.
Proof. destruct a, b; simpl; intro H; try discriminate; reflexivity. Qed.
Lemma signal_eqb_eq a b : signal_eqb a b = true -> a = b.
Proof.
  destruct a, b; simpl; intro H; try discriminate.
  - apply sigtag_eqb_eq in H. congruence.
  - apply Z.eqb_eq in H. congruence.
Qed.
Lemma optsig_eqb_eq a b : optsig_eqb a b = true -> a = b.
Proof. destruct a, b; simpl; intro H; try discriminate; try reflexivity. apply signal_eqb_eq in H. congruence. Qed.

(* ---------- display / parse round trip ---------- *)

Definition roundtrip_ok (s : signal) : bool :=
  match to_nix s with
  | None => true
  | Some n => match from_str (display s) with
              | Some s' => optZ_eqb (to_nix s') (Some n)
              | None => false
              end
  end.

Lemma roundtrip_first t : roundtrip_ok (First t) = true.
Proof. destruct t; vm_compute; reflexivity. Qed.

Lemma roundtrip_custom_table :
  forallb (fun e => roundtrip_ok (Custom (snd e))) nix_table = true.
Proof. vm_compute. reflexivity. Qed.

Lemma nix_try_from_In n nm : nix_try_from n = Some nm -> In (nm, n) nix_table.
Proof.
  unfold nix_try_from. destruct (find _ nix_table) as [e|] eqn:E; simpl; [|discriminate].
  intro H. inversion H; subst. apply find_some in E. destruct E as [Hin Heq].
  apply Z.eqb_eq in Heq. destruct e; simpl in *; subst. exact Hin.
Qed.

Lemma roundtrip_custom n : roundtrip_ok (Custom n) = true.
Proof.
  destruct (nix_try_from n) as [nm|] eqn:E.
  - apply nix_try_from_In in E. pose proof roundtrip_custom_table as H.
    rewrite forallb_forall in H. apply (H (nm, n) E).
  - unfold roundtrip_ok, to_nix. rewrite E. reflexivity.
Qed.

Lemma display_parse s n :
  to_nix s = Some n -> exists s', from_str (display s) = Some s' /\ to_nix s' = Some n.
Proof.
  intro H. assert (roundtrip_ok s = true) as R by (destruct s; [apply roundtrip_first | apply roundtrip_custom]).
  unfold roundtrip_ok in R. rewrite H in R. destruct (from_str (display s)) as [s'|]; [|discriminate].
  exists s'. split; [reflexivity|]. apply optZ_eqb_eq. exact R.
Qed.

(* ---------- case insensitivity ---------- *)

Definition plainc (c : ascii) : bool :=
  let n := N_of_ascii c in negb (andb (N.leb 97 n) (N.leb n 122)).

Lemma to_upper_ascii_inj_on_digits c d :
  to_upper_ascii c = d -> (digit_of d <> None \/ d = "+"%char \/ d = "-"%char) -> c = d.
Proof.
  destruct c as [b0 b1 b2 b3 b4 b5 b6 b7].
  destruct b0, b1, b2, b3, b4, b5, b6, b7; intros <-; vm_compute; intros [H|[H|H]];
    try reflexivity; try (exfalso; apply H; reflexivity); try discriminate.
Qed.

Fixpoint all_digits (s : string) : bool :=
  match s with EmptyString => true | String c r => match digit_of c with Some _ => all_digits r | None => false end end.

Lemma parse_digits_all s acc v : parse_digits s acc = Some v -> all_digits s = true.
Proof.
  revert acc. induction s as [|c r IH]; intros acc; simpl; [reflexivity|].
  destruct (digit_of c); [apply IH | discriminate].
Qed.

Lemma all_digits_upper_inj s b : all_digits s = true -> to_upper b = s -> b = s.
Proof.
  revert b. induction s as [|c r IH]; intros b Hd Hu.
  - destruct b; [reflexivity | discriminate].
  - destruct b as [|c' b']; [discriminate|]. simpl in Hu. inversion Hu as [[Hc Hr]].
    simpl in Hd. destruct (digit_of c) eqn:E; [|discriminate].
    assert (c' = c) as -> by (apply to_upper_ascii_inj_on_digits; [exact Hc | left; congruence]).
    rewrite Hc. f_equal. rewrite Hr. apply IH; [exact Hd | exact Hr].
Qed.

Definition numeric_shape (s : string) : bool :=
  match s with
  | EmptyString => false
  | String c r =>
      if Ascii.eqb c "+" then all_digits r
      else if Ascii.eqb c "-" then all_digits r
      else all_digits s
  end.

Lemma parse_body_all neg r v : parse_body neg r = Some v -> all_digits r = true.
Proof.
  unfold parse_body. destruct r as [|c0 r1]; [reflexivity|].
  destruct (parse_digits (String c0 r1) 0) eqn:E; [|discriminate]. intros _. eapply parse_digits_all. exact E.
Qed.

Lemma parse_i32_shape s v : parse_i32 s = Some v -> numeric_shape s = true.
Proof.
  unfold parse_i32, numeric_shape. destruct s as [|c r]; [discriminate|].
  destruct (Ascii.eqb c "+"); [apply parse_body_all|].
  destruct (Ascii.eqb c "-"); apply parse_body_all.
Qed.

Lemma all_digits_fixed s : all_digits s = true -> to_upper s = s.
Proof.
  induction s as [|c0 r0 IH]; simpl; [reflexivity|]. destruct (digit_of c0) eqn:E; [|discriminate].
  intro Hd. rewrite (IH Hd). f_equal.
  destruct c0 as [b0 b1 b2 b3 b4 b5 b6 b7].
  destruct b0, b1, b2, b3, b4, b5, b6, b7; try reflexivity; vm_compute in E; discriminate.
Qed.

Lemma numeric_fixed s : numeric_shape s = true -> to_upper s = s.
Proof.
  destruct s as [|c r]; [reflexivity|]. unfold numeric_shape.
  destruct (Ascii.eqb_spec c "+") as [->|_].
  { intro H. simpl. rewrite (all_digits_fixed _ H). reflexivity. }
  destruct (Ascii.eqb_spec c "-") as [->|_].
  { intro H. simpl. rewrite (all_digits_fixed _ H). reflexivity. }
  apply all_digits_fixed.
Qed.

Lemma numeric_upper_inj s b : numeric_shape s = true -> to_upper b = s -> b = s.
Proof.
  intros Hs Hu. destruct s as [|c r]; [discriminate|].
  destruct b as [|c' b']; [discriminate|]. simpl in Hu. inversion Hu as [[Hc Hr]].
  unfold numeric_shape in Hs.
  destruct (Ascii.eqb_spec c "+") as [->|_].
  { assert (c' = "+"%char) as -> by (apply to_upper_ascii_inj_on_digits; [exact Hc | right; left; reflexivity]).
    rewrite Hc. f_equal. rewrite Hr. apply all_digits_upper_inj; assumption. }
  destruct (Ascii.eqb_spec c "-") as [->|_].
  { assert (c' = "-"%char) as -> by (apply to_upper_ascii_inj_on_digits; [exact Hc | right; right; reflexivity]).
    rewrite Hc. f_equal. rewrite Hr. apply all_digits_upper_inj; assumption. }
  rewrite Hc, Hr. apply (all_digits_upper_inj (String c r) (String c' b') Hs). simpl. congruence.
Qed.

Lemma to_upper_idem s : to_upper (to_upper s) = to_upper s.
Proof.
  induction s as [|c r IH]; simpl; [reflexivity|]. rewrite IH. f_equal.
  destruct c as [b0 b1 b2 b3 b4 b5 b6 b7].
  destruct b0, b1, b2, b3, b4, b5, b6, b7; reflexivity.
Qed.


Lemma from_unix_str_case a b : to_upper a = to_upper b -> from_unix_str a = from_unix_str b.
Proof.
  intro H. unfold from_unix_str.
  destruct (parse_i32 a) as [va|] eqn:Ea.
  - pose proof (parse_i32_shape _ _ Ea) as Sa.
    assert (b = a) as -> by (apply numeric_upper_inj; [exact Sa | rewrite <- H; apply numeric_fixed; exact Sa]).
    rewrite Ea. reflexivity.
  - destruct (parse_i32 b) as [vb|] eqn:Eb.
    + pose proof (parse_i32_shape _ _ Eb) as Sb.
      assert (a = b) as -> by (apply numeric_upper_inj; [exact Sb | rewrite H; apply numeric_fixed; exact Sb]).
      rewrite Eb in Ea. discriminate.
    + rewrite H. reflexivity.
Qed.

Lemma case_insensitive a b : to_upper a = to_upper b -> from_str a = from_str b.
Proof.
  intro H. unfold from_str, from_windows_str. rewrite H.
  destruct (option_map _ _); [reflexivity|]. apply from_unix_str_case. exact H.
Qed.

(* ---------- the three spellings agree ---------- *)

Definition drop3 (s : string) : string :=
  match s with String _ (String _ (String _ r)) => r | _ => s end.

Definition spelling_ok (e : string * Z) : bool :=
  let name := fst e in let short := drop3 name in
  String.eqb name ("SIG" ++ short) &&
  match find (fun w => String.eqb (fst w) short) windows_tab with
  | Some _ => true
  | None => optsig_eqb (from_str short) (from_str name)
  end &&
  optsig_eqb (from_str name) (from_str (show_Z (snd e))) &&
  match from_str name with Some s => optZ_eqb (to_nix s) (Some (snd e)) | None => false end.

Lemma spellings_table : forallb spelling_ok nix_table = true.
Proof. vm_compute. reflexivity. Qed.

Lemma spellings_agree name n :
  In (name, n) nix_table ->
  name = ("SIG" ++ drop3 name)%string /\
  (find (fun w => String.eqb (fst w) (drop3 name)) windows_tab = None -> from_str (drop3 name) = from_str name) /\
  from_str name = from_str (show_Z n) /\
  exists s, from_str name = Some s /\ to_nix s = Some n.
Proof.
  intro Hin. pose proof spellings_table as H. rewrite forallb_forall in H. specialize (H _ Hin).
  unfold spelling_ok in H. simpl fst in H. simpl snd in H.
  rewrite !andb_true_iff in H. destruct H as [[[H1 H2] H3] H4].
  split; [apply String.eqb_eq; exact H1|]. split.
  - intro Hw. rewrite Hw in H2. apply optsig_eqb_eq. exact H2.
  - split; [apply optsig_eqb_eq; exact H3|].
    destruct (from_str name) as [s|]; [|discriminate]. exists s. split; [reflexivity|].
    apply optZ_eqb_eq. exact H4.
Qed.

(* windows control names take precedence, in any letter case *)
Definition win_row_ok (e : string * sigtag) : bool :=
  String.eqb (to_upper (fst e)) (fst e) &&
  match find (fun w => String.eqb (fst w) (fst e)) windows_tab with
  | Some w => sigtag_eqb (snd w) (snd e)
  | None => false
  end.
Lemma windows_table_ok : forallb win_row_ok windows_tab = true.
Proof. vm_compute. reflexivity. Qed.

Lemma windows_precedence w t s :
  In (w, t) windows_tab -> to_upper s = w -> from_str s = Some (First t).
Proof.
  intros Hin Hu. pose proof windows_table_ok as H. rewrite forallb_forall in H. specialize (H _ Hin).
  unfold win_row_ok in H. cbn [fst snd] in H. apply andb_true_iff in H. destruct H as [_ H].
  unfold from_str, from_windows_str. rewrite Hu.
  destruct (find _ windows_tab) as [e|]; [|discriminate]. cbn [option_map].
  apply sigtag_eqb_eq in H. rewrite H. reflexivity.
Qed.

(* ---------- POSIX numbers ---------- *)
Lemma posix_numbers :
  to_nix (First S_Hangup) = Some 1%Z /\ to_nix (First S_Interrupt) = Some 2%Z /\
  to_nix (First S_Quit) = Some 3%Z /\ to_nix (First S_ForceStop) = Some 9%Z /\
  to_nix (First S_User1) = Some 10%Z /\ to_nix (First S_User2) = Some 12%Z /\
  to_nix (First S_Terminate) = Some 15%Z.
Proof. vm_compute. repeat split; reflexivity. Qed.

Lemma from_i32_inverse t n : to_nix (First t) = Some n -> from_i32 n = First t.
Proof. destruct t; vm_compute; intro H; inversion H; reflexivity. Qed.

Lemma from_i32_same_os_signal_table :
  forallb (fun e => optZ_eqb (to_nix (from_i32 (snd e))) (Some (snd e))) nix_table = true.
Proof. vm_compute. reflexivity. Qed.

Lemma from_i32_same_os_signal n nm : nix_try_from n = Some nm -> to_nix (from_i32 n) = Some n.
Proof.
  intro E. apply nix_try_from_In in E. pose proof from_i32_same_os_signal_table as H.
  rewrite forallb_forall in H. apply optZ_eqb_eq. apply (H (nm, n) E).
Qed.

(* ---------- exit status ---------- *)
Definition pe_eqb (a b : option process_end) : bool :=
  match a, b with
  | Some Success, Some Success => true
  | Some (ExitError x), Some (ExitError y) => Z.eqb x y
  | Some (ExitSignal x), Some (ExitSignal y) => signal_eqb x y
  | _, _ => false
  end.
Lemma pe_eqb_eq a b : pe_eqb a b = true -> a = b.
Proof.
  destruct a as [[]|], b as [[]|]; simpl; intro H; try discriminate; try reflexivity.
  - apply Z.eqb_eq in H. congruence.
  - apply signal_eqb_eq in H. congruence.
Qed.

Lemma exited_codes c : (c < 256)%N ->
  process_end_of (c * 256) = Some (if N.eqb c 0 then Success else ExitError (Z.of_N c)).
Proof.
  intro H. apply pe_eqb_eq.
  refine (forallb_nrange (fun c => pe_eqb (process_end_of (c * 256))
            (Some (if N.eqb c 0 then Success else ExitError (Z.of_N c)))) 256 _ c H).
  vm_compute. reflexivity.
Qed.

Lemma signaled_status sg core : (1 <= sg)%N -> (sg < 127)%N -> (core < 2)%N ->
  process_end_of (sg + 128 * core) = Some (ExitSignal (from_i32 (Z.of_N sg))).
Proof.
  intros H1 H2 H3. apply pe_eqb_eq.
  assert (forallb (fun sg => forallb (fun core =>
            orb (N.eqb sg 0) (pe_eqb (process_end_of (sg + 128 * core))
                                      (Some (ExitSignal (from_i32 (Z.of_N sg)))))) (nrange 2)) (nrange 127) = true)
    as T by (vm_compute; reflexivity).
  pose proof (forallb_nrange _ 127 T sg H2) as T1. cbv beta in T1.
  pose proof (forallb_nrange _ 2 T1 core H3) as T2. cbv beta in T2.
  apply orb_true_iff in T2. destruct T2 as [T2|T2]; [apply N.eqb_eq in T2; lia | exact T2].
Qed.

Lemma into_from_roundtrip_codes c : (c < 256)%N ->
  let p := if N.eqb c 0 then Success else ExitError (Z.of_N c) in
  match into_wait p with Some w => process_end_of w = Some p | None => False end.
Proof.
  intro H. cbv zeta.
  assert (forallb (fun c => let p := if N.eqb c 0 then Success else ExitError (Z.of_N c) in
            match into_wait p with Some w => pe_eqb (process_end_of w) (Some p) | None => false end)
          (nrange 256) = true) as T by (vm_compute; reflexivity).
  pose proof (forallb_nrange _ 256 T c H) as T1. cbv beta zeta in T1.
  destruct (into_wait _); [apply pe_eqb_eq; exact T1 | discriminate].
Qed.

(* ---------- --map-signal ---------- *)
Fixpoint has_char (c : ascii) (s : string) : bool :=
  match s with EmptyString => false | String d r => orb (Ascii.eqb d c) (has_char c r) end.

Lemma split_once_aux_app c a b acc :
  has_char c a = false -> split_once_aux c (a ++ String c b) acc = Some ((acc ++ a)%string, b).
Proof.
  revert acc. induction a as [|d r IH]; intros acc H; simpl.
  - rewrite Ascii.eqb_refl.
    assert ((acc ++ "")%string = acc) as -> by (induction acc as [|x acc IHa]; simpl; [reflexivity | rewrite IHa; reflexivity]).
    reflexivity.
  - simpl in H. apply orb_false_iff in H. destruct H as [Hd Hr]. rewrite Hd.
    rewrite IH by exact Hr. f_equal. f_equal.
    induction acc as [|x acc IHa]; simpl; [reflexivity | rewrite IHa; reflexivity].
Qed.

Lemma split_once_app c a b : has_char c a = false -> split_once c (a ++ String c b) = Some (a, b).
Proof. intro H. unfold split_once. rewrite split_once_aux_app by exact H. reflexivity. Qed.

Lemma split_once_none c s : has_char c s = false -> split_once c s = None.
Proof.
  unfold split_once. generalize EmptyString. induction s as [|d r IH]; intros acc H; simpl; [reflexivity|].
  simpl in H. apply orb_false_iff in H. destruct H as [Hd Hr]. rewrite Hd. apply IH. exact Hr.
Qed.

Lemma map_signal_spec a b : has_char ":" a = false ->
  parse_map_signal (a ++ String ":" b) =
  match from_str a with
  | None => MapErr
  | Some f => match b with
              | EmptyString => MapOk f None
              | _ => match from_str b with Some t => MapOk f (Some t) | None => MapErr end
              end
  end.
Proof. intro H. unfold parse_map_signal. rewrite split_once_app by exact H. reflexivity. Qed.

Lemma map_signal_needs_colon v : has_char ":" v = false -> parse_map_signal v = MapErr.
Proof. intro H. unfold parse_map_signal. rewrite split_once_none by exact H. reflexivity. Qed.
