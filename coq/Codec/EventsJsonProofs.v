From Coq Require Import List NArith ZArith String Ascii Bool Lia.
From WX Require Import Base.Show Base.Bytes Codec.Json Gen.Signals_gen Codec.Signals
  Gen.FsKinds_gen Gen.EventNames_gen Codec.EventsJson Base.BytesProofs.
Import ListNotations.
Open Scope list_scope.

Ltac destr_fs :=
  repeat match goal with
  | x : AccessMode |- _ => destruct x
  | x : AccessKind |- _ => destruct x
  | x : CreateKind |- _ => destruct x
  | x : DataChange |- _ => destruct x
  | x : MetadataKind |- _ => destruct x
  | x : RenameMode |- _ => destruct x
  | x : ModifyKind |- _ => destruct x
  | x : RemoveKind |- _ => destruct x
  | x : EventKind |- _ => destruct x
  end.

(* ---------- fs kinds ---------- *)
Lemma kind_roundtrip k : kind_of_full (debug_EventKind k) = k.
Proof. destr_fs; reflexivity. Qed.

Lemma kind_table_total s : ~ In s (map fst full_table) -> kind_of_full s = EventKind_Other.
Proof.
  intro H. unfold kind_of_full. destruct (find _ full_table) as [e|] eqn:E; [|reflexivity].
  apply find_some in E. destruct E as [Hin Heq]. apply String.eqb_eq in Heq.
  exfalso. apply H. rewrite <- Heq. apply in_map. exact Hin.
Qed.

Lemma simple_consistent k : simple_of (kind_of_simple (simple_of k)) = simple_of k.
Proof. destr_fs; reflexivity. Qed.

(* ---------- Tag <-> SerdeTag ---------- *)
Lemma tag_roundtrip t : wf_tag t = true -> serde_to_tag (tag_to_serde t) = t.
Proof.
  destruct t as [p ft|k|s|k|p|s|[e|]|]; intro W; try reflexivity.
  - change (serde_to_tag (tag_to_serde (TFek k))) with (TFek (kind_of_full (debug_EventKind k))).
    rewrite kind_roundtrip. reflexivity.
  - destruct e as [|c|s|c|c|]; try reflexivity; unfold serde_to_tag, tag_to_serde;
      cbn [st_kind st_disposition st_code st_signal]; cbn [wf_tag wf_end] in W.
    + apply andb_true_iff in W. destruct W as [W _]. rewrite W. reflexivity.
    + rewrite W. reflexivity.
    + rewrite W. reflexivity.
Qed.

Lemma malformed_total v : serde_to_tag v = TUnknown \/ tag_kind (serde_to_tag v) = st_kind v.
Proof.
  destruct v as [k a f s fu so ke p si d c]. unfold serde_to_tag. simpl.
  destruct k; try (left; reflexivity).
  - destruct a; [right|left]; reflexivity.
  - destruct fu; [right; reflexivity|]. destruct s; [right|left]; reflexivity.
  - destruct so; [right|left]; reflexivity.
  - destruct ke; [right|left]; reflexivity.
  - destruct p; [right|left]; reflexivity.
  - destruct si; [right|left]; reflexivity.
  - destruct d as [[]|]; try (right; reflexivity).
    + destruct c as [c|]; [|left; reflexivity]. destruct (negb (Z.eqb c 0)); [right|left]; reflexivity.
    + destruct si; [right|left]; reflexivity.
    + destruct c as [c|]; [|left; reflexivity]. destruct (negb (Z.eqb c 0) && in_i32z c); [right|left]; reflexivity.
    + destruct c as [c|]; [|left; reflexivity]. destruct (negb (Z.eqb c 0) && in_i32z c); [right|left]; reflexivity.
Qed.

(* ---------- JSON field machinery ---------- *)
Definition lookup_f (n : string) (fs : list (string * option json)) : option json :=
  match find (fun e => String.eqb n (fst e)) fs with Some e => snd e | None => None end.

Lemma getf_present_notin n fs : ~ In n (map fst fs) -> getf n (present fs) = None.
Proof.
  induction fs as [|[k o] r IH]; simpl; intro H; [reflexivity|].
  assert (n <> k) as Hn by (intro; apply H; left; congruence).
  assert (~ In n (map fst r)) as Hr by (intro; apply H; right; assumption).
  destruct o as [j|]; simpl.
  - destruct (String.eqb_spec n k); [contradiction | apply IH; exact Hr].
  - apply IH. exact Hr.
Qed.

Lemma getf_present n fs : NoDup (map fst fs) -> getf n (present fs) = lookup_f n fs.
Proof.
  unfold lookup_f. induction fs as [|[k o] r IH]; simpl; intro H; [reflexivity|].
  inversion H as [|? ? Hk Hr]; subst.
  destruct (String.eqb_spec n k) as [->|Hn].
  - destruct o as [j|]; simpl.
    + rewrite String.eqb_refl. reflexivity.
    + apply getf_present_notin. exact Hk.
  - destruct o as [j|]; simpl.
    + destruct (String.eqb_spec n k); [contradiction | apply IH; exact Hr].
    + apply IH. exact Hr.
Qed.

Lemma count_key_notin n ks : ~ In n ks -> count_key n ks = 0.
Proof.
  induction ks as [|k r IH]; simpl; intro H; [reflexivity|].
  destruct (String.eqb_spec n k) as [->|_]; [exfalso; apply H; left; reflexivity|].
  apply IH. intro; apply H; right; assumption.
Qed.

Lemma present_keys_sub fs n : In n (map fst (present fs)) -> In n (map fst fs).
Proof.
  induction fs as [|[k o] r IH]; simpl; [tauto|]. destruct o; simpl; intuition.
Qed.

Lemma count_key_present n fs : NoDup (map fst fs) -> count_key n (map fst (present fs)) <= 1.
Proof.
  induction fs as [|[k o] r IH]; simpl; intro H; [lia|].
  inversion H as [|? ? Hk Hr]; subst. destruct o as [j|]; simpl.
  - destruct (String.eqb_spec n k) as [->|_].
    + rewrite count_key_notin; [lia|]. intro Hin. apply Hk. apply present_keys_sub. exact Hin.
    + apply IH. exact Hr.
  - apply IH. exact Hr.
Qed.

Fixpoint nodupb (l : list string) : bool :=
  match l with [] => true | x :: r => negb (mem_str x r) && nodupb r end.
Lemma nodupb_NoDup l : nodupb l = true -> NoDup l.
Proof.
  induction l as [|x r IH]; simpl; intro H; [constructor|].
  apply andb_true_iff in H. destruct H as [H1 H2]. constructor; [|apply IH; exact H2].
  intro Hin. apply mem_str_In in Hin. rewrite Hin in H1. discriminate.
Qed.

Lemma tag_fields_keys v : map fst (tag_fields v) = tag_field_names.
Proof. reflexivity. Qed.

Lemma tag_fields_nodup v : NoDup (map fst (tag_fields v)).
Proof. rewrite tag_fields_keys. apply nodupb_NoDup. vm_compute. reflexivity. Qed.

Lemma no_dup_known_present v : no_dup_known tag_field_names (present (tag_fields v)) = true.
Proof.
  unfold no_dup_known. apply forallb_forall. intros n _. apply Nat.leb_le.
  apply count_key_present. apply tag_fields_nodup.
Qed.

Lemma optf_roundtrip {A} (enc : A -> json) (dec : json -> option A) o n (f : option A) :
  (forall x, enc x <> JNull) -> (forall x, f = Some x -> dec (enc x) = Some x) ->
  getf n o = option_map enc f -> optf dec o n = Some f.
Proof.
  intros Hnn Hrt Hg. unfold optf. rewrite Hg. destruct f as [x|]; simpl; [|reflexivity].
  specialize (Hnn x). specialize (Hrt x eq_refl). destruct (enc x); try (rewrite Hrt; reflexivity).
  contradiction.
Qed.

Lemma dec_TagKind x : dec_enum all_TagKind TagKind_name (JStr (TagKind_name x)) = Some x.
Proof. destruct x; reflexivity. Qed.
Lemma dec_FileType x : dec_enum all_FileType FileType_name (JStr (FileType_name x)) = Some x.
Proof. destruct x; reflexivity. Qed.
Lemma dec_FsEventKind x : dec_enum all_FsEventKind FsEventKind_name (JStr (FsEventKind_name x)) = Some x.
Proof. destruct x; reflexivity. Qed.
Lemma dec_Source x : dec_enum all_Source Source_name (JStr (Source_name x)) = Some x.
Proof. destruct x; reflexivity. Qed.
Lemma dec_Keyboard x : dec_enum all_Keyboard Keyboard_name (JStr (Keyboard_name x)) = Some x.
Proof. destruct x; reflexivity. Qed.
Lemma dec_ProcessDisposition x :
  dec_enum all_ProcessDisposition ProcessDisposition_name (JStr (ProcessDisposition_name x)) = Some x.
Proof. destruct x; reflexivity. Qed.
Lemma dec_enc_signal s : wf_signal s = true -> dec_signal (enc_signal s) = Some s.
Proof. destruct s as [t|n]; simpl; [destruct t; reflexivity | intro H; rewrite H; reflexivity]. Qed.

Definition optb {A} (p : A -> bool) (o : option A) : bool := match o with Some x => p x | None => true end.
Definition wf_serde (v : serde_tag) : bool :=
  optb in_u32z (st_pid v) && optb wf_signal (st_signal v) && optb in_i64z (st_code v).

Lemma serde_json_roundtrip v : wf_serde v = true -> json_to_serde (serde_to_json v) = Some v.
Proof.
  intro W. unfold wf_serde in W. rewrite !andb_true_iff in W. destruct W as [[Wp Ws] Wc].
  unfold json_to_serde, serde_to_json. rewrite no_dup_known_present. cbn [negb].
  pose proof (tag_fields_nodup v) as ND.
  rewrite (getf_present "kind" _ ND). cbn [lookup_f tag_fields find String.eqb Ascii.eqb Bool.eqb fst snd].
  rewrite dec_TagKind.
  rewrite (optf_roundtrip JStr dec_str _ "absolute" (st_absolute v)); [|discriminate|reflexivity|rewrite (getf_present _ _ ND); reflexivity].
  rewrite (optf_roundtrip (fun x => JStr (FileType_name x)) _ _ "filetype" (st_filetype v));
    [|discriminate|intros; apply dec_FileType|rewrite (getf_present _ _ ND); reflexivity].
  rewrite (optf_roundtrip (fun x => JStr (FsEventKind_name x)) _ _ "simple" (st_simple v));
    [|discriminate|intros; apply dec_FsEventKind|rewrite (getf_present _ _ ND); reflexivity].
  rewrite (optf_roundtrip JStr dec_str _ "full" (st_full v)); [|discriminate|reflexivity|rewrite (getf_present _ _ ND); reflexivity].
  rewrite (optf_roundtrip (fun x => JStr (Source_name x)) _ _ "source" (st_source v));
    [|discriminate|intros; apply dec_Source|rewrite (getf_present _ _ ND); reflexivity].
  rewrite (optf_roundtrip (fun x => JStr (Keyboard_name x)) _ _ "keycode" (st_keycode v));
    [|discriminate|intros; apply dec_Keyboard|rewrite (getf_present _ _ ND); reflexivity].
  rewrite (optf_roundtrip JNum dec_u32 _ "pid" (st_pid v));
    [|discriminate| |rewrite (getf_present _ _ ND); reflexivity].
  2:{ intros x Hx. rewrite Hx in Wp. simpl in Wp. simpl. rewrite Wp. reflexivity. }
  rewrite (optf_roundtrip enc_signal dec_signal _ "signal" (st_signal v));
    [| | |rewrite (getf_present _ _ ND); reflexivity].
  2:{ intros [t|n]; discriminate. }
  2:{ intros x Hx. rewrite Hx in Ws. apply dec_enc_signal. exact Ws. }
  rewrite (optf_roundtrip (fun x => JStr (ProcessDisposition_name x)) _ _ "disposition" (st_disposition v));
    [|discriminate|intros; apply dec_ProcessDisposition|rewrite (getf_present _ _ ND); reflexivity].
  rewrite (optf_roundtrip JNum dec_i64 _ "code" (st_code v));
    [|discriminate| |rewrite (getf_present _ _ ND); reflexivity].
  2:{ intros x Hx. rewrite Hx in Wc. simpl in Wc. simpl. rewrite Wc. reflexivity. }
  destruct v; reflexivity.
Qed.

Lemma wf_tag_serde t : wf_tag t = true -> wf_serde (tag_to_serde t) = true.
Proof.
  destruct t as [p ft|k|s|k|p|s|[e|]|]; intro W; try reflexivity.
  - unfold wf_serde. simpl in *. rewrite W. reflexivity.
  - unfold wf_serde. simpl in *. rewrite W. reflexivity.
  - destruct e as [|c|s|c|c|]; unfold wf_serde; simpl in *; try reflexivity.
    + apply andb_true_iff in W. destruct W as [_ W]. exact W.
    + rewrite W. reflexivity.
    + apply andb_true_iff in W. destruct W as [_ W]. unfold in_i64z. unfold in_i32z in W.
      apply andb_true_iff in W. destruct W as [W1 W2]. apply Z.leb_le in W1, W2.
      apply andb_true_iff. split; apply Z.leb_le; lia.
    + apply andb_true_iff in W. destruct W as [_ W]. unfold in_i64z. unfold in_i32z in W.
      apply andb_true_iff in W. destruct W as [W1 W2]. apply Z.leb_le in W1, W2.
      apply andb_true_iff. split; apply Z.leb_le; lia.
Qed.

Lemma tag_json_roundtrip t : wf_tag t = true -> json_to_tag (tag_to_json t) = Some t.
Proof.
  intro W. unfold json_to_tag, tag_to_json. rewrite serde_json_roundtrip by (apply wf_tag_serde; exact W).
  simpl. rewrite tag_roundtrip by exact W. reflexivity.
Qed.

(* ---------- events ---------- *)
Fixpoint sorted_meta (m : list (string * list string)) : bool :=
  match m with
  | [] => true
  | (k, _) :: r => forallb (fun e => str_ltb k (fst e)) r && sorted_meta r
  end.

Lemma meta_insert_last k v acc :
  forallb (fun e => str_ltb (fst e) k) acc = true -> meta_insert k v acc = acc ++ [(k, v)].
Proof.
  induction acc as [|[k' v'] r IH]; simpl; intro H; [reflexivity|].
  apply andb_true_iff in H. destruct H as [H1 H2].
  destruct (str_ltb_asym _ _ H1) as [A1 A2].
  rewrite String.eqb_sym, A2, A1. rewrite IH by exact H2. reflexivity.
Qed.

Lemma all_some_strs l : all_some (map dec_str (map JStr l)) = Some l.
Proof. induction l as [|x r IH]; simpl; [reflexivity | rewrite IH; reflexivity]. Qed.

Lemma dec_meta_fold m acc :
  sorted_meta m = true ->
  forallb (fun a => forallb (fun e => str_ltb (fst a) (fst e)) m) acc = true ->
  fold_left (fun acc kv => match acc, dec_strs (snd kv) with
                           | Some m, Some v => Some (meta_insert (fst kv) v m)
                           | _, _ => None end)
            (map (fun kv => (fst kv, JArr (map JStr (snd kv)))) m) (Some acc) = Some (acc ++ m).
Proof.
  revert acc. induction m as [|[k v] r IH]; intros acc Hs Ha; simpl.
  - rewrite app_nil_r. reflexivity.
  - simpl in Hs. apply andb_true_iff in Hs. destruct Hs as [Hk Hr].
    rewrite all_some_strs.
    rewrite meta_insert_last.
    + rewrite IH; [rewrite <- app_assoc; reflexivity | exact Hr |].
      rewrite forallb_app. apply andb_true_iff. split.
      * apply forallb_forall. intros a Hin. rewrite forallb_forall in Ha. specialize (Ha a Hin).
        simpl in Ha. apply andb_true_iff in Ha. apply Ha.
      * simpl. rewrite Hk. reflexivity.
    + apply forallb_forall. intros a Hin. rewrite forallb_forall in Ha. specialize (Ha a Hin).
      simpl in Ha. apply andb_true_iff in Ha. apply Ha.
Qed.

Lemma dec_meta_roundtrip m :
  sorted_meta m = true ->
  dec_meta (JObj (map (fun kv => (fst kv, JArr (map JStr (snd kv)))) m)) = Some m.
Proof. intro H. unfold dec_meta. rewrite (dec_meta_fold m [] H); reflexivity. Qed.

Lemma tags_roundtrip ts :
  forallb wf_tag ts = true -> all_some (map json_to_tag (map tag_to_json ts)) = Some ts.
Proof.
  induction ts as [|t r IH]; simpl; intro H; [reflexivity|].
  apply andb_true_iff in H. destruct H as [H1 H2].
  rewrite tag_json_roundtrip by exact H1. rewrite IH by exact H2. reflexivity.
Qed.

Definition wf_event (e : event) : bool := forallb wf_tag (ev_tags e) && sorted_meta (ev_meta e).

Lemma event_roundtrip e : wf_event e = true -> json_to_event (event_to_json e) = Some e.
Proof.
  destruct e as [ts m]. unfold wf_event. cbn [ev_tags ev_meta]. intro W.
  apply andb_true_iff in W. destruct W as [Wt Wm].
  pose proof (tags_roundtrip _ Wt) as RT. pose proof (dec_meta_roundtrip _ Wm) as RM.
  unfold event_to_json. cbn [ev_tags ev_meta].
  destruct ts as [|t ts']; destruct m as [|kv m']; cbv iota beta.
  - reflexivity.
  - remember (JObj (map _ (kv :: m'))) as jm eqn:Ej. clear Ej. simpl. rewrite RM. reflexivity.
  - remember (map tag_to_json (t :: ts')) as jt eqn:Ej. clear Ej. simpl. rewrite RT. reflexivity.
  - remember (JObj (map _ (kv :: m'))) as jm eqn:Ej. clear Ej.
    remember (map tag_to_json (t :: ts')) as jt eqn:Ej. clear Ej. simpl. rewrite RT, RM. reflexivity.
Qed.

(* ---------- documented names ---------- *)
Lemma field_names_documented :
  tag_field_names = documented_tag_fields /\
  map (fun x => fst (fst x)) serde_tag_fields = documented_tag_fields /\
  map TagKind_name (tl all_TagKind) = documented_kinds /\
  map FileType_name all_FileType = documented_filetypes /\
  map FsEventKind_name all_FsEventKind = documented_simple /\
  map Source_name all_Source = documented_sources /\
  map ProcessDisposition_name all_ProcessDisposition = documented_dispositions /\
  map Keyboard_name all_Keyboard = ["eof"%string].
Proof. repeat split; reflexivity. Qed.

Lemma json_malformed_total j t :
  json_to_tag j = Some t ->
  exists v, json_to_serde j = Some v /\ (t = TUnknown \/ tag_kind t = st_kind v).
Proof.
  unfold json_to_tag. destruct (json_to_serde j) as [v|]; simpl; [|discriminate].
  intro H. inversion H; subst. exists v. split; [reflexivity | apply malformed_total].
Qed.
