From Coq Require Import List NArith String Ascii Bool Lia.
From WX Require Import Base.Show Base.Bytes Base.BytesProofs Gen.FsKinds_gen Gen.PathCats_gen Codec.Paths.
Import ListNotations.
Open Scope list_scope.

Definition is_prefix (q p : path) : Prop := exists s, p = q ++ s.

Lemma is_prefix_refl p : is_prefix p p.
Proof. exists []. rewrite app_nil_r. reflexivity. Qed.
Lemma is_prefix_nil p : is_prefix [] p.
Proof. exists p. reflexivity. Qed.
Lemma is_prefix_trans a b c : is_prefix a b -> is_prefix b c -> is_prefix a c.
Proof. intros [s ->] [t ->]. exists (s ++ t). rewrite app_assoc. reflexivity. Qed.
Lemma is_prefix_cons x a b : is_prefix (x :: a) (x :: b) <-> is_prefix a b.
Proof. split; intros [s H]; exists s; simpl in *; congruence. Qed.

(* ---------- common prefix ---------- *)
Lemma cp_step_prefix_l longest p : is_prefix (cp_step longest p) longest.
Proof. unfold cp_step. exists (skipn (common_len p longest) longest). symmetry. apply firstn_skipn. Qed.

Lemma cp_step_prefix_r longest p : is_prefix (cp_step longest p) p.
Proof.
  unfold cp_step. revert p. induction longest as [|x l IH]; intros p.
  - rewrite firstn_nil. apply is_prefix_nil.
  - destruct p as [|y p']; simpl; [apply is_prefix_nil|].
    destruct (String.eqb_spec y x) as [->|_]; simpl; [|apply is_prefix_nil].
    apply is_prefix_cons. apply IH.
Qed.

Lemma cp_step_greatest longest p q : is_prefix q longest -> is_prefix q p -> is_prefix q (cp_step longest p).
Proof.
  unfold cp_step. revert longest p. induction q as [|z q IH]; intros longest p H1 H2; [apply is_prefix_nil|].
  destruct H1 as [s1 ->], H2 as [s2 ->]. simpl. rewrite String.eqb_refl. simpl.
  apply is_prefix_cons. apply IH; [exists s1 | exists s2]; reflexivity.
Qed.

Lemma fold_cp_prefix r f :
  is_prefix (fold_left cp_step r f) f /\ forall t, In t r -> is_prefix (fold_left cp_step r f) t.
Proof.
  revert f. induction r as [|p r IH]; intro f; simpl.
  - split; [apply is_prefix_refl | tauto].
  - destruct (IH (cp_step f p)) as [I1 I2]. split.
    + eapply is_prefix_trans; [exact I1 | apply cp_step_prefix_l].
    + intros t [<-|Ht]; [|apply I2; exact Ht].
      eapply is_prefix_trans; [exact I1 | apply cp_step_prefix_r].
Qed.

Lemma fold_cp_greatest r f q :
  is_prefix q f -> (forall t, In t r -> is_prefix q t) -> is_prefix q (fold_left cp_step r f).
Proof.
  revert f. induction r as [|p r IH]; intros f Hf Hr; simpl; [exact Hf|].
  apply IH.
  - apply cp_step_greatest; [exact Hf | apply Hr; left; reflexivity].
  - intros t Ht. apply Hr. right. exact Ht.
Qed.

Lemma common_prefix_some l pre :
  common_prefix l = Some pre ->
  pre <> [] /\ (forall t, In t l -> is_prefix pre t) /\
  (forall q, (forall t, In t l -> is_prefix q t) -> is_prefix q pre).
Proof.
  unfold common_prefix. destruct l as [|f r]; [discriminate|].
  destruct (fold_left cp_step r f) as [|x q'] eqn:E; [discriminate|]. intro H. inversion H; subst. clear H.
  destruct (fold_cp_prefix r f) as [I1 I2]. rewrite E in I1, I2. split; [discriminate|]. split.
  - intros t [<-|Ht]; [exact I1 | apply I2; exact Ht].
  - intros q Hq. rewrite <- E. apply fold_cp_greatest; [apply Hq; left; reflexivity|].
    intros t Ht. apply Hq. right. exact Ht.
Qed.

Lemma common_prefix_none l :
  common_prefix l = None -> l = [] \/ forall q, (forall t, In t l -> is_prefix q t) -> q = [].
Proof.
  unfold common_prefix. destruct l as [|f r]; [left; reflexivity|].
  destruct (fold_left cp_step r f) as [|x q'] eqn:E; [|discriminate]. intros _. right.
  intros q Hq. assert (is_prefix q (fold_left cp_step r f)) as P.
  { apply fold_cp_greatest; [apply Hq; left; reflexivity|]. intros t Ht. apply Hq. right. exact Ht. }
  rewrite E in P. destruct P as [s P]. destruct q; [reflexivity | discriminate].
Qed.

(* ---------- strip ---------- *)
Lemma strip_spec pre p suf : strip pre p = Some suf <-> p = pre ++ suf.
Proof.
  revert p. induction pre as [|x pre IH]; intros p; simpl.
  - split; [intro H; inversion H; reflexivity | intros ->; reflexivity].
  - destruct p as [|y p']; [split; discriminate|].
    destruct (String.eqb_spec x y) as [->|Hn].
    + rewrite IH. split; [intros ->; reflexivity | intro H; inversion H; reflexivity].
    + split; [discriminate | intro H; inversion H as [[H1 H2]]; congruence].
Qed.

Lemma removelast_prefix (p : path) : is_prefix (removelast p) p.
Proof.
  destruct p as [|x r]; [apply is_prefix_nil|].
  exists [last (x :: r) ""%string]. apply app_removelast_last. discriminate.
Qed.

Lemma trunk_prefix pd : is_prefix (trunk pd) (fst pd).
Proof.
  unfold trunk. destruct (snd pd); [apply is_prefix_refl|].
  unfold parent. destruct (fst pd) as [|x r] eqn:E; [apply is_prefix_refl|].
  destruct (String.eqb x "/" && match r with [] => true | _ => false end);
    [apply is_prefix_refl | apply removelast_prefix].
Qed.

Definition common_or_nil (b : list pev) : path := match common_of b with Some pre => pre | None => [] end.

Lemma common_prefixes_every_path b e pd :
  In e b -> In pd (pv_paths e) -> is_prefix (common_or_nil b) (fst pd).
Proof.
  intros He Hp. unfold common_or_nil. destruct (common_of b) as [pre|] eqn:E; [|apply is_prefix_nil].
  unfold common_of in E. apply common_prefix_some in E. destruct E as (_ & E & _).
  eapply is_prefix_trans; [|apply trunk_prefix]. apply E. unfold all_trunks.
  apply in_flat_map. exists e. split; [exact He | apply in_map; exact Hp].
Qed.

Lemma entry_spec b e pd :
  In e b -> In pd (pv_paths e) ->
  exists suf, entry (common_of b) (fst pd) = render_path suf /\ common_or_nil b ++ suf = fst pd.
Proof.
  intros He Hp. pose proof (common_prefixes_every_path b e pd He Hp) as [suf Hs].
  unfold entry, common_or_nil in *. destruct (common_of b) as [pre|].
  - exists suf. split; [|symmetry; exact Hs].
    assert (strip pre (fst pd) = Some suf) as -> by (apply strip_spec; exact Hs). reflexivity.
  - exists (fst pd). split; reflexivity.
Qed.

Lemma pairs_In b k p :
  In (k, p) (pairs b) <-> exists e d, In e b /\ In k (pv_kinds e) /\ In (p, d) (pv_paths e).
Proof.
  unfold pairs. rewrite in_flat_map. split.
  - intros (e & He & H). rewrite in_flat_map in H. destruct H as (k' & Hk & H).
    rewrite in_map_iff in H. destruct H as ([p' d] & Heq & Hp). inversion Heq; subst.
    exists e, d. auto.
  - intros (e & d & He & Hk & Hp). exists e. split; [exact He|]. rewrite in_flat_map.
    exists k. split; [exact Hk|]. rewrite in_map_iff. exists (p, d). auto.
Qed.

(* every (path, kind) of every event is listed in the variable of the kind's category, as an entry
   that joined to the common path gives back the path *)
Lemma reconstruct b e p d k :
  In e b -> In (p, d) (pv_paths e) -> In k (pv_kinds e) ->
  exists ent suf, In ent (entries_of b (path_category k)) /\ ent = render_path suf /\ common_or_nil b ++ suf = p.
Proof.
  intros He Hp Hk. destruct (entry_spec b e (p, d) He Hp) as (suf & Hs1 & Hs2). simpl in *.
  exists (entry (common_of b) p), suf. split; [|split; assumption].
  unfold entries_of. apply sort_dedup_In. apply in_map_iff. exists (k, p). split; [reflexivity|].
  apply filter_In. split; [apply pairs_In; exists e, d; auto | apply String.eqb_refl].
Qed.

Lemma bucket_exact b c ent :
  In ent (entries_of b c) ->
  exists e p d k suf, In e b /\ In (p, d) (pv_paths e) /\ In k (pv_kinds e) /\ path_category k = c /\
                      ent = render_path suf /\ common_or_nil b ++ suf = p.
Proof.
  unfold entries_of. rewrite sort_dedup_In, in_map_iff. intros ([k p] & Hent & Hf).
  apply filter_In in Hf. destruct Hf as [Hin Hc]. apply String.eqb_eq in Hc. simpl in *.
  apply pairs_In in Hin. destruct Hin as (e & d & He & Hk & Hp).
  destruct (entry_spec b e (p, d) He Hp) as (suf & Hs1 & Hs2). simpl in *.
  exists e, p, d, k, suf. repeat split; try assumption. congruence.
Qed.

Lemma entries_sorted b c : ssorted (entries_of b c).
Proof. apply sort_dedup_sorted. Qed.

Lemma common_longest b pre :
  common_of b = Some pre ->
  (forall t, In t (all_trunks b) -> is_prefix pre t) /\
  (forall q, (forall t, In t (all_trunks b) -> is_prefix q t) -> is_prefix q pre).
Proof. intro H. apply common_prefix_some in H. tauto. Qed.

Lemma common_none b :
  common_of b = None ->
  all_trunks b = [] \/ forall q, (forall t, In t (all_trunks b) -> is_prefix q t) -> q = [].
Proof. apply common_prefix_none. Qed.

(* events without paths contribute nothing at all; events without kinds contribute no entry *)
Lemma no_path_no_effect e b : pv_paths e = [] -> summarise (e :: b) = summarise b.
Proof.
  intro H. unfold summarise, entries_of, common_of, all_trunks, pairs. simpl. rewrite H. simpl.
  assert (flat_map (fun _ : EventKind => @nil (EventKind * path)) (pv_kinds e) = []) as ->.
  { induction (pv_kinds e); simpl; auto. }
  reflexivity.
Qed.

Lemma no_kind_no_pairs e b : pv_kinds e = [] -> pairs (e :: b) = pairs b.
Proof. intro H. unfold pairs. simpl. rewrite H. reflexivity. Qed.

(* simple format: event order is preserved and each event yields |paths| * max(1,|kinds|) lines *)
Lemma simple_format_app a b : simple_format (a ++ b) = simple_format a ++ simple_format b.
Proof. unfold simple_format. apply flat_map_app. Qed.

Lemma flat_map_length_const {A B} (f : A -> list B) (l : list A) n :
  (forall x, In x l -> List.length (f x) = n) -> List.length (flat_map f l) = List.length l * n.
Proof.
  induction l as [|x r IH]; simpl; intro H; [reflexivity|].
  rewrite app_length, IH, H; auto.
Qed.

Lemma simple_lines_count e :
  List.length (simple_lines_of e) = List.length (pv_paths e) * Nat.max 1 (List.length (pv_kinds e)).
Proof.
  unfold simple_lines_of. apply flat_map_length_const. intros pd _.
  destruct (pv_kinds e) as [|k ks]; [reflexivity|]. rewrite map_length. simpl. reflexivity.
Qed.

Lemma simple_line_In e line :
  In line (simple_lines_of e) <->
  exists pd, In pd (pv_paths e) /\
    ((pv_kinds e = [] /\ line = (simple_prefix_nokind ++ ":" ++ render_path (fst pd))%string) \/
     exists k, In k (pv_kinds e) /\ line = (simple_prefix k ++ ":" ++ render_path (fst pd))%string).
Proof.
  unfold simple_lines_of. rewrite in_flat_map. split.
  - intros (pd & Hp & H). exists pd. split; [exact Hp|]. destruct (pv_kinds e) as [|k ks] eqn:E.
    + left. destruct H as [<-|[]]. split; reflexivity.
    + right. apply in_map_iff in H. destruct H as (k' & <- & Hk). exists k'. split; [exact Hk | reflexivity].
  - intros (pd & Hp & [[E ->]|(k & Hk & ->)]); exists pd; split; try exact Hp.
    + rewrite E. left. reflexivity.
    + destruct (pv_kinds e) as [|k0 ks] eqn:E; [contradiction|]. apply in_map_iff. exists k. split; [reflexivity | exact Hk].
Qed.
