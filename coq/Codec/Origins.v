(* Model of crates/project-origins: origins(), types(), DirList.  The marker tables and the
   ProjectType enumeration come from Gen/Origins_gen.v (translated from the source). *)
From Coq Require Import List NArith String Ascii Bool.
From WX Require Import Base.Bytes Gen.Origins_gen.
Import ListNotations.
Open Scope string_scope.

Inductive ntype : Set := FileT | DirT | OtherT.
Definition ntype_eqb (a b : ntype) : bool :=
  match a, b with FileT, FileT | DirT, DirT | OtherT, OtherT => true | _, _ => false end.

(* a directory listing as DirList::obtain collects it: entry name -> file type
   (symlinks and special files are OtherT: DirEntry::file_type does not follow links) *)
Definition listing := list (string * ntype).

Fixpoint lookup (l : listing) (n : string) : option ntype :=
  match l with
  | [] => None
  | (m, t) :: r => if String.eqb n m then Some t else lookup r n
  end.

Definition ntype_of (k : mkind) : ntype := match k with KFile => FileT | KDir => DirT end.

(* DirList::has_file / has_dir *)
Definition has (k : mkind) (l : listing) (n : string) : bool :=
  match lookup l n with
  | Some t => ntype_eqb t (ntype_of k)
  | None => false
  end.

(* origins()::check_list *)
Definition check_list (l : listing) : bool :=
  match l with
  | [] => false
  | _ => existsb (fun m => has (fst m) l (snd m)) origin_markers
  end.

(* std::path::Path restricted to what origins() uses: parent().  A path is (absolute?, reversed
   component list); parent of "/" and of "" is None, parent of "a" is "". *)
Definition path := (bool * list string)%type.
Definition parent (p : path) : option path :=
  match snd p with [] => None | _ :: r => Some (fst p, r) end.
Fixpoint ancestors_rc (a : bool) (rc : list string) : list path :=
  match rc with [] => [] | _ :: r => (a, r) :: ancestors_rc a r end.
Definition ancestors (p : path) : list path := ancestors_rc (fst p) (snd p).
Definition chain (p : path) : list path := p :: ancestors p.

Section Origins.
  (* the file system: what read_dir returns for each directory (empty when unreadable) *)
  Variable fs : path -> listing.

  Definition origins (p : path) : list path :=
    filter (fun q => check_list (fs q)) (chain p).
End Origins.

Fixpoint nodup_pt (l : list ptype) : list ptype :=
  match l with
  | [] => []
  | x :: r => if existsb (ptype_eqb x) r then nodup_pt r else x :: nodup_pt r
  end.

(* types(): the HashSet of all table rows whose marker is present *)
Definition types_raw (l : listing) : list ptype :=
  flat_map (fun m => match m with (k, n, t) => if has k l n then [t] else [] end) type_markers.
Definition types (l : listing) : list ptype := nodup_pt (types_raw l).

(* ---- specification side (hand-written from the rustdoc of ProjectType) ---- *)

Definition node_is (k : mkind) (l : listing) (n : string) : Prop :=
  lookup l n = Some (ntype_of k).

Definition is_marked (l : listing) : Prop :=
  exists k n, In (k, n) origin_markers /\ node_is k l n.

(* documented detection rules, one row per sentence "Detects when a `x` file/folder is present" *)
Definition doc_type_markers : list (mkind * string * ptype) :=
  [ (KDir, ".bzr", PT_Bazaar); (KFile, ".bzrignore", PT_Bazaar);
    (KDir, "_darcs", PT_Darcs);
    (KDir, ".fossil-settings", PT_Fossil);
    (KFile, ".git", PT_Git); (KDir, ".git", PT_Git);
    (KFile, ".gitattributes", PT_Git); (KFile, ".gitmodules", PT_Git);
    (KDir, ".hg", PT_Mercurial); (KFile, ".hgignore", PT_Mercurial); (KFile, ".hgtags", PT_Mercurial);
    (KDir, ".svn", PT_Subversion);
    (KFile, "Gemfile", PT_Bundler);
    (KFile, ".ctags", PT_C);
    (KFile, "Cargo.toml", PT_Cargo);
    (KFile, "Dockerfile", PT_Docker);
    (KFile, "mix.exs", PT_Elixir);
    (KFile, "go.mod", PT_Go); (KFile, "go.sum", PT_Go);
    (KFile, "build.gradle", PT_Gradle);
    (KFile, "package.json", PT_JavaScript); (KFile, "cgmanifest.json", PT_JavaScript);
    (KFile, "project.clj", PT_Leiningen);
    (KFile, "pom.xml", PT_Maven);
    (KFile, ".perltidyrc", PT_Perl); (KFile, "Makefile.PL", PT_Perl);
    (KFile, "composer.json", PT_PHP);
    (KFile, "requirements.txt", PT_Pip); (KFile, "Pipfile", PT_Pip);
    (KFile, "v.mod", PT_V);
    (KFile, "build.zig", PT_Zig) ].

Definition mkind_eqb (a b : mkind) : bool :=
  match a, b with KFile, KFile | KDir, KDir => true | _, _ => false end.
Definition tm_eqb (a b : mkind * string * ptype) : bool :=
  match a, b with (k, n, t), (k', n', t') => mkind_eqb k k' && String.eqb n n' && ptype_eqb t t' end.
Definition om_eqb (a b : mkind * string) : bool :=
  mkind_eqb (fst a) (fst b) && String.eqb (snd a) (snd b).
