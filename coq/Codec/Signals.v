(* Model of crates/signals (unix side) and of events/src/process.rs.
   First-class tables come from Gen/Signals_gen.v. *)
From Coq Require Import List NArith ZArith String Ascii Bool.
From WX Require Import Base.Show Base.Bytes Gen.Signals_gen.
Import ListNotations.
Open Scope string_scope.

Inductive signal : Set := First (t : sigtag) | Custom (n : Z).

Definition signal_eqb (a b : signal) : bool :=
  match a, b with
  | First x, First y => sigtag_eqb x y
  | Custom x, Custom y => Z.eqb x y
  | _, _ => false
  end.

(* nix 0.29 `Signal` on Linux (third party; sampled exhaustively by the harness) *)
Definition nix_table : list (string * Z) :=
  [("SIGHUP",1); ("SIGINT",2); ("SIGQUIT",3); ("SIGILL",4); ("SIGTRAP",5); ("SIGABRT",6);
   ("SIGBUS",7); ("SIGFPE",8); ("SIGKILL",9); ("SIGUSR1",10); ("SIGSEGV",11); ("SIGUSR2",12);
   ("SIGPIPE",13); ("SIGALRM",14); ("SIGTERM",15); ("SIGSTKFLT",16); ("SIGCHLD",17); ("SIGCONT",18);
   ("SIGSTOP",19); ("SIGTSTP",20); ("SIGTTIN",21); ("SIGTTOU",22); ("SIGURG",23); ("SIGXCPU",24);
   ("SIGXFSZ",25); ("SIGVTALRM",26); ("SIGPROF",27); ("SIGWINCH",28); ("SIGIO",29); ("SIGPWR",30);
   ("SIGSYS",31)]%Z.

Definition nix_num (name : string) : option Z :=
  option_map snd (find (fun e => String.eqb (fst e) name) nix_table).
Definition nix_try_from (n : Z) : option string :=
  option_map fst (find (fun e => Z.eqb (snd e) n) nix_table).
Definition nix_from_str (s : string) : option string :=
  option_map fst (find (fun e => String.eqb (fst e) s) nix_table).

(* Signal::to_nix, as the OS signal number *)
Definition to_nix (s : signal) : option Z :=
  match s with
  | First t => nix_num (to_nix_name t)
  | Custom n => match nix_try_from n with Some nm => nix_num nm | None => None end
  end.

(* Signal::from_nix *)
Definition from_nix (name : string) : signal :=
  match find (fun e => String.eqb (fst e) name) from_nix_tab with
  | Some e => First (snd e)
  | None => Custom (match nix_num name with Some n => n | None => 0%Z end)
  end.

(* From<i32> *)
Definition from_i32 (n : Z) : signal :=
  match find (fun e => Z.eqb (fst e) n) from_i32_tab with
  | Some e => First (snd e)
  | None => Custom n
  end.

(* i32::from_str: optional sign, at least one ASCII digit, no overflow *)
Definition digit_of (c : ascii) : option Z :=
  let n := N_of_ascii c in
  if andb (N.leb 48 n) (N.leb n 57) then Some (Z.of_N (n - 48)) else None.
Fixpoint parse_digits (s : string) (acc : Z) : option Z :=
  match s with
  | EmptyString => Some acc
  | String c r => match digit_of c with Some d => parse_digits r (acc * 10 + d)%Z | None => None end
  end.
Definition in_i32 (z : Z) : bool := andb (Z.leb (-2147483648) z) (Z.leb z 2147483647).
Definition parse_body (neg : bool) (r : string) : option Z :=
  match r with
  | EmptyString => None
  | _ => match parse_digits r 0 with
         | Some v => let v' := if neg then (- v)%Z else v in if in_i32 v' then Some v' else None
         | None => None
         end
  end.
Definition parse_i32 (s : string) : option Z :=
  match s with
  | EmptyString => None
  | String c r =>
      if Ascii.eqb c "+" then parse_body false r
      else if Ascii.eqb c "-" then parse_body true r
      else parse_body false s
  end.

(* from_unix_str (unix implementation) *)
Definition from_unix_names (u : string) : option signal :=
  match nix_from_str u with
  | Some nm => Some (from_nix nm)
  | None => match nix_from_str ("SIG" ++ u) with
            | Some nm => Some (from_nix nm)
            | None => None
            end
  end.
Definition from_unix_str (s : string) : option signal :=
  match match parse_i32 s with Some n => nix_try_from n | None => None end with
  | Some nm => Some (from_nix nm)
  | None => from_unix_names (to_upper s)
  end.

Definition from_windows_str (s : string) : option signal :=
  option_map (fun e => First (snd e)) (find (fun e => String.eqb (fst e) (to_upper s)) windows_tab).

(* FromStr *)
Definition from_str (s : string) : option signal :=
  match from_windows_str s with
  | Some x => Some x
  | None => from_unix_str s
  end.

(* Display (non-windows column) *)
Definition display (s : signal) : string :=
  match s with
  | First t => display_unix_name t
  | Custom n => show_Z n
  end.

Definition show_signal (s : signal) : string :=
  match s with First t => sigtag_name t | Custom n => "Custom(" ++ show_Z n ++ ")" end.

(* ---- the --map-signal FROM:TO parser of cli/args/events.rs ---- *)
Fixpoint split_once_aux (sep : ascii) (s acc : string) : option (string * string) :=
  match s with
  | EmptyString => None
  | String c r => if Ascii.eqb c sep then Some (acc, r)
                  else split_once_aux sep r (acc ++ String c EmptyString)
  end.
Definition split_once (sep : ascii) (s : string) := split_once_aux sep s EmptyString.

Inductive mapres : Set := MapErr | MapOk (from : signal) (to : option signal).
Definition parse_map_signal (v : string) : mapres :=
  match split_once ":" v with
  | None => MapErr
  | Some (a, b) =>
      match from_str a with
      | None => MapErr
      | Some f =>
          match b with
          | EmptyString => MapOk f None
          | _ => match from_str b with Some t => MapOk f (Some t) | None => MapErr end
          end
      end
  end.

(* ---- process.rs: ExitStatus (Linux wait status) -> ProcessEnd ---- *)
Inductive process_end : Set :=
  | Success | ExitError (code : Z) | ExitSignal (s : signal) | ExitStop (n : Z)
  | Exception (n : Z) | Continued.

(* std::os::unix::process::ExitStatusExt on Linux *)
Definition w_exited (w : N) : bool := N.eqb (N.land w 127) 0.
Definition w_exitstatus (w : N) : N := N.land (N.shiftr w 8) 255.
Definition w_signaled (w : N) : bool :=
  let l := N.land w 127 in andb (negb (N.eqb l 0)) (negb (N.eqb l 127)).
Definition w_termsig (w : N) : N := N.land w 127.
Definition w_stopped (w : N) : bool := N.eqb (N.land w 255) 127.
Definition w_stopsig (w : N) : N := N.land (N.shiftr w 8) 255.
Definition w_continued (w : N) : bool := N.eqb w 65535.

Definition es_code (w : N) := if w_exited w then Some (w_exitstatus w) else None.
Definition es_signal (w : N) := if w_signaled w then Some (w_termsig w) else None.
Definition es_stopped (w : N) := if w_stopped w then Some (w_stopsig w) else None.

(* impl From<ExitStatus> for ProcessEnd (unix); None = the unreachable!() arm *)
Definition process_end_of (w : N) : option process_end :=
  match es_code w, es_signal w, es_stopped w with
  | Some _, Some _, _ => None
  | Some c, None, _ => Some (if N.eqb c 0 then Success else ExitError (Z.of_N c))
  | None, Some _, Some st => Some (if N.eqb st 0 then Success else ExitStop (Z.of_N st))
  | None, Some sg, None => Some (if w_continued w then Continued else ExitSignal (from_i32 (Z.of_N sg)))
  | None, None, _ => Some Success
  end.

(* ProcessEnd::into_exitstatus (unix); None = unimplemented!() *)
Definition into_wait (p : process_end) : option N :=
  match p with
  | Success => Some 0%N
  | ExitError c => Some (N.shiftl (if andb (Z.leb 0 c) (Z.leb c 255) then Z.to_N c else 0) 8)
  | ExitSignal s => Some (match to_nix s with Some n => Z.to_N n | None => 0%N end)
  | Continued => Some 65535%N
  | _ => None
  end.

Definition show_pe (p : process_end) : string :=
  match p with
  | Success => "Success"
  | ExitError c => "ExitError(" ++ show_Z c ++ ")"
  | ExitSignal s => "ExitSignal(" ++ show_signal s ++ ")"
  | ExitStop n => "ExitStop(" ++ show_Z n ++ ")"
  | Exception n => "Exception(" ++ show_Z n ++ ")"
  | Continued => "Continued"
  end.
