(* Model of crates/events/src/serde_formats.rs: Tag <-> SerdeTag <-> JSON, Event <-> JSON.
   Enumerations, kebab-case names, the fs-kind table and the SerdeTag field list come from the
   generated files. *)
From Coq Require Import List NArith ZArith String Ascii Bool.
From WX Require Import Base.Show Base.Bytes Codec.Json Gen.Signals_gen Codec.Signals
  Gen.FsKinds_gen Gen.EventNames_gen.
Import ListNotations.
Open Scope string_scope.

(* ---------- Tag ---------- *)
Inductive tag : Type :=
  | TPath (path : string) (ft : option FileType)
  | TFek (k : EventKind)
  | TSource (s : Source)
  | TKeyboard (k : Keyboard)
  | TProcess (pid : Z)
  | TSignal (s : signal)
  | TCompletion (e : option process_end)
  | TUnknown.

Record serde_tag : Type := mkST {
  st_kind : TagKind;
  st_absolute : option string;
  st_filetype : option FileType;
  st_simple : option FsEventKind;
  st_full : option string;
  st_source : option Source;
  st_keycode : option Keyboard;
  st_pid : option Z;
  st_signal : option signal;
  st_disposition : option ProcessDisposition;
  st_code : option Z }.

Definition st_default : serde_tag :=
  mkST TK_None None None None None None None None None None None.

(* impl From<Tag> for SerdeTag *)
Definition tag_to_serde (t : tag) : serde_tag :=
  match t with
  | TPath p ft => mkST TK_Path (Some p) ft None None None None None None None None
  | TFek k => mkST TK_Fs None None (Some (simple_of k)) (Some (debug_EventKind k)) None None None None None None
  | TSource s => mkST TK_Source None None None None (Some s) None None None None None
  | TKeyboard k => mkST TK_Keyboard None None None None None (Some k) None None None None
  | TProcess p => mkST TK_Process None None None None None None (Some p) None None None
  | TSignal s => mkST TK_Signal None None None None None None None (Some s) None None
  | TCompletion None => mkST TK_Completion None None None None None None None None (Some PD_Unknown) None
  | TCompletion (Some e) =>
      mkST TK_Completion None None None None None None None
        (match e with ExitSignal s => Some s | _ => None end)
        (Some (match e with
               | Success => PD_Success | ExitError _ => PD_Error | ExitSignal _ => PD_Signal
               | ExitStop _ => PD_Stop | Exception _ => PD_Exception | Continued => PD_Continued end))
        (match e with
         | Success | Continued | ExitSignal _ => None
         | ExitError c => Some c | ExitStop c => Some c | Exception c => Some c end)
  | TUnknown => st_default
  end.

Definition kind_of_full (s : string) : EventKind :=
  match find (fun e => String.eqb (fst e) s) full_table with
  | Some e => snd e
  | None => full_default
  end.

Definition in_i32z (z : Z) : bool := andb (Z.leb (-2147483648) z) (Z.leb z 2147483647).
Definition in_i64z (z : Z) : bool := andb (Z.leb (-9223372036854775808) z) (Z.leb z 9223372036854775807).
Definition in_u32z (z : Z) : bool := andb (Z.leb 0 z) (Z.leb z 4294967295).

(* impl From<SerdeTag> for Tag: the match arms in source order *)
Definition serde_to_tag (v : serde_tag) : tag :=
  match st_kind v with
  | TK_Path => match st_absolute v with Some p => TPath p (st_filetype v) | None => TUnknown end
  | TK_Fs =>
      match st_full v with
      | Some f => TFek (kind_of_full f)
      | None => match st_simple v with Some s => TFek (kind_of_simple s) | None => TUnknown end
      end
  | TK_Source => match st_source v with Some s => TSource s | None => TUnknown end
  | TK_Keyboard => match st_keycode v with Some k => TKeyboard k | None => TUnknown end
  | TK_Process => match st_pid v with Some p => TProcess p | None => TUnknown end
  | TK_Signal => match st_signal v with Some s => TSignal s | None => TUnknown end
  | TK_Completion =>
      match st_disposition v with
      | None | Some PD_Unknown => TCompletion None
      | Some PD_Success => TCompletion (Some Success)
      | Some PD_Continued => TCompletion (Some Continued)
      | Some PD_Signal => match st_signal v with Some s => TCompletion (Some (ExitSignal s)) | None => TUnknown end
      | Some PD_Error =>
          match st_code v with
          | Some c => if negb (Z.eqb c 0) then TCompletion (Some (ExitError c)) else TUnknown
          | None => TUnknown
          end
      | Some PD_Stop =>
          match st_code v with
          | Some c => if andb (negb (Z.eqb c 0)) (in_i32z c) then TCompletion (Some (ExitStop c)) else TUnknown
          | None => TUnknown
          end
      | Some PD_Exception =>
          match st_code v with
          | Some c => if andb (negb (Z.eqb c 0)) (in_i32z c) then TCompletion (Some (Exception c)) else TUnknown
          | None => TUnknown
          end
      end
  | TK_None => TUnknown
  end.

Definition tag_kind (t : tag) : TagKind :=
  match t with
  | TPath _ _ => TK_Path | TFek _ => TK_Fs | TSource _ => TK_Source | TKeyboard _ => TK_Keyboard
  | TProcess _ => TK_Process | TSignal _ => TK_Signal | TCompletion _ => TK_Completion | TUnknown => TK_None
  end.

(* value ranges the Rust types guarantee *)
Definition wf_signal (s : signal) : bool := match s with First _ => true | Custom n => in_i32z n end.
Definition wf_end (e : process_end) : bool :=
  match e with
  | Success | Continued => true
  | ExitError c => andb (negb (Z.eqb c 0)) (in_i64z c)
  | ExitSignal s => wf_signal s
  | ExitStop c | Exception c => andb (negb (Z.eqb c 0)) (in_i32z c)
  end.
Definition wf_tag (t : tag) : bool :=
  match t with
  | TProcess p => in_u32z p
  | TSignal s => wf_signal s
  | TCompletion (Some e) => wf_end e
  | _ => true
  end.

(* ---------- SerdeTag <-> JSON ---------- *)
Definition enc_signal (s : signal) : json :=
  match s with First t => JStr (serde_name t) | Custom n => JNum n end.
Definition dec_signal (j : json) : option signal :=
  match j with
  | JStr s => option_map First (find (fun t => String.eqb (serde_name t) s) all_sigtags)
  | JNum n => if in_i32z n then Some (Custom n) else None
  | _ => None
  end.

Definition dec_enum {A} (all : list A) (name : A -> string) (j : json) : option A :=
  match j with JStr s => find (fun t => String.eqb (name t) s) all | _ => None end.
Definition dec_str (j : json) : option string := match j with JStr s => Some s | _ => None end.
Definition dec_u32 (j : json) : option Z := match j with JNum z => if in_u32z z then Some z else None | _ => None end.
Definition dec_i64 (j : json) : option Z := match j with JNum z => if in_i64z z then Some z else None | _ => None end.

Definition tag_fields (v : serde_tag) : list (string * option json) :=
  [ ("kind", Some (JStr (TagKind_name (st_kind v))));
    ("absolute", option_map JStr (st_absolute v));
    ("filetype", option_map (fun x => JStr (FileType_name x)) (st_filetype v));
    ("simple", option_map (fun x => JStr (FsEventKind_name x)) (st_simple v));
    ("full", option_map JStr (st_full v));
    ("source", option_map (fun x => JStr (Source_name x)) (st_source v));
    ("keycode", option_map (fun x => JStr (Keyboard_name x)) (st_keycode v));
    ("pid", option_map JNum (st_pid v));
    ("signal", option_map enc_signal (st_signal v));
    ("disposition", option_map (fun x => JStr (ProcessDisposition_name x)) (st_disposition v));
    ("code", option_map JNum (st_code v)) ].

Definition present (fs : list (string * option json)) : list (string * json) :=
  flat_map (fun e => match snd e with Some j => [(fst e, j)] | None => [] end) fs.

Definition serde_to_json (v : serde_tag) : json := JObj (present (tag_fields v)).

Definition tag_field_names : list string := map fst (tag_fields st_default).

(* an optional field: absent or null -> None; otherwise it must decode *)
Definition optf {A} (dec : json -> option A) (o : list (string * json)) (n : string) : option (option A) :=
  match getf n o with
  | None | Some JNull => Some None
  | Some j => option_map Some (dec j)
  end.

Definition no_dup_known (known : list string) (o : list (string * json)) : bool :=
  forallb (fun n => Nat.leb (count_key n (map fst o)) 1) known.

Definition json_to_serde (j : json) : option serde_tag :=
  match j with
  | JObj o =>
      if negb (no_dup_known tag_field_names o) then None else
      match getf "kind" o with
      | None => None
      | Some jk =>
        match dec_enum all_TagKind TagKind_name jk,
              optf dec_str o "absolute", optf (dec_enum all_FileType FileType_name) o "filetype",
              optf (dec_enum all_FsEventKind FsEventKind_name) o "simple", optf dec_str o "full",
              optf (dec_enum all_Source Source_name) o "source",
              optf (dec_enum all_Keyboard Keyboard_name) o "keycode",
              optf dec_u32 o "pid", optf dec_signal o "signal",
              optf (dec_enum all_ProcessDisposition ProcessDisposition_name) o "disposition",
              optf dec_i64 o "code" with
        | Some k, Some a, Some f, Some s, Some fu, Some so, Some ke, Some p, Some si, Some d, Some c =>
            Some (mkST k a f s fu so ke p si d c)
        | _, _, _, _, _, _, _, _, _, _, _ => None
        end
      end
  | _ => None
  end.

(* ---------- Event ---------- *)
Record event : Type := mkEvent { ev_tags : list tag; ev_meta : list (string * list string) }.

Definition tag_to_json (t : tag) : json := serde_to_json (tag_to_serde t).
Definition json_to_tag (j : json) : option tag := option_map serde_to_tag (json_to_serde j).

Definition event_to_json (e : event) : json :=
  JObj ((match ev_tags e with [] => [] | ts => [("tags", JArr (map tag_to_json ts))] end) ++
        (match ev_meta e with [] => [] | m => [("metadata", JObj (map (fun kv => (fst kv, JArr (map JStr (snd kv)))) m))] end)).

Fixpoint all_some {A} (l : list (option A)) : option (list A) :=
  match l with
  | [] => Some []
  | Some x :: r => option_map (cons x) (all_some r)
  | None :: _ => None
  end.

(* BTreeMap insertion: keys kept byte-sorted, a later duplicate replaces the earlier value *)
Fixpoint meta_insert (k : string) (v : list string) (m : list (string * list string)) :=
  match m with
  | [] => [(k, v)]
  | (k', v') :: r =>
      if String.eqb k k' then (k, v) :: r
      else if str_ltb k k' then (k, v) :: m
      else (k', v') :: meta_insert k v r
  end.

Definition dec_strs (j : json) : option (list string) :=
  match j with JArr l => all_some (map dec_str l) | _ => None end.

Definition dec_meta (j : json) : option (list (string * list string)) :=
  match j with
  | JObj kvs =>
      fold_left (fun acc kv => match acc, dec_strs (snd kv) with
                               | Some m, Some v => Some (meta_insert (fst kv) v m)
                               | _, _ => None end) kvs (Some [])
  | _ => None
  end.

Definition json_to_event (j : json) : option event :=
  match j with
  | JObj o =>
      if negb (no_dup_known ["tags"; "metadata"] o) then None else
      match (match getf "tags" o with
             | None => Some []
             | Some (JArr l) => all_some (map json_to_tag l)
             | Some _ => None end),
            (match getf "metadata" o with
             | None => Some []
             | Some jm => dec_meta jm end) with
      | Some ts, Some m => Some (mkEvent ts m)
      | _, _ => None
      end
  | _ => None
  end.

(* ---------- the documented format (doc/watchexec.1.md, --emit-events-to; test snapshots) ---------- *)
Definition documented_tag_fields : list string :=
  ["kind"; "absolute"; "filetype"; "simple"; "full"; "source"; "keycode"; "pid"; "signal"; "disposition"; "code"].
Definition documented_kinds : list string :=
  ["path"; "fs"; "source"; "keyboard"; "process"; "signal"; "completion"].
Definition documented_filetypes : list string := ["file"; "dir"; "symlink"; "other"].
Definition documented_simple : list string := ["access"; "create"; "modify"; "remove"; "other"].
Definition documented_sources : list string := ["filesystem"; "keyboard"; "mouse"; "os"; "time"; "internal"].
Definition documented_dispositions : list string :=
  ["unknown"; "success"; "error"; "signal"; "stop"; "exception"; "continued"].
