(* JSON trees and the compact rendering serde_json::to_string produces. *)
From Coq Require Import List NArith ZArith String Ascii Bool.
From WX Require Import Base.Show Base.Bytes.
Import ListNotations.
Open Scope string_scope.

Inductive json : Type :=
  | JNull
  | JBool (b : bool)
  | JNum (z : Z)
  | JStr (s : string)
  | JArr (l : list json)
  | JObj (l : list (string * json)).

(* serde_json string escaping: quote, backslash, b f n r t escapes; other bytes < 0x20 as u00xx; the rest raw *)
Definition esc_char (c : ascii) : string :=
  let n := N_of_ascii c in
  if N.eqb n 34 then "\"""
  else if N.eqb n 92 then "\\"
  else if N.eqb n 8 then "\b"
  else if N.eqb n 12 then "\f"
  else if N.eqb n 10 then "\n"
  else if N.eqb n 13 then "\r"
  else if N.eqb n 9 then "\t"
  else if N.ltb n 32 then "\u00" ++ String (hexdigit (N.div n 16)) (String (hexdigit (N.modulo n 16)) "")
  else String c "".
Fixpoint esc (s : string) : string :=
  match s with EmptyString => "" | String c r => esc_char c ++ esc r end.
Definition quote (s : string) : string := """" ++ esc s ++ """".

Fixpoint render (j : json) : string :=
  match j with
  | JNull => "null"
  | JBool b => if b then "true" else "false"
  | JNum z => show_Z z
  | JStr s => quote s
  | JArr l => "[" ++ sep_by "," (map render l) ++ "]"
  | JObj l => "{" ++ sep_by "," (map (fun e => quote (fst e) ++ ":" ++ render (snd e)) l) ++ "}"
  end.

Fixpoint getf (n : string) (o : list (string * json)) : option json :=
  match o with
  | [] => None
  | (k, v) :: r => if String.eqb n k then Some v else getf n r
  end.

Fixpoint count_key (n : string) (ks : list string) : nat :=
  match ks with [] => 0 | k :: r => (if String.eqb n k then 1 else 0) + count_key n r end.
