(* C10: controls are executed in send order within a priority, each at most once; at every decision
   point urgent beats high beats normal (repaired variant). *)
From Coq Require Import List Arith NArith String Ascii Bool Lia.
From WX Require Import Job.JobModel Job.JobExt.
Import ListNotations.
Open Scope N_scope.

Definition prio_eqb (a b : prio) : bool :=
  match a, b with PNormal, PNormal | PHigh, PHigh | PUrgent, PUrgent => true | _, _ => false end.

(* flags taken / accepted at priority p, oldest first (obs is newest first) *)
Fixpoint takes (p : prio) (l : list (time * ob)) : list flag :=
  match l with
  | [] => []
  | (_, OTake q f) :: r => takes p r ++ (if prio_eqb p q then [f] else [])
  | _ :: r => takes p r
  end.
Fixpoint sents (p : prio) (l : list (time * ob)) : list flag :=
  match l with
  | [] => []
  | (_, OSent q f) :: r => sents p r ++ (if prio_eqb p q then [f] else [])
  | _ :: r => sents p r
  end.

Definition queue (p : prio) (w : world) : list (ctrl * flag) :=
  match p with PNormal => qn w | PHigh => qh w | PUrgent => qu w end.

(* everything accepted at priority p has been taken, in the same order, or is still queued in that order *)
Definition Q (w : world) : Prop :=
  forall p, sents p (obs w) = takes p (obs w) ++ map snd (queue p w).

Lemma takes_quiet p ex l : forallb (fun e => quiet (snd e)) ex = true -> takes p (ex ++ l) = takes p l.
Proof.
  induction ex as [|[t o] r IH]; simpl; intro H; [reflexivity|].
  apply andb_true_iff in H. destruct H as [Ho Hr]. destruct o; try discriminate; apply IH; exact Hr.
Qed.
Lemma sents_quiet p ex l : forallb (fun e => quiet (snd e)) ex = true -> sents p (ex ++ l) = sents p l.
Proof.
  induction ex as [|[t o] r IH]; simpl; intro H; [reflexivity|].
  apply andb_true_iff in H. destruct H as [Ho Hr]. destruct o; try discriminate; apply IH; exact Hr.
Qed.

Lemma Q_ext w w' : ext w w' -> Q w -> Q w'.
Proof.
  intros (ex & O & Qt & A & B & C) H p. rewrite O, takes_quiet, sents_quiet by exact Qt.
  rewrite (H p). destruct p; simpl; congruence.
Qed.

Section Env.
  Variable E : env.
  Variable V : variant.

  Definition enq (w : world) (p : prio) (c : ctrl) (f : flag) : world :=
    match p with
    | PNormal => out (set_queues w (qu w) (qh w) (qn w ++ [(c, f)])) (OSent PNormal f)
    | PHigh => out (set_queues w (qu w) (qh w ++ [(c, f)]) (qn w)) (OSent PHigh f)
    | PUrgent => out (set_queues w (qu w ++ [(c, f)]) (qh w) (qn w)) (OSent PUrgent f)
    end.

  Lemma enq_facts w p c f q :
    sents q (obs (enq w p c f)) = sents q (obs w) ++ (if prio_eqb q p then [f] else []) /\
    takes q (obs (enq w p c f)) = takes q (obs w) /\
    queue q (enq w p c f) = queue q w ++ (if prio_eqb q p then [(c, f)] else []).
  Proof. destruct p, q; cbn; rewrite ?app_nil_r; repeat split; reflexivity. Qed.

  Lemma Q_send w p c f : Q w -> Q (send w p c f).
  Proof.
    intro H. unfold send. destruct (ended w); [eapply Q_ext; [apply ext_raise | exact H]|].
    change (Q (enq w p c f)). intro q. destruct (enq_facts w p c f q) as (A & B & C).
    rewrite A, B, C, (H q), map_app, app_assoc. destruct (prio_eqb q p); reflexivity.
  Qed.

  Definition deq (w : world) (p : prio) (f : flag) (r : list (ctrl * flag)) : world :=
    out (match p with
         | PUrgent => set_queues w r (qh w) (qn w)
         | PHigh => set_queues w (qu w) r (qn w)
         | PNormal => set_queues w (qu w) (qh w) r end) (OTake p f).

  Lemma deq_facts w p f r q :
    sents q (obs (deq w p f r)) = sents q (obs w) /\
    takes q (obs (deq w p f r)) = takes q (obs w) ++ (if prio_eqb q p then [f] else []) /\
    queue q (deq w p f r) = (if prio_eqb q p then r else queue q w).
  Proof. destruct p, q; cbn; rewrite ?app_nil_r; repeat split; reflexivity. Qed.

  Lemma Q_take w p c f r : Q w -> queue p w = (c, f) :: r -> Q (deq w p f r).
  Proof.
    intros H Hq q. destruct (deq_facts w p f r q) as (A & B & C). rewrite A, B, C, (H q).
    destruct (prio_eqb q p) eqn:Ep.
    - assert (q = p) as -> by (destruct q, p; try discriminate; reflexivity).
      rewrite Hq. cbn [map snd]. rewrite <- app_assoc. reflexivity.
    - rewrite app_nil_r. reflexivity.
  Qed.

  Lemma Q_task_step w s : Q w -> Q (task_step E V w s).
  Proof.
    intro H. unfold task_step.
    eapply Q_ext; [apply ext_settle_park|]. eapply Q_ext; [apply ext_finish_end|].
    destruct s.
    - eapply Q_ext; [apply ext_handle_wait | exact H].
    - destruct (timer w) as [[[d f] ir]|]; [|exact H].
      eapply Q_ext; [apply ext_handle|]. eapply Q_ext; [|exact H]. apply ext_same; reflexivity.
    - destruct (qu w) as [|[c f] r] eqn:Eq; [exact H|]. cbn [pop].
      eapply Q_ext; [apply ext_handle|]. apply (Q_take w PUrgent c f r H Eq).
    - destruct (qh w) as [|[c f] r] eqn:Eq; [exact H|]. cbn [pop].
      eapply Q_ext; [apply ext_handle|]. apply (Q_take w PHigh c f r H Eq).
    - destruct (qn w) as [|[c f] r] eqn:Eq; [exact H|]. cbn [pop].
      eapply Q_ext; [apply ext_handle|]. apply (Q_take w PNormal c f r H Eq).
  Qed.

  Lemma Q_step w l : Q w -> Q (step E V w l).
  Proof.
    intro H. unfold step. assert (Q (normalize w)) as Hn by (eapply Q_ext; [apply ext_normalize | exact H]).
    set (w' := normalize w) in *. clearbody w'.
    destruct l as [p c f | s | t].
    - apply Q_send. exact Hn.
    - destruct (existsb _ (enabled V w')); [apply Q_task_step|]; exact Hn.
    - destruct (now w' <? t); [eapply Q_ext; [|exact Hn]; apply ext_same; reflexivity | exact Hn].
  Qed.

  Theorem fifo ls : Q (run E V ls).
  Proof.
    unfold run. assert (forall w, Q w -> Q (fold_left (step E V) ls w)) as G.
    { induction ls as [|l r IH]; intros w H; simpl; [exact H | apply IH, Q_step, H]. }
    apply G. intro p. destruct p; reflexivity.
  Qed.

  (* consequences: the executed sequence is a prefix of the accepted one ... *)
  Corollary executed_prefix ls p :
    exists rest, sents p (obs (run E V ls)) = takes p (obs (run E V ls)) ++ rest.
  Proof. eexists. apply (fifo ls p). Qed.

  (* ... so if the accepted flags are pairwise distinct, no control is executed twice *)
  Corollary executed_once ls p :
    NoDup (sents p (obs (run E V ls))) -> NoDup (takes p (obs (run E V ls))).
  Proof.
    intro H. rewrite (fifo ls p) in H. set (a := takes p (obs (run E V ls))) in *. clearbody a.
    induction a as [|x a IH]; [constructor|]. simpl in H. inversion H as [|? ? Hx Hr]; subst.
    constructor; [intro Hin; apply Hx; apply in_or_app; left; exact Hin | apply IH; exact Hr].
  Qed.

  (* ... and a control is only taken after everything accepted before it at the same priority *)
  Lemma prefix_lemma (tk q pre post : list flag) f g :
    tk ++ q = pre ++ f :: post -> NoDup (tk ++ q) -> In f tk -> In g pre -> In g tk.
  Proof.
    revert pre. induction tk as [|x tk IH]; intros pre Hs ND Hf Hg; [contradiction|].
    destruct pre as [|y pre]; [contradiction|]. simpl in Hs. injection Hs as Hxy Hrest. subst y.
    destruct Hg as [<-|Hg]; [left; reflexivity|]. right.
    simpl in ND. inversion ND as [|? ? Hx NDr]; subst.
    destruct Hf as [<-|Hf].
    - exfalso. apply Hx. rewrite Hrest. apply in_or_app. right. left. reflexivity.
    - apply (IH pre Hrest NDr Hf Hg).
  Qed.

  Corollary last_implies_all ls p f pre post g :
    sents p (obs (run E V ls)) = pre ++ f :: post -> NoDup (sents p (obs (run E V ls))) ->
    In f (takes p (obs (run E V ls))) -> In g pre -> In g (takes p (obs (run E V ls))).
  Proof.
    intros Hs ND Hf Hg. pose proof (fifo ls p) as F. rewrite F in Hs, ND.
    eapply prefix_lemma; eassumption.
  Qed.
End Env.

(* priority at every decision point of the repaired code: a normal control is taken only when no urgent
   or high one is pending and no grace timer is armed; a high one only when no urgent one is pending *)
Theorem priority_at_decision w s :
  In s (enabled fixed w) ->
  match s with
  | SNormal => qu w = [] /\ qh w = [] /\ timer w = None
  | SHigh => qu w = []
  | _ => True
  end.
Proof.
  unfold enabled. destruct (ended w); [intros []|]. destruct (now w <? busy_until w); [intros []|].
  rewrite in_app_iff. intros [H|H].
  - destruct (wait_ready w); [destruct H as [<-|[]]; exact I | contradiction].
  - cbn [v_biased fixed] in H. destruct (parked w).
    + unfold recv_parked in H. destruct (timer_due w); [destruct H as [<-|[]]; exact I|].
      destruct (qu w) as [|x xs]; cbn [nonempty app] in H.
      * destruct (qh w) as [|y ys]; cbn [nonempty app] in H.
        -- destruct (timer w); [contradiction|]. destruct (nonempty (qn w)); [|contradiction].
           destruct H as [<-|[]]. repeat split; reflexivity.
        -- destruct H as [<-|[]]. reflexivity.
      * destruct H as [<-|[]]. exact I.
    + unfold recv_fresh in H. destruct (timer_due w); [destruct H as [<-|[]]; exact I|].
      destruct (qu w) as [|x xs]; cbn [nonempty] in H; [|destruct H as [<-|[]]; exact I].
      destruct (qh w) as [|y ys]; cbn [nonempty] in H; [|destruct H as [<-|[]]; reflexivity].
      destruct (timer w); [contradiction|]. destruct (nonempty (qn w)); [|contradiction].
      destruct H as [<-|[]]. repeat split; reflexivity.
Qed.

(* the pinned code could take a normal control while an urgent one is pending (parked select) *)
Lemma priority_at_decision_refuted :
  let w := set_queues init [(CDelete, 1%nat)] [] [(CSyncFunc 1, 0%nat)] in
  In SNormal (enabled pinned w) /\ qu w <> [].
Proof. vm_compute. split; [right; left; reflexivity | discriminate]. Qed.
